#!/usr/bin/env python3
"""Prepare a round of the mutation campaign: one scratch worktree of /repo and one
prompt file per property under <dir> (outside /repo and /verif).

usage: tools/seed_prompts.py <dir> <round hint file or -> [<property id> ...]

The prompt gives a sub-agent the property text and its own worktree only -
nothing from /verif.  The worktrees are removed with
`git -C /repo worktree remove --force <dir>/<id>` once a round has been evaluated.
"""
import json
import subprocess
import sys
from pathlib import Path

VERIF = Path(__file__).resolve().parents[1]

TEMPLATE = """You are working in a scratch git worktree of the AEIC repository (aviation emissions inventory code, Python) at {wt}: package under {wt}/src/AEIC, tests under {wt}/tests. Do ALL your work inside {wt}; never read or modify /repo, /verif or any other directory (in particular do not look for verification tooling elsewhere on this machine - your work must be independent of it). There is no network.

How to run things: `cd {wt} && PYTHONPATH={wt}/src /venv/bin/python ...` - the venv has AEIC installed editable from a different checkout, so setting PYTHONPATH={wt}/src is REQUIRED for your edits to take effect (verify with `python -c "import AEIC; print(AEIC.__file__)"`). The existing test-suite: `cd {wt} && PYTHONPATH={wt}/src /venv/bin/python -m pytest -q -p no:cacheprovider` (about 1 minute; 123 passed, 1 skipped on the unmodified tree). Tests need no set-up beyond that (tests/conftest.py sets AEIC_PATH).

Here is a semantic property of this code base that currently HOLDS on this tree:

{prop}

Your task: produce ONE realistic change to the source under {wt}/src (a plausible bug a maintainer could introduce: a refactoring slip, an off-by-one, a wrong branch or comparison, a missing guard, a stale cache, a reordered statement, a unit or argument-order mix-up ...) that BREAKS this property while
  (a) the package still imports and works in ordinary use,
  (b) the ENTIRE existing test-suite still passes, with the tests unmodified.
The change must need something specific in order to manifest - a particular multi-step sequence of operations, an unusual input, a crash or fault at a particular point, a particular interleaving, or two cooperating sites that each look fine alone - not something that ordinary use would expose at once. Keep it small (a few lines, one or two sites). Do not touch the tests. Do not add dead code or comments that announce the bug.
{hint}
Never use `git stash` (stashes are shared between worktrees of one repository): to test without your change, save your diff to a file and use `git -C {wt} apply -R <file>`, then `git -C {wt} apply <file>` to restore it.

Deliverables, written into {wt}/_seed/ (create the directory):
  1. patch.diff - exactly the output of `git -C {wt} diff -- src` with your change applied.
  2. demo.py - a standalone script that exercises the PUBLIC API of AEIC: it must print PASS and exit 0 on the unmodified code, and print FAIL (with a one-line explanation) and exit 1 with your change applied. It must run with `cd {wt} && PYTHONPATH={wt}/src /venv/bin/python _seed/demo.py` in under 60 s, offline, using only files inside {wt} or temporary files it creates itself.
  3. notes.md - which clause of the property the change breaks, what it needs in order to manifest, and the exact commands you ran with their observed results: demo with the change -> FAIL; demo with the change reverse-applied -> PASS; full test-suite with the change -> all pass (paste the pytest summary line).
Leave your change APPLIED in the worktree when you finish (and the _seed directory in place). Finish with a 5-line summary: files touched, what breaks, how it manifests, suite result.
"""


def main():
    out = Path(sys.argv[1])
    hint = '' if sys.argv[2] == '-' else '\n' + Path(sys.argv[2]).read_text().strip() + '\n'
    want = set(sys.argv[3:])
    out.mkdir(parents=True, exist_ok=True)
    for line in open(VERIF / 'properties.jsonl'):
        p = json.loads(line)
        if want and p['id'] not in want:
            continue
        wt = out / p['id']
        if not wt.exists():
            subprocess.run(['git', '-C', '/repo', 'worktree', 'add', '--detach', str(wt), 'HEAD'], check=True, capture_output=True)
        (out / f'prompt_{p["id"]}.txt').write_text(TEMPLATE.format(wt=wt, prop=json.dumps(p, indent=1), hint=hint))
        print(p['id'], wt)


if __name__ == '__main__':
    main()
