#!/usr/bin/env python3
"""Evaluate a seeded breaking change delivered by a sub-agent in a scratch worktree.

usage: tools/seed_eval.py <property id> <worktree> [<check id> ...]

Confirms (1) the demonstration fails with the change and passes without it,
(2) the repository's test-suite still passes with the change, (3) runs the
registered check(s) against the changed tree (VERIF_REPO=<worktree>) and records
whether they report a violation.  Writes /verif/seeded/<id>/{patch.diff,demo.py,notes.md,meta.json}.
"""
import json
import os
import re
import shutil
import subprocess
import sys
import tempfile
import time
from pathlib import Path

VERIF = Path(__file__).resolve().parents[1]


def sh(cmd, cwd=None, env=None, timeout=3600):
    p = subprocess.run(cmd, cwd=cwd, env=env, shell=isinstance(cmd, str), capture_output=True, text=True, timeout=timeout)
    return p.returncode, p.stdout + p.stderr


def main():
    pid, wt = sys.argv[1], Path(sys.argv[2])
    checks = sys.argv[3:] or [pid]
    seed = wt / '_seed'
    env = dict(os.environ, PYTHONPATH=str(wt / 'src'))
    py = '/venv/bin/python'
    meta = {'property': pid, 'worktree_head': sh(f'git -C {wt} rev-parse HEAD')[1].strip(), 'ran': []}
    rc, diff = sh(f'git -C {wt} diff -- src')
    if not diff.strip():
        print('no change applied in worktree')
        return 2
    rc1, out1 = sh([py, '_seed/demo.py'], cwd=wt, env=env, timeout=300)
    meta['ran'].append({'cmd': 'demo.py with change', 'rc': rc1, 'tail': out1[-300:]})
    # (git stash is shared between worktrees of one repository: reverse-apply the patch instead)
    pf = wt / '_seed' / '.eval.patch'
    pf.write_text(diff)
    r, o = sh(f'git -C {wt} apply -R {pf}')
    if r != 0:
        print('cannot reverse-apply the change:', o)
        return 2
    try:
        rc0, out0 = sh([py, '_seed/demo.py'], cwd=wt, env=env, timeout=300)
    finally:
        sh(f'git -C {wt} apply {pf}')
        pf.unlink()
    meta['ran'].append({'cmd': 'demo.py without change', 'rc': rc0, 'tail': out0[-300:]})
    t = time.time()
    rcs, outs = sh([py, '-m', 'pytest', '-q', '-p', 'no:cacheprovider', '--timeout=900'], cwd=wt, env=env, timeout=1800)
    summary = [ln for ln in outs.splitlines() if ' passed' in ln or ' failed' in ln][-1:] or [outs[-200:]]
    meta['ran'].append({'cmd': 'pytest (full suite) with change', 'rc': rcs, 'summary': summary[0], 'wall_s': round(time.time() - t)})
    meta['demo_discriminates'] = (rc1 != 0 and rc0 == 0)
    meta['suite_passes_with_change'] = (rcs == 0)
    meta['checks'] = {}
    for c in checks:
        for tier in ('quick',):
            d = tempfile.mkdtemp(prefix='seedeval-')
            e = dict(os.environ, VERIF_REPO=str(wt), VERIF_EVIDENCE_DIR=d + '/ev', VERIF_VIOL_DIR=d + '/viol')
            t = time.time()
            rcc, outc = sh([str(VERIF / 'check'), c, '--tier', tier], cwd=VERIF, env=e, timeout=3600)
            viols = [ln for ln in outc.splitlines() if ln.startswith('VIOLATION')]
            meta['checks'][f'{c}:{tier}'] = {'rc': rcc, 'caught': rcc == 1 and bool(viols), 'violation_lines': [v[:400] for v in viols[:5]], 'wall_s': round(time.time() - t), 'tail': outc[-400:] if rcc not in (0, 1) else ''}
            shutil.rmtree(d, ignore_errors=True)
    out = VERIF / 'seeded' / (sys.argv[4] if False else os.environ.get('SEED_NAME', pid))
    out.mkdir(parents=True, exist_ok=True)
    (out / 'patch.diff').write_text(diff)
    for f in ('demo.py', 'notes.md'):
        if (seed / f).exists():
            shutil.copy(seed / f, out / f)
    files = sorted(set(re.findall(r'^\+\+\+ b/(\S+)', diff, re.M)))
    meta['files_touched'] = files
    (out / 'meta.json').write_text(json.dumps(meta, indent=1) + '\n')
    print(json.dumps({k: meta[k] for k in ('demo_discriminates', 'suite_passes_with_change')}), {k: (v['rc'], v['caught']) for k, v in meta['checks'].items()})
    return 0


if __name__ == '__main__':
    sys.exit(main())
