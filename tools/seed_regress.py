#!/usr/bin/env python3
"""Re-run the registered quick checks against every seeded change under /verif/seeded.

usage: tools/seed_regress.py [<seed name> ...]      (default: all)

For each seed a scratch worktree of /repo's HEAD is created under /tmp, the
patch is applied there (never to /repo), the check of the seed's property is
run with VERIF_REPO=<worktree> and scratch evidence directories, and the
worktree is removed again.  Prints one line per seed and writes
/verif/seeded/REGRESSION.json.  Exit 1 if a seed is not caught or does not apply.
"""
import json
import os
import subprocess
import sys
import tempfile
from concurrent.futures import ThreadPoolExecutor
from pathlib import Path

VERIF = Path(__file__).resolve().parents[1]
REPO = os.environ.get('VERIF_REPO', '/repo')


def sh(cmd, **kw):
    p = subprocess.run(cmd, shell=True, capture_output=True, text=True, **kw)
    return p.returncode, p.stdout + p.stderr


def one(name):
    sd = VERIF / 'seeded' / name
    meta = json.loads((sd / 'meta.json').read_text())
    pid = meta['property']
    check = meta.get('caught_by', pid)   # (a change whose mechanism belongs to another property's check is run against that one)
    if meta.get('superseded'):
        return name, pid, 'superseded', meta['superseded'][:200]
    tmp = Path(tempfile.mkdtemp(prefix=f'seedreg-{name}-'))
    wt = tmp / 'wt'
    try:
        rc, out = sh(f'git -C {REPO} worktree add --detach {wt} HEAD')
        if rc:
            return name, pid, 'machinery', out[-200:]
        rc, out = sh(f'git -C {wt} apply {sd / "patch.diff"}')
        if rc:
            return name, pid, 'does-not-apply', out[-200:]
        env = dict(os.environ, VERIF_REPO=str(wt), VERIF_EVIDENCE_DIR=str(tmp / 'ev'), VERIF_VIOL_DIR=str(tmp / 'viol'))
        rc, out = sh(f'{VERIF}/check {check}', env=env, timeout=3600)
        lines = [ln for ln in out.splitlines() if ln.startswith('VIOLATION')]
        if rc == 1 and lines:
            return name, pid, 'caught', lines[0][:300]
        return name, pid, ('missed' if rc == 0 else f'rc={rc}'), out[-300:]
    finally:
        sh(f'git -C {REPO} worktree remove --force {wt}')
        sh(f'rm -rf {tmp}')
        sh(f'git -C {REPO} worktree prune')


def main():
    names = sys.argv[1:] or sorted(p.name for p in (VERIF / 'seeded').iterdir() if (p / 'patch.diff').exists())
    res = {}
    with ThreadPoolExecutor(max_workers=int(os.environ.get('SEED_WORKERS', '4'))) as ex:
        for name, pid, verdict, detail in ex.map(one, names):
            print(f'{name:6s} {pid} {verdict:15s} {detail[:200]}', flush=True)
            res[name] = {'property': pid, 'verdict': verdict, 'detail': detail}
    out = VERIF / 'seeded' / 'REGRESSION.json'
    if sys.argv[1:] and out.exists():
        # a partial run refreshes the entries of the seeds it was given
        res = {**json.loads(out.read_text()), **res}
    out.write_text(json.dumps(dict(sorted(res.items())), indent=1))
    return 0 if all(v['verdict'] in ('caught', 'superseded') for v in res.values()) else 1


if __name__ == '__main__':
    sys.exit(main())
