#!/usr/bin/env python3
"""Per-property hint files for a round of the mutation campaign: the mechanisms of the
changes already studied (taken from the tables of DESIGN.md section 12.4 - only the
description of each change, nothing about the checks), followed by the round's angle.

usage: tools/seed_hints.py <outdir> <angle file>
writes <outdir>/hint_<id>.txt for every property.
"""
import re
import sys
from collections import defaultdict
from pathlib import Path

VERIF = Path(__file__).resolve().parents[1]


def main():
    out, angle = Path(sys.argv[1]), Path(sys.argv[2]).read_text().strip()
    out.mkdir(parents=True, exist_ok=True)
    mech = defaultdict(list)
    text = (VERIF / 'DESIGN.md').read_text()
    text = text[text.index('### 12.4'):]
    for line in text.splitlines():
        m = re.match(r'\|\s*(C\d\d)[a-z]?\s*\|\s*(.*?)\s*\|', line)
        if m and not m.group(2).startswith('---'):
            mech[m.group(1)].append(m.group(2))
    for i in range(1, 21):
        pid = f'C{i:02d}'
        txt = 'Changes of the following kinds have ALREADY been studied for this property - do not produce a variation of any of them:\n'
        txt += ''.join(f'  - {d}\n' for d in mech[pid])
        txt += '\n' + angle + '\n'
        (out / f'hint_{pid}.txt').write_text(txt)
        print(pid, len(mech[pid]))


if __name__ == '__main__':
    main()
