"""C02 — simulated trajectories obey mass, time, distance and route bookkeeping.

spec:    specs/flight/LegacyFlight.tla (working point + growable buffer + three
         phases with hand-over; Monotone, HandoverContinuity, PhaseGrammar,
         FlightIsExpected; defective hand-over variant as negative control),
         LegacyFlightTrace.tla.
binding: (A) spec -> code: for every TLC-enumerated (n_climb, n_cruise,
         n_descent) - before, on and after the 50-point growth boundary - the
         real LegacyBuilder flies a phase-constant synthetic table and every
         point must equal the specification's point (burn-count vector scaled
         with the table constants) in altitude, time, distance, fuel and mass;
         (B) code -> spec: flights with the shipped B738 table over generated
         missions (all test airports, high-elevation, antimeridian, polar,
         near-antipodal, very short; load factors; step fractions; given
         starting masses; mass iteration) are projected point by point and
         validated by TLC against LegacyFlightTrace.tla; resampling is checked
         on every returned trajectory.
"""

from __future__ import annotations

import json
import math
import warnings
from pathlib import Path

import numpy as np

from . import tlc
from .core import Ctx, MachineryError
from .store_replay import pmap
from .traj_common import load_config, mission, sample_model

FT = 0.3048
# phase-constant synthetic table (SI units as in the shipped tables)
TAB = dict(tas_c=250.0, rocd_c=15.0, ff_c=2.0, tas_z=230.0, ff_z=1.0, tas_d=240.0, rocd_d=-12.0, ff_d=0.5)
MASSES = (50000.0, 65000.0, 80000.0)
MAX_ALT_FT = 41000
_state = {}


def const_model():
    if 'const' in _state:
        return _state['const']
    from AEIC.performance.models import PerformanceModel

    rows = []
    fls = [float(x) for x in range(0, 451, 50)]
    for fl in fls:
        for m in MASSES:
            rows.append([fl, TAB['tas_c'], TAB['rocd_c'], m, TAB['ff_c']])
            rows.append([fl, TAB['tas_z'], 0.0, m, TAB['ff_z']])
        rows.append([fl, TAB['tas_d'], TAB['rocd_d'], MASSES[1], TAB['ff_d']])
    data = dict(
        model_type='legacy', aircraft_name='VERIF', aircraft_class='narrow', maximum_altitude_ft=MAX_ALT_FT,
        maximum_payload_kg=10000, number_of_engines=2, speeds=None, lto_performance=None,
        flight_performance=dict(cols=['fl', 'tas', 'rocd', 'mass', 'fuel_flow'], data=rows),
    )  # fmt: skip
    _state['const'] = PerformanceModel.from_data(data)
    return _state['const']


def setup():
    if 'pm' not in _state:
        load_config()
        _state['pm'] = sample_model()
    return _state['pm']


def builder(nC=None, nZ=None, nD=None, iterate=False, fracs=None):
    import AEIC.trajectories.builders as tb
    from AEIC.trajectories.builders.legacy import LegacyOptions

    if fracs is None:
        fracs = (1.0 / (nC + 0.5), 1.0 / (nZ + 0.5), 1.0 / (nD - 1 + 0.5))
    return tb.LegacyBuilder(options=tb.Options(iterate_mass=iterate), legacy_options=LegacyOptions(frac_step_clm=fracs[0], frac_step_crz=fracs[1], frac_step_des=fracs[2]))


def close(a, b, scale=1.0, rel=1e-9):
    return abs(a - b) <= rel * max(abs(a), abs(b), scale)


# ---------------------------------------------------------------- tier A ----
def run_exact(job):
    warnings.simplefilter('ignore')
    case, route = job
    try:
        setup()
        from AEIC.trajectories.ground_track import GroundTrack

        pm = const_model()
        m = mission(*route)
        nC, nZ, nD = case['nC'], case['nZ'], case['nD']
        devs = []
        try:
            t = builder(nC, nZ, nD).fly(pm, m)
        except Exception as e:
            return [('exact:flight-raised-' + type(e).__name__, f'phase-constant table flight n=({nC},{nZ},{nD}) on {route} raised {type(e).__name__}: {e}')]
        D = GroundTrack.great_circle(m.origin_position.location, m.destination_position.location).total_distance
        a0 = m.origin_position.altitude + 3000 * FT
        crz = (MAX_ALT_FT - 7000) * FT
        a1 = m.destination_position.altitude + 3000 * FT
        dc = (crz - a0) / (nC - 1)
        dd = (a1 - crz) / (nD - 1)
        tC = dc / TAB['rocd_c']
        dC = math.sqrt(TAB['tas_c'] ** 2 - TAB['rocd_c'] ** 2) * tC
        fC = TAB['ff_c'] * tC
        step = (D - 18.23 * (crz - a1) - (nC - 1) * dC) / (nZ - 1)
        tZ1, tZ = step / TAB['tas_c'], step / TAB['tas_z']
        fZ1, fZ = TAB['ff_z'] * tZ1, TAB['ff_z'] * tZ
        tD = dd / TAB['rocd_d']
        dD = math.sqrt(TAB['tas_d'] ** 2 - TAB['rocd_d'] ** 2) * tD
        fD = TAB['ff_d'] * tD
        # positions: on the origin-destination great circle at the recorded distance - also for the
        # points the descent puts beyond the destination (this table glides at 20:1, shallower than the
        # builder's 18.23:1 top-of-descent rule, so the last descent points overshoot by about 16 km)
        from AEIC.utils import GEOD

        o_, d_ = m.origin_position, m.destination_position
        az0, _, _ = GEOD.inv(o_.longitude, o_.latitude, d_.longitude, d_.latitude)
        gd = np.asarray(t.ground_distance, float)
        plon, plat, _ = GEOD.fwd(np.full(len(t), o_.longitude), np.full(len(t), o_.latitude), np.full(len(t), az0), gd)
        _, _, off = GEOD.inv(plon, plat, np.asarray(t.longitude, float), np.asarray(t.latitude, float))
        for i in range(len(t)):
            if not (math.isfinite(off[i]) and off[i] <= 1.0):
                where = 'beyond-destination' if gd[i] > D else 'en-route'
                devs.append((f'exact:position:{where}', f'n=({nC},{nZ},{nD}) {route}: point {i} at ground distance {gd[i]:.1f} m (route length {D:.1f} m) is {off[i]:.1f} m away from the great circle point at that distance'))
                break
        if len(t) != len(case['pts']):
            return [('exact:length', f'n=({nC},{nZ},{nD}): trajectory has {len(t)} points; specification: {len(case["pts"])}')]
        if (int(t.n_climb), int(t.n_cruise), int(t.n_descent)) != (nC, nZ, nD - 1):
            devs.append(('exact:phase-counts', f'n=({nC},{nZ},{nD}): reported phase counts {(int(t.n_climb), int(t.n_cruise), int(t.n_descent))}; specification: {(nC, nZ, nD - 1)}'))
        m0, f0 = float(t.starting_mass), float(t.total_fuel_mass)
        for i, p in enumerate(case['pts']):
            c, z1, z, d = p['c'], p['z1'], p['z'], p['d']
            alt = a0 + p['k'] * dc if p['ph'] == 'climb' else (crz if p['ph'] == 'cruise' else crz + p['k'] * dd)
            tm = c * tC + z1 * tZ1 + z * tZ + d * tD
            ds = c * dC + (z1 + z) * step + d * dD
            fb = c * fC + z1 * fZ1 + z * fZ + d * fD
            got = dict(altitude=float(t.altitude[i]), flight_time=float(t.flight_time[i]), ground_distance=float(t.ground_distance[i]),
                       fuel_mass=float(t.fuel_mass[i]), aircraft_mass=float(t.aircraft_mass[i]))  # fmt: skip
            want = dict(altitude=alt, flight_time=tm, ground_distance=ds, fuel_mass=f0 - fb, aircraft_mass=m0 - fb)
            for f in want:
                if not close(got[f], want[f], scale={'altitude': 1000, 'flight_time': tm or 1, 'ground_distance': ds or 1, 'fuel_mass': f0, 'aircraft_mass': m0}[f]):
                    where = 'first cruise point' if i == nC else ('first descent point' if i == nC + nZ else f'{p["ph"]} point')
                    devs.append((f'exact:{f}:{where.replace(" ", "-")}', f'n=({nC},{nZ},{nD}) {route}: point {i} ({where}, burns c={c} z1={z1} z={z} d={d}): {f} = {got[f]!r}; specification: {want[f]!r}'))
                    break
            if devs:
                break
        return devs
    except Exception as e:
        import traceback

        return [('machinery', f'{type(e).__name__}: {e}\n{traceback.format_exc()}')]


# ---------------------------------------------------------------- tier B ----
def project(t, m, pm):
    """Trajectory -> event list for LegacyFlightTrace.tla."""
    from AEIC.utils import GEOD

    n = len(t)
    nC, nZ, nDrec = int(t.n_climb), int(t.n_cruise), int(t.n_descent)
    nD = nDrec + 1
    ev = [{'op': 'begin', 'nC': nC, 'nZ': nZ, 'nD': nD, 'len': n}]
    mass, fuel = np.asarray(t.aircraft_mass, float), np.asarray(t.fuel_mass, float)
    tm, ds, alt = np.asarray(t.flight_time, float), np.asarray(t.ground_distance, float), np.asarray(t.altitude, float)
    lon, lat = np.asarray(t.longitude, float), np.asarray(t.latitude, float)
    o, d = m.origin_position, m.destination_position
    az0, _, total = GEOD.inv(o.longitude, o.latitude, d.longitude, d.latitude)
    plon, plat, _ = GEOD.fwd(np.full(n, o.longitude), np.full(n, o.latitude), np.full(n, az0), ds)
    _, _, off = GEOD.inv(plon, plat, lon, lat)
    ceiling = pm.maximum_altitude
    crz = max(alt[:nC]) if nC else alt[0]
    const0 = mass[0] - fuel[0]
    fields = ['fuel_flow', 'aircraft_mass', 'fuel_mass', 'ground_distance', 'altitude', 'flight_level', 'rate_of_climb', 'flight_time',
              'latitude', 'longitude', 'azimuth', 'true_airspeed']  # fmt: skip
    fin = np.ones(n, bool)
    for f in fields:
        fin &= np.isfinite(np.asarray(getattr(t, f), float))
    tol_m = 1e-9 * max(abs(mass[0]), 1.0)
    for i in range(n):
        ph = 'climb' if i < nC else ('cruise' if i < nC + nZ else 'descent')
        if i == 0:
            da = 'first'
        else:
            dlt = alt[i] - alt[i - 1]
            da = 'up' if dlt > 1e-9 else ('down' if dlt < -1e-9 else 'level')
        dup = i > 0 and all(x[i] == x[i - 1] for x in (lon, lat, tm, ds, mass, fuel))
        ev.append(
            {
                'op': 'pt', 'ph': ph, 'da': da,
                'bal': bool(abs((mass[i] - fuel[i]) - const0) <= tol_m),
                'mnd': bool(i == 0 or (mass[i] <= mass[i - 1] + tol_m and fuel[i] <= fuel[i - 1] + tol_m)),
                'tnd': bool(i == 0 or tm[i] >= tm[i - 1] - 1e-9 * max(1.0, tm[i - 1])),
                'dnd': bool(i == 0 or ds[i] >= ds[i - 1] - 1e-9 * max(1.0, ds[i - 1])),
                'ontrack': bool(np.isfinite(off[i]) and off[i] <= 1.0),
                'finite': bool(fin[i]),
                'ceil': bool(alt[i] <= ceiling + 1e-6 and alt[i] <= crz + 1e-6),
                'dup': bool(dup), 'handover': bool(dup),
            }
        )  # fmt: skip
    start_alt = o.altitude + 3000 * FT
    if start_alt >= ceiling:
        start_alt = o.altitude
    end_alt = min(d.altitude + 3000 * FT, ceiling)
    ev.append(
        {
            'op': 'end',
            'start_ok': bool(mass[0] == float(t.starting_mass) and fuel[0] == float(t.total_fuel_mass) and tm[0] == 0 and ds[0] == 0),
            'startalt_ok': bool(close(alt[0], start_alt, 1000)),
            'endalt_ok': bool(close(alt[-1], end_alt, 1000)),
            'counts_ok': bool(n == nC + nZ + nD),
        }
    )
    return ev


def check_resample(t):
    tm = np.asarray(t.flight_time, float)
    own = t.interpolate_time(tm)
    # every per-point field, longitudes across the antimeridian included (linear between neighbouring points as stored)
    pts = ['aircraft_mass', 'fuel_mass', 'ground_distance', 'altitude', 'latitude', 'longitude', 'fuel_flow', 'true_airspeed', 'ground_speed', 'rate_of_climb', 'flight_level']
    for f in pts:
        a, b = np.asarray(getattr(t, f), float), np.asarray(getattr(own, f), float)
        for i in range(len(tm)):
            if a[i] == b[i]:
                continue
            # at repeated time points (phase hand-over) either neighbour's value is admissible
            nb = [a[j] for j in range(len(tm)) if tm[j] == tm[i]]
            if not any(b[i] == x for x in nb):
                return f'resampling at own time point {i} changes {f}: {a[i]!r} -> {b[i]!r}'
    idx = [i for i in range(len(tm) - 1) if tm[i + 1] > tm[i]]
    mids = np.array([(tm[i] + tm[i + 1]) / 2 for i in idx])
    if len(mids):
        mid = t.interpolate_time(mids)
        for f in pts:
            a, b = np.asarray(getattr(t, f), float), np.asarray(getattr(mid, f), float)
            for j, i in enumerate(idx):
                want = (a[i] + a[i + 1]) / 2
                if not close(b[j], want, max(abs(a[i]), abs(a[i + 1]), 1e-6), rel=1e-9):
                    return f'resampling at the midpoint of points {i},{i + 1}: {f} = {b[j]!r}; linear interpolation gives {want!r}'
    # the resampled values are a function of the requested TIMES, not of the dtype of the array that carries them:
    # whole seconds handed over as int64 give what the same seconds give as float64 (round 17)
    lo, hi = int(np.ceil(tm[0])) + 1, int(np.floor(tm[-1]))
    if hi - lo >= 4:
        ti = np.arange(lo, hi, max(1, (hi - lo) // 5), dtype=np.int64)
        ri, rf = t.interpolate_time(ti), t.interpolate_time(ti.astype(float))
        for f in pts:
            a, b = np.asarray(getattr(rf, f), float), np.asarray(getattr(ri, f), float)
            if a.shape != b.shape or not np.allclose(a, b, rtol=1e-12, atol=0, equal_nan=True):
                return f'resampling at whole seconds {ti.tolist()} handed over as int64: {f} = {b.tolist()}; the same seconds as float64 give {a.tolist()}'
    return None


def glide_model(scale, ceiling_ft=None):
    """The shipped B738 table with the descent rates scaled: a valid table that
    glides shallower (scale < 1) than the builder's top-of-descent rule assumes;
    optionally with another aircraft ceiling (the table itself still covers all levels)."""
    scale = 1.0 if scale is None else scale
    key = ('glide', scale, ceiling_ft)
    if key not in _state:
        import tomllib

        from AEIC.config import config
        from AEIC.performance.models import PerformanceModel

        with open(config.file_location('performance/sample_performance_model.toml'), 'rb') as fp:
            d = tomllib.load(fp)
        fk = next(k for k in d if k.lower() == 'flight_performance')
        cols = [c.lower() for c in d[fk]['cols']]
        ir = cols.index('rocd')
        d[fk]['data'] = [[(v * scale if j == ir and r[ir] < 0 else v) for j, v in enumerate(r)] for r in d[fk]['data']]
        if ceiling_ft is not None:
            d[next(k for k in d if k.lower() == 'maximum_altitude_ft')] = ceiling_ft
        _state[key] = PerformanceModel.from_data(d)
    return _state[key]


def run_traced(job):
    warnings.simplefilter('ignore')
    try:
        pm = setup()
        route, lf, fracs, start_mass, iterate = job[:5]
        if len(job) > 5 and (job[5] is not None or (len(job) > 6 and job[6] is not None)):
            pm = glide_model(job[5], job[6] if len(job) > 6 else None)
        m = mission(route[0], route[1], load_factor=lf)
        # starting masses at the edge of the performance table's mass range (LegacyFlight.tla: whatever is returned
        # carries the reported starting mass at its first point; what cannot be flown is rejected)
        if isinstance(start_mass, str):
            start_mass = {'max': float(pm.maximum_mass), 'max+': float(pm.maximum_mass) + 0.5, 'max++': float(pm.maximum_mass) + 1000.0}[start_mass]
        kw = {} if start_mass is None else {'starting_mass': start_mass}
        b = builder(fracs=fracs, iterate=iterate)
        # LegacyFlightTrace.tla BuilderUse: the flight is flown by a new builder, or (every second job) by one that has just
        # flown the RETURN leg of the same route - the positions of this flight lie on ITS great circle, from ITS origin
        if (len(route[0]) + sum(map(ord, route[0] + route[1])) + int(lf * 10)) % 2 == 1:
            try:
                b.fly(pm, mission(route[1], route[0], load_factor=lf))
            except Exception:
                pass
        try:
            t = b.fly(pm, m, **kw)
        except Exception as e:
            return {'rejected': type(e).__name__, 'msg': str(e)[:100]}
        out = {'ev': project(t, m, pm)}
        why = check_resample(t)
        if why:
            out['resample'] = why
        return out
    except Exception as e:
        import traceback

        return {'machinery': f'{type(e).__name__}: {e}\n{traceback.format_exc()}'}


def traced_jobs(ctx):
    import csv

    from .traj_common import TEST_DATA

    codes = [r['iata_code'] for r in csv.DictReader(open(TEST_DATA / 'airports' / 'airports.csv')) if r['iata_code']]
    pairs = [(a, b) for a in codes for b in codes if a != b]
    ctx.rng.shuffle(pairs)
    special = [('DLW', 'DLE'), ('DLE', 'DLW'), ('PLA', 'PLB'), ('ANA', 'ANB'), ('NRA', 'NRB'), ('BOS', 'JFK'), ('MID', 'LAX'), ('LAX', 'MID'),
               ('HIG', 'LAX'), ('LAX', 'HIG'), ('EQA', 'EQB'), ('MRA', 'MRB'), ('MRB', 'MRA'), ('DEN', 'MID'), ('LOW', 'MRB'), ('MRB', 'LOW')]  # fmt: skip
    fr = [(0.01, 0.01, 0.01), (0.05, 0.05, 0.05), (1 / 30.5, 1 / 7.5, 1 / 51.5), (0.02, 0.013, 0.03), (1 / 2.5, 1 / 2.5, 1 / 1.5)]
    jobs = []
    npairs = 25 if ctx.quick else len(pairs)
    for i, p in enumerate(pairs[:npairs]):
        jobs.append((p, [1.0, 0.3, 0.7][i % 3], fr[i % len(fr)], None, False))
    for i, p in enumerate(special):
        for f in fr if not ctx.quick else fr[:3]:
            jobs.append((p, 1.0, f, None, False))
    for p in [('BOS', 'LAX'), ('SFO', 'ORD'), ('DLW', 'DLE')]:
        jobs.append((p, 1.0, fr[1], 70000.0, False))
        jobs.append((p, 0.5, fr[2], 60000.0, False))
        jobs.append((p, 1.0, fr[0], 52000.0, False))
        jobs.append((p, 1.0, fr[1], None, True))
    for p in [('BOS', 'LAX'), ('BOS', 'JFK')]:
        for sm in ('max', 'max+', 'max++'):
            jobs.append((p, 1.0, fr[1], sm, False))
            jobs.append((p, 1.0, fr[1], sm, True))
    # valid tables with another glide ratio: 0.6 overshoots the destination by tens of km, 1.5 stops well short
    for p in [('BOS', 'LAX'), ('SFO', 'ORD'), ('DLW', 'DLE'), ('PLA', 'PLB'), ('MRA', 'MRB')]:
        for sc in (0.6, 1.5):
            jobs.append((p, 1.0, fr[1], None, False, sc))
    # aircraft ceilings around the elevation of the high airport MID (14 000 ft): below it (the mission cannot be flown),
    # less than 3 000 ft above it (climb starts at the airport's own elevation), just above that, and low for an ordinary airport
    for p in [('MID', 'LAX'), ('LAX', 'MID'), ('DEN', 'MID'), ('BOS', 'JFK')]:
        for ceil in (13000, 15000, 18000, 24000):
            jobs.append((p, 1.0, fr[1], None, False, None, ceil))
    return jobs


def run_container_walk(hist):
    """One Container.tla random walk on a real (extensible) Trajectory."""
    warnings.simplefilter('ignore')
    try:
        setup()
        from AEIC.trajectories.trajectory import Trajectory

        t = Trajectory()
        t.set_phase(min(type(t._current_phase)))
        names = [n for n in ('flight_time', 'altitude', 'aircraft_mass', 'fuel_mass', 'ground_distance', 'latitude')]

        def value(v, k):
            return float(v) * 10.0 + k

        for si, ev in enumerate(hist):
            op = ev['op']
            try:
                if op == 'append':
                    pt = t.make_point()
                    for f in pt._data_dictionary:
                        setattr(pt, f, value(ev['arg'], names.index(f)) if f in names else float(ev['arg']))
                    t.append(pt)
                    got = ('yes', len(t))
                elif op == 'point':
                    pt = t.make_point(ev['arg'])
                    vs = {float(getattr(pt, f)) - k for k, f in enumerate(names)}
                    got = ('yes', (vs.pop() / 10.0) if len(vs) == 1 else f'inconsistent {sorted(vs)[:3]}')
                elif op == 'len':
                    got = ('yes', len(t))
                elif op == 'read':
                    cols = [[(float(x) - k) / 10.0 for x in getattr(t, f)] for k, f in enumerate(names)]
                    got = ('yes', cols[0] if all(c == cols[0] for c in cols) else 'fields differ')
                elif op == 'fix':
                    t.fix()
                    got = ('yes', 0)
                elif op == 'copy':
                    t = t.copy()
                    cols = [[(float(x) - k) / 10.0 for x in getattr(t, f)] for k, f in enumerate(names)]
                    got = ('yes', cols[0] if all(c == cols[0] for c in cols) else 'fields differ')
                else:
                    raise MachineryError(f'unknown container op {op}')
            except MachineryError:
                raise
            except Exception as e:
                got = ('no', f'{type(e).__name__}: {e}')
            want_val = ev['val']
            okmatch = got[0] == ev['ok']
            valmatch = True
            if okmatch and ev['ok'] == 'yes' and op in ('append', 'point', 'len', 'read', 'copy'):
                valmatch = got[1] == want_val if not isinstance(want_val, list) else list(got[1]) == [float(x) for x in want_val] if isinstance(got[1], list) else False
            if not (okmatch and valmatch):
                size = sum(1 for e in hist[:si] if e['op'] == 'append' and e['ok'] == 'yes')
                return [(f'container:{op}:{"refusal" if not okmatch else "value"}', f'after {size} appended points (capacity blocks of 50): {op}({ev["arg"]}) gave {got}; specification: ok={ev["ok"]} value {str(want_val)[:80]}')]
        return []
    except Exception as e:
        import traceback

        return [('machinery', f'{type(e).__name__}: {e}\n{traceback.format_exc()}')]


def run(ctx: Ctx):
    ctx.rule = (
        'A: every (n_climb, n_cruise, n_descent) of the TLC case set (2..101, around the 50-point growth boundary) flown exactly with a '
        'phase-constant table (20:1 glide, so the descent overshoots the destination) on an equatorial, a meridional, a transcontinental and an antimeridian route, positions included; B: B738 flights over seeded airport pairs of the test airport file and '
        '16 special routes (antimeridian, polar, near-antipodal, very short, high elevation, an airport below sea level) x load factors x 5 step-fraction triples x given '
        'starting masses x mass iteration x descent-rate-scaled tables (0.6: overshoot, 1.5) x aircraft ceilings around the elevation of a high airport, each validated as a trace; non-trivial = a phase does not end on the 50-point boundary, or special route'
    )
    ctx.assumptions += [
        'pyproj.Geod is the trusted base for "on the great circle at the recorded distance" (1 m tolerance)',
        'phase of a returned point is derived from the reported per-phase counts',
        'tier A uses phase-constant tables (interpolation is C06); scaling of burn counts to physical units uses the table constants',
    ]
    if ctx.replay:
        case = json.loads(Path(ctx.replay).read_text())['case']
        if 'exact' in case:
            for key, desc in run_exact(tuple(case['exact'])):
                ctx.violation(key, desc, case)
        return
    tlc.check(ctx, 'flight/LegacyFlight', 'flight/MC_LegacyFlight.cfg')
    neg = tlc.run('flight/LegacyFlight', 'flight/MC_LegacyFlight.cfg', sub={'Handover = "last_stored"': 'Handover = "buffer_end"'})
    if 'is violated' not in neg['out']:
        raise MachineryError('negative control failed: hand-over from the raw buffer end should violate the invariants')
    ctx.extra['negative_control'] = 'Handover = buffer_end violates Monotone/HandoverContinuity (as expected)'
    gen = tlc.check(ctx, 'flight/LegacyFlightGen', 'flight/Gen_LegacyFlight.cfg', workers=8)
    cases = gen['emitted']
    if ctx.quick:
        ctx.rng.shuffle(cases)
        cases = cases[:60]
    routes = (('EQA', 'EQB'), ('MRA', 'MRB'), ('BOS', 'LAX'), ('DLW', 'DLE'))
    jobs = [(c, r) for i, c in enumerate(cases) for r in ((routes[i % len(routes)],) if ctx.quick else routes)]
    ctx.log(f'tier A: {len(jobs)} exact flights')
    for (case, route), devs in zip(jobs, pmap(run_exact, jobs)):
        nt = any(x % 50 for x in (case['nC'], case['nC'] + case['nZ'], case['nC'] + case['nZ'] + case['nD']))
        ctx.case_done({'n': (case['nC'], case['nZ'], case['nD']), 'route': route}, nontrivial=nt)
        ctx.sample({'nC': case['nC'], 'nZ': case['nZ'], 'nD': case['nD'], 'route': route, 'first_points': case['pts'][:2]}, limit=2)
        for key, desc in devs:
            if key == 'machinery':
                raise MachineryError('flight worker failed: ' + desc)
            ctx.violation(key, desc, {'exact': [case, list(route)]})
    tlc.check(ctx, 'container/Container', 'container/MC_Container.cfg', workers=8)
    walks = tlc.check(ctx, 'container/ContainerGen', 'container/Sim_Container.cfg', workers=1, simulate=f'num={60 if ctx.quick else 600}', depth=210, seed=ctx.seed)['emitted']
    ctx.log(f'container: {len(walks)} random walks of 200 calls on a real extensible Trajectory')
    for hist, devs in zip(walks, pmap(run_container_walk, walks)):
        ctx.case_done(('container', hist[:40]), nontrivial=True)
        for key, desc in devs:
            if key == 'machinery':
                raise MachineryError('container worker failed: ' + desc)
            ctx.violation(key, desc, {'container_walk': hist})
    tj = traced_jobs(ctx)
    ctx.log(f'tier B: {len(tj)} traced flights with the B738 table')
    traces, owner, rejected = [], {}, {}
    for job, res in zip(tj, pmap(run_traced, tj)):
        if 'machinery' in res:
            raise MachineryError('flight worker failed: ' + res['machinery'])
        ctx.case_done({'traced': job}, nontrivial=job[0][0] in ('DLW', 'DLE', 'PLA', 'ANA', 'NRA', 'MID', 'HIG', 'LAX', 'LOW') or job[2] != (0.01, 0.01, 0.01))
        if 'rejected' in res:
            rejected[res['rejected']] = rejected.get(res['rejected'], 0) + 1
            continue
        name = f'flight-{len(traces)}'
        traces.append({'t': name, 'ev': res['ev']})
        owner[name] = job
        if 'resample' in res:
            ctx.violation('resample', f'{job}: {res["resample"]}', {'traced': job})
    ctx.extra['rejected_missions_by_error'] = rejected
    rej = tlc.validate_traces(ctx, 'flight/LegacyFlightTrace', 'flight/LegacyFlightTrace.cfg', traces, timeout=1200)
    by = {t['t']: t for t in traces}
    for r in rej:
        t = by[r['t']]
        k = r['matched']
        e = t['ev'][k] if k < len(t['ev']) else {}
        bad = [f for f in ('bal', 'mnd', 'tnd', 'dnd', 'ontrack', 'finite', 'ceil', 'start_ok', 'startalt_ok', 'endalt_ok', 'counts_ok') if e.get(f) is False]
        clause = ','.join(bad) if bad else f'altitude-trend-{e.get("da")}-in-{e.get("ph")}' + ('' if e.get('handover') in (None, False) else '-handover')
        if not bad and e.get('op') == 'pt' and e.get('ph') in ('cruise', 'descent') and not e.get('handover'):
            clause += '-or-missing-handover'
        ctx.violation(
            f'trace:{clause}',
            f'flight {owner[r["t"]]} is not a behaviour of LegacyFlightTrace.tla: event {k} of {r["total"]} ({e}) violates [{clause}]',
            {'traced': owner[r['t']], 'event_index': k, 'event': e, 'header': t['ev'][0]},
        )
    ctx.traces_validated += len(traces)
