"""Shared set-up for checks that fly trajectories or compute emissions:
configuration with the repository's test data plus harness-written synthetic
airports, sample performance model, mission factory."""

from __future__ import annotations

import atexit
import os
import shutil
import tempfile
from pathlib import Path

from .core import REPO

TEST_DATA = REPO / 'tests' / 'data'

# iata, lat, lon, elevation_ft
SYNTHETIC_AIRPORTS = [
    ('HIG', 35.0, -106.0, 38000),   # above any cruise level
    ('MID', 39.0, -104.0, 14000),   # high, but flyable
    ('EQA', 0.0, 10.0, 0),          # equatorial pair
    ('EQB', 0.0, 40.0, 0),
    ('MRA', 10.0, 20.0, 0),         # meridional pair
    ('MRB', 40.0, 20.0, 0),
    ('DLW', 10.0, 170.0, 10),       # antimeridian pair
    ('DLE', 20.0, -165.0, 10),
    ('PLA', 85.0, 10.0, 0),         # across the pole
    ('PLB', 84.0, -160.0, 0),
    ('ANA', 10.0, 0.0, 0),          # near-antipodal pair
    ('ANB', -9.5, 179.0, 0),
    ('NRA', 42.0, -71.0, 20),       # very short hop
    ('NRB', 42.3, -71.2, 20),
    ('LOW', 31.0, 35.5, -1240),     # below sea level (the Dead Sea shore)
]
_tmp = None


def override_dir() -> Path:
    global _tmp
    if _tmp is None:
        _tmp = Path(tempfile.mkdtemp(prefix='aeicverif-data-'))
        atexit.register(shutil.rmtree, _tmp, True)
        (_tmp / 'airports').mkdir()
        src = (TEST_DATA / 'airports' / 'airports.csv').read_text().rstrip('\n').splitlines()
        rows = list(src)
        for i, (code, lat, lon, elev) in enumerate(SYNTHETIC_AIRPORTS):
            rows.append(
                f'"{900000 + i}","X{code}","large_airport","Synthetic {code}","{lat}","{lon}","{elev}","NA","US","US-XX","Synthetic","yes","X{code}","{code}","X{code}","","","",""'
            )
        (_tmp / 'airports' / 'airports.csv').write_text('\n'.join(rows) + '\n')
    return _tmp


def load_config(**kw):
    """(Re)load the global configuration with test data + synthetic airports."""
    os.environ['AEIC_PATH'] = str(TEST_DATA)
    from AEIC.config import Config
    from AEIC.utils import airports as ap

    Config.reset()
    cfg = Config.load(data_path_overrides=[override_dir(), TEST_DATA], **kw)
    ap._airports = None
    return cfg


def sample_model():
    from AEIC.config import config
    from AEIC.performance.models import PerformanceModel

    return PerformanceModel.load(config.file_location('performance/sample_performance_model.toml'))


def mission(origin, destination, departure='2024-09-01T12:00:00', load_factor=1.0, aircraft_type='738', flight_id=None):
    from AEIC.missions import Mission
    from AEIC.missions.mission import iso_to_timestamp

    return Mission(
        origin=origin,
        destination=destination,
        departure=iso_to_timestamp(departure),
        arrival=iso_to_timestamp('2024-09-01T18:00:00'),
        load_factor=load_factor,
        aircraft_type=aircraft_type,
        flight_id=flight_id,
    )
