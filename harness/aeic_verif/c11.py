"""C11 — every documented emissions option combination works or is refused by name.

spec:    specs/emissions/EmissionsConfig.tla (the 41 472 option combinations;
         Enabled / Off species; admissible outcomes: balanced inventory, or a
         refusal naming the unsupported method; never an internal error).
binding: each TLC-enumerated configuration is loaded through Config.load and
         compute_emissions is run on a synthetic 6-point trajectory (thorough:
         also a simulated B738 trajectory); the outcome is classified
         (balanced inventory / refusal naming a method / internal error) and
         compared with the specification, and the species the configuration
         switches off must be absent or zero in the trajectory and LTO parts.
"""

from __future__ import annotations

import contextlib
import io
import itertools
import json
import warnings
from pathlib import Path

import numpy as np

from . import tlc
from .core import Ctx, MachineryError
from .emis_common import balance, classify_exception, fuel_obj, load_emis_config, model, nonzero, synthetic_traj
from .store_replay import fresh_map, pmap

FIELDS = ['mode', 'co2', 'h2o', 'sox', 'nox', 'hc', 'co', 'pmvol', 'pmnvol', 'apu', 'gse', 'lifecycle']
_real = {}


def real_traj():
    if 'traj' not in _real:
        import AEIC.trajectories.builders as tb

        from .traj_common import mission

        _real['traj'] = tb.LegacyBuilder(options=tb.Options(iterate_mass=False)).fly(model(), mission('BOS', 'ORD'))
    return _real['traj']


CONSTANT_SPECIES = ('CO2', 'H2O', 'SOx', 'SO2', 'SO4')


def run_session(sess):
    """EmissionsSession.tla behaviour: the configurations of the session one after the
    other in this (freshly forked) process."""
    out = []
    for k, case in enumerate(sess):
        for key, desc in run_cfg((case, 'synthetic')):
            if key == 'machinery':
                return [(key, desc)]
            before = [{f: c['cfg'][f] for f in ('mode', 'co2', 'h2o', 'sox')} for c in sess[:k]]
            out.append((f'session:{key}', f'computation {k + 1} of a session (earlier in this process: {before}): {desc}'))
        if out:
            break
    return out


def run_cfg(job):
    warnings.simplefilter('ignore')
    case, which = job
    try:
        from AEIC.emissions import compute_emissions
        from AEIC.performance.types import ThrustMode
        from AEIC.types import Species

        cfgd = case['cfg']
        load_emis_config(cfgd)
        fuel = fuel_obj()
        # EmissionsConfig.tla ModelData: what the performance model says about its APU is optional data - an APU of the
        # database, no APU name at all, a name the database does not know; every option combination meets one of the three
        apuvar = ('running', 'absent', 'idle')[sum(map(ord, json.dumps(cfgd, sort_keys=True))) % 3]
        pm = model(None, apuvar)
        # (InventoryGen.tla AltProfiles: the synthetic flight on one of the three altitude profiles, by configuration)
        prof = ('high', 'low', 'ref_level')[sum(map(ord, json.dumps(cfgd, sort_keys=True))) // 3 % 3]
        # (InventoryGen.tla phase splits: the synthetic flight has climb and descent points, or no descent points, or no
        # climb points - a phase may be empty)
        nc_, nd_ = ((2, 2), (2, 0), (0, 2))[sum(map(ord, json.dumps(cfgd, sort_keys=True))) // 7 % 3]
        traj = synthetic_traj([0, 2000, 0, 5000, 1000, 2000], nc_, nd_, profile=prof) if which == 'synthetic' else real_traj()
        allowed = [(o['kind'], o['method']) for o in case['outcomes']]
        short = {k: cfgd[k] for k in FIELDS}
        try:
            with contextlib.redirect_stdout(io.StringIO()):
                em = compute_emissions(pm, fuel, traj)
        except Exception as e:
            kind, what = classify_exception(e)
            if kind == 'internal':
                return [(f'internal-error:{what}', f'compute_emissions failed with internal error {what}: {str(e)[:120]} under {short}')]
            if ('refused', what) not in allowed:
                return [(f'refused:{what}', f'refused naming "{what}" ({type(e).__name__}: {str(e)[:100]}) but the specification requires {allowed} under {short}')]
            return []
        devs = []
        if ('ok', '-') not in allowed:
            devs.append((f'not-refused:{allowed[0][1]}', f'returned an inventory although method {allowed[0][1]} is not implemented; specification: refusal naming it, under {short}'))
        for k, d in balance(em, fuel, cfgd):
            devs.append((f'unbalanced:{k}', f'{d} under {short}'))
        # a species the configuration enables is carried (decided for the constant-index species)
        for name in case.get('on', []):
            if name in CONSTANT_SPECIES and ('ok', '-') in allowed:
                s = Species[name]
                if s not in em.trajectory_indices or not nonzero(em.trajectory_indices[s]):
                    devs.append((f'on-species-missing:{name}', f'{name} is enabled but the trajectory part has no (non-zero) index for it, under {short}'))
        for name in case['off']:
            s = Species[name]
            if s in em.trajectory_emissions and nonzero(em.trajectory_emissions[s]):
                devs.append((f'off-species-in-trajectory:{name}', f'{name} is switched off but the trajectory part carries it, under {short}'))
            if s in em.trajectory_indices and nonzero(em.trajectory_indices[s]):
                devs.append((f'off-species-in-trajectory:{name}', f'{name} is switched off but has non-zero trajectory indices, under {short}'))
            if s in em.lto_emissions and any(float(em.lto_emissions[s][m]) != 0 for m in ThrustMode):
                devs.append((f'off-species-in-lto:{name}', f'{name} is switched off but the LTO part carries it, under {short}'))
        return devs
    except Exception as e:
        import traceback

        return [('machinery', f'{type(e).__name__}: {e}\n{traceback.format_exc()}')]


def covering(cases, t=3, rng=None):
    """Greedy t-wise covering subset of the TLC-enumerated configurations."""
    idx = list(range(len(cases)))
    rng.shuffle(idx)
    need = set()
    combos = list(itertools.combinations(FIELDS, t))
    vals = {f: sorted({json.dumps(c['cfg'][f]) for c in cases}) for f in FIELDS}
    for fs in combos:
        for vs in itertools.product(*(vals[f] for f in fs)):
            need.add((fs, vs))
    chosen = []
    pool = idx[:6000]
    while need and pool:
        best, bestgain = None, 0
        for i in pool[:400]:
            c = cases[i]['cfg']
            gain = sum(1 for fs in combos if (fs, tuple(json.dumps(c[f]) for f in fs)) in need)
            if gain > bestgain:
                best, bestgain = i, gain
        if best is None:
            pool = pool[400:]
            continue
        c = cases[best]['cfg']
        for fs in combos:
            need.discard((fs, tuple(json.dumps(c[f]) for f in fs)))
        chosen.append(best)
        pool.remove(best)
        if len(chosen) >= 400:
            break
    return chosen


def run(ctx: Ctx):
    ctx.rule = (
        'configurations = the full Cartesian product of the documented option values (41 472, TLC-enumerated); quick: a greedy pairwise covering '
        'subset + all single-option deviations from the default + seeded random ones; thorough: all, on a synthetic and a simulated trajectory; '
        'sessions: every ordered pair over the 16 switch settings of CO2/H2O/SOx/mode and random sessions of 4 configurations, each session in a freshly forked process; '
        'non-trivial = at least two options differ from the default'
    )
    ctx.assumptions += [
        'a refusal "names the method" when the message of a NotImplementedError/ValueError/RuntimeError contains the method value',
        'selecting p3t3 for NOx/HC/CO may either be served or be refused by name (both satisfy the property as stated)',
        'performance model: sample B738 with APU; fuel: conventional Jet-A',
    ]
    if ctx.replay:
        c = json.loads(Path(ctx.replay).read_text())['case']
        if 'session' in c:
            for key, desc in fresh_map(run_session, [c['session']])[0]:
                ctx.violation(key, desc, c)
            return
        for key, desc in run_cfg((c['case'], c['traj'])):
            ctx.violation(key, desc, c)
        return
    # sessions: several configurations in one process (each session in a freshly forked process)
    tlc.check(ctx, 'emissions/EmissionsSession', 'emissions/MC_EmissionsSession.cfg', workers=4)
    neg = tlc.run('emissions/EmissionsSession', 'emissions/MC_EmissionsSession.cfg', sub={'Design = "per_call"': 'Design = "cached_constants"'}, workers=4)
    if 'Invariant HistoryIndependent is violated' not in neg['out']:
        raise MachineryError('negative control failed: constants cached per fuel should violate HistoryIndependent')
    ctx.extra['negative_control'] = 'EmissionsSession with Design=cached_constants violates HistoryIndependent as expected'
    sessions = tlc.check(ctx, 'emissions/EmissionsSession', 'emissions/Gen_EmissionsSession.cfg', workers=4)['emitted']
    sessions += tlc.check(ctx, 'emissions/EmissionsSession', 'emissions/Sim_EmissionsSession.cfg', workers=1, simulate=f'num={150 if ctx.quick else 3000}', depth=8, seed=ctx.seed)['emitted']
    # the harness-side objects (performance model with its engine data, fuel) are built once, before forking
    load_emis_config({})
    model(), fuel_obj()
    ctx.log(f'running {len(sessions)} sessions of 2-4 configurations, each in a fresh process')
    for sess, devs in zip(sessions, fresh_map(run_session, sessions)):
        ctx.case_done(('session', [c['cfg'] for c in sess]), nontrivial=True)
        if len(sess) > 2:
            ctx.sample({'session': [c['cfg'] for c in sess]}, limit=1)
        seen = set()
        for key, desc in devs:
            if key == 'machinery':
                raise MachineryError('emissions session worker failed: ' + desc)
            if key not in seen:
                seen.add(key)
                ctx.violation(key, desc, {'session': sess})
    tlc.check(ctx, 'emissions/EmissionsConfig', 'emissions/MC_EmissionsConfig.cfg', workers=8)
    cases = tlc.check(ctx, 'emissions/EmissionsConfigGen', 'emissions/Gen_EmissionsConfig.cfg', workers=4)['emitted']
    default = dict(mode='trajectory', co2=True, h2o=True, sox=True, nox='bffm2', hc='bffm2', co='bffm2', pmvol='fuel_flow', pmnvol='meem', apu=True, gse=True, lifecycle=True)
    ndiff = lambda c: sum(1 for f in FIELDS if c['cfg'][f] != default[f])  # noqa: E731
    if ctx.quick:
        sel = set(covering(cases, 2, ctx.rng))
        sel |= {i for i, c in enumerate(cases) if ndiff(c) <= 1}
        rest = [i for i in range(len(cases)) if i not in sel]
        ctx.rng.shuffle(rest)
        sel |= set(rest[:6000])
        jobs = [(cases[i], 'synthetic') for i in sorted(sel)]
    else:
        jobs = [(c, 'synthetic') for c in cases] + [(c, 'real') for c in cases]
        ctx.exhaustive = True
    ctx.log(f'running compute_emissions under {len(jobs)} configurations')
    for (case, which), devs in zip(jobs, pmap(run_cfg, jobs)):
        ctx.case_done({'cfg': case['cfg'], 'traj': which}, nontrivial=ndiff(case) >= 2)
        ctx.sample({'cfg': case['cfg'], 'trajectory': which, 'admissible': case['outcomes']}, limit=3)
        seen = set()
        for key, desc in devs:
            if key == 'machinery':
                raise MachineryError('emissions worker failed: ' + desc)
            if key not in seen:
                seen.add(key)
                ctx.violation(key, desc, {'case': case, 'traj': which})
