"""Negative controls: the binding must reject a corrupted trace and a perturbed replay."""

from __future__ import annotations

from . import tlc
from .core import Ctx


def main() -> int:
    ctx = Ctx('SELFTEST', 'quick', 0)
    ok = True
    good = {'t': 'good', 'ev': [{'op': 'probe', 'c': False, 'v': {'uw': 'unset', 'sox': 'unset', 'nox': 'unset', 'wd': 'unset'}},
                               {'op': 'load', 'ok': 'yes', 'f': {'uw': 'absent', 'sox': 'absent', 'nox': 'absent', 'wd': 'absent'}, 'k': {'uw': 'false', 'sox': 'absent', 'nox': 'absent', 'wd': 'absent'}, 'c': True, 'v': {'uw': 'false', 'sox': 'true', 'nox': 'bffm2', 'wd': 'wdefault'}},
                               {'op': 'get', 'ok': 'yes', 'c': True, 'v': {'uw': 'false', 'sox': 'true', 'nox': 'bffm2', 'wd': 'wdefault'}}]}  # fmt: skip
    import copy

    bad_field = copy.deepcopy(good)
    bad_field['t'] = 'corrupted-field'
    bad_field['ev'][1]['v']['uw'] = 'true'          # observed value contradicts the overlay
    dropped = copy.deepcopy(good)
    dropped['t'] = 'dropped-event'
    del dropped['ev'][1]                            # the load event is missing: get cannot succeed
    rej = tlc.validate_traces(ctx, 'config/ConfigTrace', 'config/ConfigTrace.cfg', [good, bad_field, dropped])
    names = {r['t'] for r in rej}
    print('config trace: rejected', sorted(names))
    ok &= names == {'corrupted-field', 'dropped-event'}
    ev = lambda op, t, ok='-': {'op': op, 't': t, 'kind': 'c', 'ok': ok}  # noqa: E731
    g = {'t': 'good', 'ev': [ev('call', 1), ev('call', 2), ev('ret', 1, 'yes'), ev('ret', 2, 'no')]}
    b = {'t': 'both-succeed', 'ev': [ev('call', 1), ev('call', 2), ev('ret', 1, 'yes'), ev('ret', 2, 'yes')]}
    rej = tlc.validate_traces(ctx, 'guard/GuardTrace', 'guard/GuardTrace.cfg', [g, b])
    print('guard trace: rejected', sorted(r['t'] for r in rej))
    ok &= {r['t'] for r in rej} == {'both-succeed'}
    print('SELFTEST', 'ok' if ok else 'FAILED')
    return 0 if ok else 1
