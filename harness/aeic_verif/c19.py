"""C19 — BADA-3 fuel-burn integration keeps mass, thrust and fuel flow consistent.

spec:    specs/bada/Bada.tla (BADA-3 thrust / fuel-flow equations over exact
         rationals in a contrived unit system; ThrustWithinLimits,
         DescentWhenNegative, CappedWhenAbove, CruiseFactorOnlyInCruise),
         specs/bada/BadaMass.tla (cumulative-trapezoid mass update forward and
         backward; StartsAtPrescribed, NonIncreasing, StepIsTrapezoid).
binding: every TLC-enumerated point case (3 engine types x thrust regime x
         cruise flag x altitude vs h_p_des x temperature deration) is evaluated
         by the real Bada3FuelBurnModel built from the library's own
         Bada3AircraftParameters and compared (rel 1e-9) with the rational
         results; every enumerated inverse-range profile is integrated by the
         real update_mass_vector[_backward] and, where realisable with a
         piston engine, by the real iterate_flight_simulation_* methods;
         fuel-dependent initial-mass iteration is checked against the MTOW cap.
"""

from __future__ import annotations

import json
import warnings
from fractions import Fraction
from pathlib import Path

import numpy as np

from . import tlc
from .core import Ctx, MachineryError
from .store_replay import pmap

C_TC2 = 40000.0
DT = {'none': 0.0, 'partial': 10.0, 'clipped': 50.0, 'cold': -10.0, 'advanced': 0.0, 'inverted': -10.0}


def fr(x):
    return Fraction(x[0], x[1])


def make_params(eng, **extra):
    from AEIC.BADA.aircraft_parameters import Bada3AircraftParameters
    from AEIC.units import MPS_TO_KNOTS as K

    p = Bada3AircraftParameters()
    common = dict(
        ac_type='VERIF', engine_type=eng, c_d0cr=0.5, c_d2cr=1.0 / 3600.0, c_tc2=C_TC2, c_tc4=0.0, c_tc5=0.01, c_tcr=0.95,
        c_tdes_high=0.1, c_tdes_low=0.2, h_p_des=15000.0, c_fcr=0.9, S_ref=1.0,
    )  # fmt: skip
    if eng == 'Jet':
        common.update(c_f1=60.0, c_f2=K * 10.0, c_tc1=400.0, c_tc3=0.0)
    elif eng == 'Turboprop':
        common.update(c_f1=6000.0 / K, c_f2=K * 40.0, c_tc1=K * 4000.0, c_tc3=50.0)
    else:
        common.update(c_f1=0.5, c_f2=1.0, c_tc1=400.0, c_tc3=K * 500.0)
    common.update(extra)
    p.assign_parameters_fromdict(common)
    return p


def eval_point(case):
    """Real model on one Bada.tla point case -> dict of floats."""
    from AEIC.BADA.model import Bada3FuelBurnModel
    from AEIC.constants import g0
    from AEIC.units import METERS_TO_FEET
    from AEIC.utils.standard_atmosphere import calculate_air_density, pressure_at_altitude_isa_bada4, temperature_at_altitude_isa_bada4

    c = case['c']
    alt = np.array([float(fr(c['hf'])) * C_TC2 / METERS_TO_FEET])
    # the lattice altitude is meant exactly in feet (hf = 3/8 is the transition altitude h_p_des itself): take the
    # neighbouring float whose conversion back to feet is exact, if there is one
    want_ft = float(fr(c['hf'])) * C_TC2
    for cand in (alt[0], np.nextafter(alt[0], np.inf), np.nextafter(alt[0], -np.inf)):
        if cand * METERS_TO_FEET == want_ft:
            alt = np.array([cand])
            break
    temp = temperature_at_altitude_isa_bada4(alt) + DT[c['der']]
    rho = calculate_air_density(pressure_at_altitude_isa_bada4(alt), temp)
    params = make_params(c['eng'], S_ref=float(2.0 / rho[0]), **({'c_tcr': float(fr(c['ctcr']))} if 'ctcr' in c else {}), **({'c_tc4': -5.0} if c['der'] == 'advanced' else {}), **({'c_tc5': -0.01} if c['der'] == 'inverted' else {}))
    model = Bada3FuelBurnModel(params)
    W, v = float(fr(c['W'])), np.array([float(fr(c['v']))])
    mass = np.array([W / g0])
    rocd = np.array([float(fr(c['rocd']))])
    acc = np.array([float(fr(c['a'])) * g0])
    # the cruise flag is a truth value; it may arrive as bool, 0/1 integer or 0.0/1.0 float array (the signature says
    # FloatOrNDArray): the form is chosen deterministically per case
    form = (len(c['eng']) + int(bool(c['cruise'])) + int(round(float(fr(c['v'])))) + int(round(float(fr(c['W'])))) // 100) % 3
    cruise = np.array([bool(c['cruise'])]).astype([bool, np.int64, float][form])
    # ... and every argument may be a plain number instead of a one-element array (the signatures say FloatOrNDArray):
    # every second case is evaluated with scalars
    if (int(round(float(fr(c['rocd'])))) + int(round(float(fr(c['W'])))) // 600 + len(c['der'])) % 2 == 1:
        alt, temp, mass, v, rocd, acc, rho = (float(np.asarray(x).ravel()[0]) for x in (alt, temp, mass, v, rocd, acc, rho))
        cruise = [bool, int, float][form](bool(c['cruise']))
    em = model.engine_model
    cl = model.calculate_cl(mass, rho, v)
    drag = model.calculate_drag(model.calculate_cd(cl), rho, v)
    out = {
        'te': model.calculate_thrust_by_total_energy(drag, mass, v, rocd, acc),
        'maxclimb': em.calculate_max_climb_thrust(alt, v, temp),
        'maxcruise': em.calculate_max_cruise_thrust(alt, v, temp),
        'descent': (em.calculate_descent_thrust_high if float(fr(c['hf'])) * C_TC2 > 15000.0 else em.calculate_descent_thrust_low)(alt, v, temp),
        'thrust': model.calculate_thrust(mass, temp, alt, v, rocd, acc, cruise),
    }
    sgr = model.calculate_specific_ground_range(mass, temp, alt, v, rocd, acc, cruise, np.copy(v) if isinstance(v, np.ndarray) else v)
    out['ff'] = v / sgr
    return {k: float(np.asarray(x).reshape(-1)[0]) for k, x in out.items()}


def run_point(case):
    warnings.simplefilter('ignore')
    try:
        try:
            got = eval_point(case)
        except Exception as e:
            return [(f'equations:raised-{type(e).__name__}', f'{case["c"]["eng"]} model built from Bada3AircraftParameters raised {type(e).__name__}: {e}')]
        devs = []
        for k in ('te', 'maxclimb', 'maxcruise', 'descent', 'thrust', 'ff'):
            want = float(fr(case['o'][k]))
            if not abs(got[k] - want) <= 1e-9 * max(abs(want), 1.0):
                devs.append((f'equations:{k}:{case["c"]["eng"]}:{case["o"]["regime"]}', f'{k} = {got[k]!r}; specification: {want!r} (= {fr(case["o"][k])}) for case {case["c"]}'))
        return devs
    except Exception as e:
        import traceback

        return [('machinery', f'{type(e).__name__}: {e}\n{traceback.format_exc()}')]


SESSION_ALT_FT = {'low': 9000.0, 'mid': 15000.0, 'high': 33000.0}
SESSION_MASS = {'light': 52000.0, 'heavy': 71000.0}


def _session_args(c):
    """Arguments of one BadaSession.tla call: one point or a three-point profile at the call's altitude class,
    temperature = ISA at those altitudes + the call's offset."""
    from AEIC.units import METERS_TO_FEET
    from AEIC.utils.standard_atmosphere import temperature_at_altitude_isa_bada4

    base = SESSION_ALT_FT[c['alt']] / METERS_TO_FEET
    alt = np.array([base] if c['form'] == 'point' else [base, base + 300.0, base + 600.0])
    n = len(alt)
    temp = temperature_at_altitude_isa_bada4(alt) + DT[c['der']]
    mass = np.full(n, SESSION_MASS[c['load']])
    v = np.full(n, 190.0 if c['alt'] == 'low' else 225.0)
    rocd = np.full(n, 0.0 if c['load'] == 'heavy' else 3.0)
    acc = np.zeros(n)
    cruise = np.full(n, c['load'] == 'heavy')
    return mass, temp, alt, v, rocd, acc, cruise


def _session_eval(model, c):
    mass, temp, alt, v, rocd, acc, cruise = _session_args(c)
    thrust = np.asarray(model.calculate_thrust(mass, temp, alt, v, rocd, acc, cruise), float)
    sgr = np.asarray(model.calculate_specific_ground_range(mass, temp, alt, v, rocd, acc, cruise, v.copy()), float)
    return {'thrust': thrust.tolist(), 'sgr': sgr.tolist()}


def run_session(job):
    """One BadaSession.tla behaviour on ONE model instance; every call is compared with the same call on a
    newly built instance (whose agreement with the equations is what the point cases decide)."""
    warnings.simplefilter('ignore')
    si, calls = job
    try:
        from AEIC.BADA.model import Bada3FuelBurnModel

        eng = ('Jet', 'Turboprop', 'Piston')[si % 3]
        # realistic magnitudes so that thrust stays between the limits at least for some calls (drag matters)
        extra = dict(S_ref=120.0, c_d0cr=0.025, c_d2cr=0.04, c_tc1={'Jet': 140000.0, 'Turboprop': 6.0e7, 'Piston': 140000.0}[eng])
        shared = Bada3FuelBurnModel(make_params(eng, **extra))
        for k, c in enumerate(calls):
            try:
                got = _session_eval(shared, c)
            except Exception as e:
                return [(f'session:raised-{type(e).__name__}', f'call {k + 1} of a session on one {eng} model ({calls[: k + 1]}) raised {type(e).__name__}: {e}')]
            want = _session_eval(Bada3FuelBurnModel(make_params(eng, **extra)), c)
            for q in ('thrust', 'sgr'):
                a, b = np.array(got[q]), np.array(want[q])
                if a.shape != b.shape or not np.all((a == b) | (np.abs(a - b) <= 1e-12 * np.maximum(np.abs(b), 1.0))):
                    return [(f'session:{q}-depends-on-earlier-calls', f'call {k + 1} of a session on one {eng} model instance: {q} = {got[q]}; the same call on a new instance: {want[q]}; calls so far {calls[: k + 1]}')]
        return []
    except Exception as e:
        import traceback

        return [('machinery', f'{type(e).__name__}: {e}\n{traceback.format_exc()}')]


def sgr_of(a):
    return np.inf if a == 0 else (0.5 if a == 9 else 1000.0 / a)


def run_mass(case):
    """BadaMass.tla case on the real update / iterate methods."""
    warnings.simplefilter('ignore')
    try:
        from AEIC.BADA.model import Bada3FuelBurnModel

        prof, n = case['prof'], len(case['prof'])
        want = np.array(case['mass'], float)
        devs = []
        try:
            model = Bada3FuelBurnModel(make_params('Piston', c_f1=1.0, c_fcr=0.5))
            sgr = np.array([sgr_of(a) for a in prof])
            m = np.full(n, float(case['anchor']))
            fn = model.update_mass_vector if case['dir'] == 'forward' else model.update_mass_vector_backward
            got = fn(m, sgr, 2000.0)
            if not np.allclose(got, want, rtol=1e-9, atol=1e-9):
                devs.append((f'update-mass:{case["dir"]}', f'inverse ranges {prof}/1000 kg/m, dx 2000 m, anchor {case["anchor"]}: mass = {got.tolist()}; specification: {want.tolist()}'))
            if all(a in (1, 2, 4) for a in prof):
                # realise the profile with a piston engine: fuel flow 1 kg/s (0.5 in cruise)
                gs, cr = [], []
                for i, a in enumerate(prof):
                    if a == 1:
                        gs.append(500.0), cr.append(True)
                    elif a == 4:
                        gs.append(250.0), cr.append(False)
                    elif i % 2:
                        gs.append(500.0), cr.append(False)
                    else:
                        gs.append(250.0), cr.append(True)
                gs, cr = np.array(gs), np.array(cr).astype([bool, np.int64, float][(sum(prof) + n) % 3])
                z = np.zeros(n)
                # true airspeed = ground speed - wind component (a piston engine's fuel flow does not depend on it)
                tas = gs - np.array(case['wind'], float)
                args = (np.full(n, 288.15), z.copy(), tas, z.copy(), z.copy(), cr, gs.copy(), 2000.0)
                for n_iter in (1, 2, 3):
                    if case['dir'] == 'forward':
                        got = model.iterate_flight_simulation_constant_initial_mass(*args, float(case['anchor']), n_iter=n_iter)
                    else:
                        got = model.iterate_flight_simulation_constant_final_mass(*args, float(case['anchor']), n_iter=n_iter)
                    if not np.allclose(got, want, rtol=1e-9, atol=1e-9):
                        devs.append((f'iterate:{case["dir"]}', f'piston profile gs={gs.tolist()} tas={tas.tolist()} ({case["windname"]} wind) cruise={cr.tolist()} ({cr.dtype}) n_iter={n_iter}: mass = {np.asarray(got).tolist()}; specification: {want.tolist()}'))
                        break
                # the mass vector is a float64 vector of the prescribed anchor whatever the TYPES of the profile
                # arrays: integer / float32 altitudes and temperatures, anchor off the integers (the recurrence of
                # BadaMass.tla is invariant under translation of the anchor: a piston's fuel flow ignores the mass)
                alt_t = [np.int64, np.float32, np.int32][(sum(prof) + 2 * n) % 3]
                targs = (np.full(n, 288, alt_t if alt_t is not np.float32 else float), z.astype(alt_t)) + args[2:]
                meth = 'iterate_flight_simulation_constant_' + ('initial' if case['dir'] == 'forward' else 'final') + '_mass'
                got = np.asarray(getattr(model, meth)(*targs, float(case['anchor']) + 0.7501, n_iter=2))
                if got.dtype != np.float64 or not np.allclose(got, want + 0.7501, rtol=1e-12, atol=1e-9):
                    devs.append((f'iterate:{case["dir"]}:profile-type', f'piston profile gs={gs.tolist()} with {alt_t.__name__} altitudes, anchor {case["anchor"]}+0.7501: mass = {got.tolist()} ({got.dtype}); specification: {(want + 0.7501).tolist()} (float64)'))
                if case['dir'] == 'forward':
                    burn =float(want[0] - want[-1])
                    for mtow, oew in ((1200.0, 900.0), (950.0, 900.0), (5000.0, 200.0)):
                        for meth, rf in (('iterate_flight_simulation_fuel_burn_dependent_initial_mass_rf_fraction', 0.1), ('iterate_flight_simulation_fuel_burn_dependent_initial_mass_rf_value', 5.0)):
                          # BadaMass.tla IterCounts: every iteration count, also a single one and the default
                          for n_it in (1, 2, 4, None):
                            got = getattr(model, meth)(*args, float(case['anchor']), mtow, oew, 100.0, 0.5, rf, **({} if n_it is None else {'n_iter': n_it}))
                            got = np.asarray(got, float)
                            if got[0] > mtow + 1e-9:
                                devs.append(('fuel-dependent:above-mtow', f'{meth} (n_iter={n_it}, estimate {case["anchor"]}): initial mass {got[0]} exceeds MTOW {mtow}'))
                            if np.any(np.diff(got[1:]) > 1e-9):
                                devs.append(('fuel-dependent:increasing', f'{meth}: mass increases after the first step: {got.tolist()}'))
                            if got[1] > got[0] + 1e-9 or abs((got[0] - got[1]) - (want[0] - want[1])) > 1e-9 * max(1.0, burn):
                                devs.append(('fuel-dependent:first-step-not-trapezoid', f'{meth}(estimate={case["anchor"]}, mtow={mtow}, oew={oew}): returned {got.tolist()}: first step burns {got[0] - got[1]}, trapezoid says {want[0] - want[1]}'))
        except Exception as e:
            devs.append((f'mass:raised-{type(e).__name__}', f'{type(e).__name__}: {e}'))
        return devs
    except Exception as e:
        import traceback

        return [('machinery', f'{type(e).__name__}: {e}\n{traceback.format_exc()}')]


def run(ctx: Ctx):
    ctx.rule = (
        'point cases = 3 engine types x 2 weights x 2 speeds x 5 climb rates x 3 accelerations x 4 altitudes (below / exactly at / above h_p_des) x 5 temperature / C_Tc4 '
        'offsets (no/partial/clipped/negative deration) x cruise flag x 2 cruise thrust fractions (11520, TLC-enumerated with rational results); mass cases = every inverse-range '
        'profile of length 2..4 over {sub-1 m/kg, 0, 1, 2, 4}/1000 kg/m x forward/backward x 2 anchors (6200); sessions = every pair of evaluations (3 altitude classes x 4 temperature offsets x 2 loads x point/profile, 2304) plus random sessions of 6 on one model instance, each call compared with the same call on a new instance; non-trivial = thrust regime other than inside / profile with unequal nodes'
    )
    ctx.assumptions += [
        'contrived units: rho*S_ref = 2 using the library\'s own ISA density, weights as multiples of 1/g0, c_f2 and turboprop/piston constants as multiples of MPS_TO_KNOTS',
        'iterate_* is exercised with piston engines (fuel flow independent of mass) so the expected profile is exact; mass-dependent convergence behaviour is not predicted',
    ]
    if ctx.replay:
        case = json.loads(Path(ctx.replay).read_text())['case']
        res = run_session((case['si'], case['session'])) if 'session' in case else (run_point(case) if 'c' in case else run_mass(case))
        for key, desc in res:
            ctx.violation(key, desc, case)
        return
    tlc.check(ctx, 'bada/Bada', 'bada/MC_Bada.cfg')
    tlc.check(ctx, 'bada/BadaMass', 'bada/MC_BadaMass.cfg')
    pts = tlc.check(ctx, 'bada/BadaGen', 'bada/Gen_Bada.cfg', workers=4)['emitted']
    ms = tlc.check(ctx, 'bada/BadaMassGen', 'bada/Gen_BadaMass.cfg', workers=4, sub=None if ctx.quick else {'MaxLen = 4': 'MaxLen = 5'})['emitted']
    # sessions: several evaluations on one model instance (BadaSession.tla), negative control first
    tlc.check(ctx, 'bada/BadaSession', 'bada/MC_BadaSession.cfg', workers=4)
    neg = tlc.run('bada/BadaSession', 'bada/MC_BadaSession.cfg', sub={'Design = "per_call"': 'Design = "kept_density"'}, workers=4)
    if 'Invariant HistoryIndependent is violated' not in neg['out']:
        raise MachineryError('negative control failed: a density kept per altitude profile should violate HistoryIndependent')
    ctx.extra['negative_control'] = 'BadaSession with Design=kept_density violates HistoryIndependent as expected'
    sess = tlc.check(ctx, 'bada/BadaSession', 'bada/Gen_BadaSession.cfg', workers=4)['emitted']
    sess += tlc.check(ctx, 'bada/BadaSession', 'bada/Sim_BadaSession.cfg', workers=1, simulate=f'num={200 if ctx.quick else 3000}', depth=8, seed=ctx.seed)['emitted']
    sjobs = list(enumerate(sess))
    for (si, calls), devs in zip(sjobs, pmap(run_session, sjobs)):
        ctx.case_done(('session', si), nontrivial=len({(c['alt'], c['form']) for c in calls}) < len(calls))
        ctx.sample({'session': calls}, limit=2)
        for key, desc in devs:
            if key == 'machinery':
                raise MachineryError('bada worker failed: ' + desc)
            ctx.violation(key, desc, {'si': si, 'session': calls})
    ctx.exhaustive = True
    ctx.log(f'evaluating {len(pts)} point cases and {len(ms)} mass profiles on the real model')
    for case, devs in zip(pts, pmap(run_point, pts)):
        ctx.case_done(case['c'], nontrivial=case['o']['regime'] != 'inside')
        ctx.sample(case, limit=2)
        for key, desc in devs:
            if key == 'machinery':
                raise MachineryError('bada worker failed: ' + desc)
            ctx.violation(key, desc, case)
    for case, devs in zip(ms, pmap(run_mass, ms)):
        ctx.case_done(case, nontrivial=len(set(case['prof'])) > 1)
        ctx.sample(case, limit=4)
        seen = set()
        for key, desc in devs:
            if key == 'machinery':
                raise MachineryError('bada worker failed: ' + desc)
            if key not in seen:
                seen.add(key)
                ctx.violation(key, desc, case)
