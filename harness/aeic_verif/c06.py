"""C06 — the performance model reproduces its table and never extrapolates.

spec:    specs/perf/PerfTable.tla: EvalSpec (node exactness, bilinear values on
         the half lattice, refusal outside the FL range / outside the mass
         range in mass-dependent phases, symbolic min/max mass), LoadSpec
         (only complete FL x mass grids are accepted), PtfSpec (PTF rows ->
         model table rows).
binding: tables are rendered from the specification, loaded with
         PerformanceModel.from_data and queried through
         BasePerformanceModel.evaluate with altitude = FL x FL_TO_METERS (the
         library's own factor); corrupted tables must be refused at load; PTF
         text is rendered in the fixed BADA column layout, parsed by
         PTFData.load, converted by build_performance_table and compared row by
         row after unit conversion.
"""

from __future__ import annotations

import json
import tempfile
import warnings
from fractions import Fraction
from pathlib import Path

import numpy as np

from . import tlc
from .core import Ctx, MachineryError
from .store_replay import pmap

MASSES = [50000.0, 60000.0, 80000.0]
_cache = {}


def fr(x):
    return Fraction(x[0], x[1])


def tas(ph, i):
    return {'climb': 200, 'cruise': 232, 'descent': 216}[ph] + 8 * i


def rocd(ph, i, j, a):
    return {'climb': 40 - 4 * j * a + 4 * i, 'cruise': 0, 'descent': -(12 + 4 * i)}[ph]


def ff(ph, i, j, b):
    return {'climb': 8 + 4 * i, 'cruise': 4 + 4 * i + 8 * j * b, 'descent': 4 + 4 * i}[ph]


RESIDUAL_UNIT = 1e-7  # specs/perf/PerfTable.tla CruiseResidual


def residual(i, cz):
    return (4 if i % 2 == 0 else -4) if cz == 2 else 4 * cz


def rows_for(fls, a, b, phases=('climb', 'cruise', 'descent'), cz=0, cf=0, dt=0):
    """Table rows [fl, tas, rocd, mass, fuel_flow] grouped by phase; the cruise rows lack the
    cf lowest levels, the descent rows the dt highest ones."""
    out = {}
    for ph in phases:
        r = []
        for i, fl in enumerate(fls):
            if (ph == 'cruise' and i < cf) or (ph == 'descent' and i >= len(fls) - dt):
                continue
            for j in ((0, 1, 2) if ph != 'descent' else (1,)):
                rc = float(rocd(ph, i, j, a)) + (residual(i, cz) * RESIDUAL_UNIT if ph == 'cruise' else 0.0)
                r.append([float(fl), float(tas(ph, i)), rc, MASSES[j], float(ff(ph, i, j, b))])
        out[ph] = r
    return out


def listing(r, order):
    """The rows of a table in one of the listing orders of the specification."""
    asc = r['climb'] + r['cruise'] + r['descent']
    if order == 'asc':
        return asc
    if order == 'rev':
        return list(reversed(asc))
    blocks = [sorted(r[ph], key=lambda x: (-x[0], x[3])) for ph in ('descent', 'cruise', 'climb')]
    out = []
    while any(blocks):
        for b_ in blocks:
            if b_:
                out.append(b_.pop(0))
    return out


def model_data(rows, ceiling_ft=45000):
    return dict(
        model_type='legacy', aircraft_name='VERIF', aircraft_class='narrow', maximum_altitude_ft=ceiling_ft, maximum_payload_kg=10000,
        number_of_engines=2, speeds=None, lto_performance=None, flight_performance=dict(cols=['fl', 'tas', 'rocd', 'mass', 'fuel_flow'], data=rows),
    )  # fmt: skip


def setup():
    if 'cfg' not in _cache:
        from .traj_common import load_config

        load_config()
        _cache['cfg'] = True


def eval_case(case):
    warnings.simplefilter('ignore')
    try:
        setup()
        from AEIC.performance.models import PerformanceModel
        from AEIC.performance.types import AircraftState, SimpleFlightRules
        from AEIC.units import FL_TO_METERS

        c, o = case['c'], case['o']
        fls = c['fls']
        key = (tuple(fls), c['a'], c['b'], c['cz'], c['ord'], c['cf'], c['dt'])
        if key not in _cache:
            r = rows_for(fls, c['a'], c['b'], cz=c['cz'], cf=c['cf'], dt=c['dt'])
            # PerfTable.tla Ceilings: the stated maximum altitude of the aircraft is well above the table, or (what a table
            # made from a PTF file has) exactly the top tabulated level - the table answers the same either way
            top = (sum(fls) + c['a'] + c['b'] + c['cz'] + c['cf'] + c['dt'] + len(c['ord'])) % 2 == 1
            _cache[key] = PerformanceModel.from_data(model_data(listing(r, c['ord']), ceiling_ft=max(fls) * 100 if top else 45000))
        pm = _cache[key]
        # the level list of the queried phase
        if c['ph'] == 'cruise':
            fls = fls[c['cf']:]
        elif c['ph'] == 'descent':
            fls = fls[: len(fls) - c['dt']]
        n = len(fls)
        h = c['fl2']
        if h < 0:
            fl = fls[0] - 10
        elif h > 2 * n - 2:
            fl = fls[-1] + 10
        elif h % 2 == 0:
            fl = fls[h // 2]
        else:
            fl = (fls[h // 2] + fls[h // 2 + 1]) / 2
        m2 = c['m2']
        if m2 == 100:
            mass = 'min'
        elif m2 == 101:
            mass = 'max'
        elif m2 < 0:
            mass = MASSES[0] - 1000
        elif m2 > 4:
            mass = MASSES[2] + 1000
        elif m2 % 2 == 0:
            mass = MASSES[m2 // 2]
        else:
            mass = (MASSES[m2 // 2] + MASSES[m2 // 2 + 1]) / 2
        # PerfTable.tla MassForms: a mass that is a whole number of kilograms may arrive as float, Python int, numpy
        # integer or numpy float - the same mass; the form is chosen deterministically per query
        if not isinstance(mass, str) and float(mass) == int(mass):
            form = (int(mass) // 500 + h + len(c['fls'])) % 4
            mass = [float, int, np.int64, np.float64][form](mass)
        rule = {'climb': SimpleFlightRules.CLIMB, 'cruise': SimpleFlightRules.CRUISE, 'descent': SimpleFlightRules.DESCEND}[c['ph']]
        where = f'{c["ph"]} FL {fl} (given as {fl} x FL_TO_METERS m) mass {mass!r} ({type(mass).__name__}) in the {c["ph"]} levels {fls} of table FL {c["fls"]} (rows listed {c["ord"]}, cruise ROCD residual {c["cz"]}, cruise lacks {c["cf"]} lowest / descent {c["dt"]} highest levels)'
        state = AircraftState(altitude=fl * FL_TO_METERS, aircraft_mass=mass, true_airspeed=200.0, rate_of_climb=0.0)
        try:
            p = pm.evaluate(state, rule)
            refused = False
        except Exception as e:
            refused, err = True, f'{type(e).__name__}: {str(e)[:80]}'
        # PerfTable.tla StateIsAValue: the state handed over is the caller's - after the evaluation it still says what it
        # said (a symbolic mass stays symbolic: the same state may be put to another model, whose extreme masses differ)
        if not (state.aircraft_mass is mass or state.aircraft_mass == mass) or state.altitude != fl * FL_TO_METERS or state.true_airspeed != 200.0 or state.rate_of_climb != 0.0:
            return [('state-modified', f'{where}: after the evaluation the state handed over reads altitude {state.altitude}, mass {state.aircraft_mass!r}, TAS {state.true_airspeed}, ROCD {state.rate_of_climb}')]
        node = h >= 0 and h <= 2 * n - 2 and h % 2 == 0
        if refused != bool(o['refused']):
            if refused:
                kind = 'tabulated-level-refused' if node else 'inside-envelope-refused'
                return [(f'{kind}:{"top" if h == 2 * n - 2 else ("bottom" if h == 0 else "inner")}', f'{where}: refused ({err}); specification: a value')]
            return [('extrapolated', f'{where}: returned {p}; specification: refused (outside the table)')]
        if refused:
            return []
        devs = []
        for k, g in (('tas', p.true_airspeed), ('rocd', p.rate_of_climb), ('ff', p.fuel_flow)):
            w = float(fr(o[k]))
            if k == 'rocd':
                w += float(fr(o['res'])) * RESIDUAL_UNIT
            if abs(g - w) > 1e-9 * max(1.0, abs(w)):
                devs.append((f'value:{k}:{c["ph"]}:{"node" if node and (m2 in (0, 2, 4, 100, 101) or c["ph"] == "descent") else "between"}', f'{where}: {k} = {g!r}; specification: {w!r}'))
        # the values depend on altitude and mass, not on the number TYPE that carries them (round 17): whole metres and
        # whole kilograms handed over as integers give what the same numbers give as floats
        if not isinstance(mass, str) and float(mass) == int(mass):
            alt_i = int(fl * FL_TO_METERS) + (1 if h < 2 * n - 2 else 0)
            ityp = [int, np.int64][(alt_i + h) % 2]
            res = []
            for a_, m_ in ((ityp(alt_i), ityp(int(mass))), (float(alt_i), float(mass))):
                try:
                    q = pm.evaluate(AircraftState(altitude=a_, aircraft_mass=m_, true_airspeed=200.0, rate_of_climb=0.0), rule)
                    res.append((q.true_airspeed, q.rate_of_climb, q.fuel_flow))
                except Exception as e:
                    res.append(type(e).__name__)
            if (isinstance(res[0], str) or isinstance(res[1], str)) and res[0] != res[1] or not isinstance(res[0], str) and not np.allclose(res[0], res[1], rtol=1e-12, atol=0):
                devs.append(('value:number-type', f'{c["ph"]} at {alt_i} m, mass {int(mass)} kg of table FL {c["fls"]}: (tas, rocd, ff) = {res[0]} for {ityp.__name__} numbers, {res[1]} for the same numbers as float'))
        return devs
    except Exception as e:
        import traceback

        return [('machinery', f'{type(e).__name__}: {e}\n{traceback.format_exc()}')]


def load_case(case):
    warnings.simplefilter('ignore')
    try:
        setup()
        from AEIC.performance.models import PerformanceModel

        c, o = case['c'], case['o']
        r = rows_for(c['fls'], 1, 1)
        target = [list(x) for x in r[c['ph']]]
        k1, k2 = c['r1'] - 1, c['r2'] - 1
        if c['corr'] == 'remove':
            del target[k1]
        elif c['corr'] == 'duplicate':
            target.insert(k1, list(target[k1]))
        elif c['corr'] == 'duplicate_and_remove':
            dup = list(target[k1])
            target[k2] = dup  # row k2 is lost, row k1 appears twice: the row count is unchanged
        elif c['corr'] == 'tas_depends_on_mass':
            target[k1][1] += 4.0
        elif c['corr'] == 'mass_mistyped':
            # rows are level-major with the three masses in turn: the neighbour row of the same level
            j = k1 % 3
            target[k1][3] = MASSES[(j + 1) % 3]
        rows = []
        for ph in ('climb', 'cruise', 'descent'):
            if ph == c['ph']:
                rows += target
            elif not c.get('only'):
                rows += r[ph]
        try:
            PerformanceModel.from_data(model_data(rows))
            accepted = True
        except Exception:
            accepted = False
        if accepted != bool(o['accepted']):
            if accepted:
                return [(f'incomplete-table-accepted:{c["corr"]}', f'{c["ph"]} sub-table of FL {c["fls"]} with corruption {c["corr"]} (rows {c["r1"]},{c["r2"]}) was accepted at load; specification: refused' + (' (table with this phase only)' if c.get('only') else ''))]
            return [('complete-table-refused', f'complete table FL {c["fls"]} refused at load')]
        return []
    except Exception as e:
        import traceback

        return [('machinery', f'{type(e).__name__}: {e}\n{traceback.format_exc()}')]


PTF_HEAD = """TASOPT PERFORMANCE FILE                                     Mar 09 2025

AC/Type: VRF1__
                              Source OPF File:               Mar 09 2025
                              Source APF file:               Mar 09 2025

 Speeds:   CAS(LO/HI)  Mach   Mass Levels [kg]         Temperature:  ISA
 climb   - 250/300     0.80   low     -   50000
 cruise  - 250/280     0.80   nominal -   60000        Max Alt. [ft]:  41000
 descent - 250/290     0.80   high    -   80000        Max Payload [kg]:  20000
==========================================================================================
 FL |          CRUISE           |               CLIMB               |       DESCENT
    |  TAS          fuel        |  TAS          ROCD         fuel   |  TAS  ROCD    fuel
    | [kts]       [kg/min]      | [kts]        [fpm]       [kg/min] | [kts] [fpm] [kg/min]
    |          lo   nom    hi   |         lo    nom    hi    nom    |        nom    nom
==========================================================================================
"""


def ptf_case(case):
    warnings.simplefilter('ignore')
    try:
        if 'ptf' not in _cache:
            # the command module loads the default configuration when imported
            import os

            from .traj_common import TEST_DATA

            os.environ['AEIC_PATH'] = str(TEST_DATA)
            from AEIC.config import Config

            Config.reset()
            import AEIC.commands.make_performance_model  # noqa: F401

            _cache['ptf'] = _cache['cfg'] = True
        from AEIC.commands.make_performance_model import build_performance_table
        from AEIC.parsers.ptf_reader import PTFData
        from AEIC.performance.models import PerformanceModel
        from AEIC.units import FPM_TO_MPS, KNOTS_TO_MPS

        c, o = case['c'], case['o']
        lines = [PTF_HEAD]
        for row in o['rows']:
            cr = row['cruise']
            crs = f'  {cr[0]:3d}    {cr[1]:5.2f} {cr[2]:5.2f} {cr[3]:5.2f} ' if cr else ' ' * 27
            cl = row['climb']
            de = row['descent']
            lines.append(f'{row["fl"]:3d} |{crs}|  {cl[0]:3d}    {cl[1]:4d}  {cl[2]:4d}  {cl[3]:4d}   {cl[4]:5.2f}  |  {de[0]:3d}   {de[1]:4d}   {de[2]:5.2f}\n')
            lines.append('    |                           |                                   |\n')
        with tempfile.NamedTemporaryFile('w', suffix='.PTF', delete=False) as f:
            f.write(''.join(lines))
            path = f.name
        try:
            ptf = PTFData.load(path)
            table = build_performance_table(ptf)
        except Exception as e:
            return [(f'ptf-raised-{type(e).__name__}', f'PTF with {len(o["rows"])} levels: {type(e).__name__}: {e}')]
        finally:
            Path(path).unlink(missing_ok=True)
        cols = table['cols']
        ix = {k: cols.index(k) for k in ('fl', 'mass', 'tas', 'rocd', 'fuel_flow')}
        got = {}
        for r in table['data']:
            ph = 'climb' if r[ix['rocd']] > 0 else ('descent' if r[ix['rocd']] < 0 else 'cruise')
            got.setdefault((ph, int(r[ix['fl']]), float(r[ix['mass']])), []).append(r)
        mass_of = {'low': 50000.0, 'nominal': 60000.0, 'high': 80000.0}
        devs = []
        if (ptf.low_mass, ptf.nominal_mass, ptf.high_mass, ptf.maximum_altitude_ft, ptf.maximum_payload) != (50000, 60000, 80000, 41000, 20000):
            devs.append(('ptf-header', f'masses/limits parsed as {(ptf.low_mass, ptf.nominal_mass, ptf.high_mass, ptf.maximum_altitude_ft, ptf.maximum_payload)}'))
        want_keys = set()
        for ph, fl, ml, tk, rf, fk in o['table']:
            key = (ph, fl, mass_of[ml])
            want_keys.add(key)
            rr = got.get(key)
            if not rr or len(rr) != 1:
                devs.append(('ptf-row-missing-or-duplicated', f'expected exactly one {ph} row for FL {fl}, {ml} mass; got {rr}'))
                continue
            r = rr[0]
            for name, g, w in (('tas', r[ix['tas']], tk * KNOTS_TO_MPS), ('rocd', r[ix['rocd']], rf * FPM_TO_MPS), ('fuel_flow', r[ix['fuel_flow']], fk / 60.0)):
                if abs(g - w) > 1e-9 * max(1.0, abs(w)):
                    devs.append((f'ptf-value:{name}:{ph}', f'{ph} FL {fl} {ml} mass: {name} = {g}; PTF row says {w} (after unit conversion)'))
        extra = set(got) - want_keys
        if extra:
            devs.append(('ptf-extra-rows', f'table has rows the PTF file does not imply: {sorted(extra)[:4]}'))
        if not devs:
            try:
                PerformanceModel.from_data(dict(model_data([]), flight_performance=table))
            except Exception as e:
                devs.append(('ptf-table-not-loadable', f'table generated from a well-formed PTF file is refused at load: {type(e).__name__}: {e}'))
        return devs
    except Exception as e:
        import traceback

        return [('machinery', f'{type(e).__name__}: {e}\n{traceback.format_exc()}')]


def run(ctx: Ctx):
    ctx.rule = (
        'evaluation: 3 FL sets (2-4 levels, uneven spacing) x mass-dependence coefficients x 3 phases x every half-lattice FL (nodes, mid-points, one step outside each edge) '
        'x every half-lattice mass (incl. outside, min, max): 3 402 queries; load: every single-row removal / duplication / duplication+removal (row count preserved) / mistyped mass (a pair twice with different values, one missing) / '
        'FL-only rule break of each phase sub-table: 318; PTF: 12 files; non-trivial = not a plain inner node'
    )
    ctx.assumptions += [
        'queries are given as altitude = FL x FL_TO_METERS; values compared at rel 1e-9',
        'table values are integer multiples of 4 so that bilinear mid-point values are integral',
        'PTF text is rendered in the column layout of tests/data/legacy_verification/legacy_performance.PTF',
    ]
    if ctx.replay:
        c = json.loads(Path(ctx.replay).read_text())['case']
        fn = {'eval': eval_case, 'load': load_case, 'ptf': ptf_case}[c['kind']]
        for key, desc in fn(c['case']):
            ctx.violation(key, desc, c)
        return
    jobs = []
    for kind, fn in (('Eval', eval_case), ('Load', load_case), ('Ptf', ptf_case)):
        tlc.check(ctx, 'perf/PerfTable', f'perf/MC_{kind}.cfg', workers=8)
        em = tlc.check(ctx, 'perf/PerfTableGen', f'perf/Gen_{kind}.cfg', workers=8)['emitted']
        jobs.append((kind.lower(), fn, em))
    ctx.exhaustive = True
    for kind, fn, em in jobs:
        ctx.log(f'{kind}: {len(em)} cases')
        for case, devs in zip(em, pmap(fn, em)):
            nt = kind != 'eval' or case['o']['refused'] or case['c']['fl2'] % 2 == 1 or case['c']['m2'] in (1, 3, 100, 101) or case['c']['fl2'] in (0, 2 * len(case['c']['fls']) - 2)
            ctx.case_done((kind, case['c']), nontrivial=bool(nt))
            ctx.sample({'kind': kind, 'case': case['c'], 'expect': case['o'] if kind != 'ptf' else 'table rows'}, limit=5)
            seen = set()
            for key, desc in devs:
                if key == 'machinery':
                    raise MachineryError('performance worker failed: ' + desc)
                if key not in seen:
                    seen.add(key)
                    ctx.violation(key, desc, {'kind': kind, 'case': case})
