"""C04 — gridding conserves every integrated quantity.

spec:    specs/grid/GridSegment.tla (Conservation: the pieces of a segment add
         up to 1, also for repeated points), GridChain.tla, GridDateline.tla.
binding: see grid_checks.run_grid; C04 reports conservation deviations
         (per segment, per trajectory, antimeridian dog-leg, zero-length).
"""

from .grid_checks import run_grid


def run(ctx):
    run_grid(ctx, 'C04')
