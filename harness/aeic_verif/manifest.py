"""Generates /verif/MANIFEST.json from the table below (python -m aeic_verif.manifest)."""

from __future__ import annotations

import importlib
import json

from .core import VERIF

TITLES = {}

CHECKS = {
    'C18': dict(
        technique='TLA+ history machine (Config.tla) model-checked with TLC; TLC-generated call histories replayed on the real Config API; recorded executions (driver + repo tests) validated by TLC against ConfigTrace.tla',
        text='TLC checks AtMostOne / FailedLoadLeavesNone / RefusalsChangeNothing / ReadsNeedConfig / ValuesStable on the configuration machine over all 36x36 layer pairs and 8 failure kinds; every history of depth 3 (quick) / 4 (thorough) over 25 call kinds and seeded deep random walks are replayed on the real singleton with the projected state compared after every call; recorded traces of those runs and of tests/test_config.py are accepted by the trace specification. Bounded-exhaustive for histories, which is what the property quantifies over.',
        note='Trusted: TLC, the projection onto three tracked settings (two nesting levels), error classes are not compared (any exception counts as refusal).',
        ref='5/C18',
    ),
}

PENDING_REASON = 'check not built yet in this round (specification planned in DESIGN.md section 5); not claimed until its machinery exists'


def build() -> dict:
    checks = []
    for pid in sorted(CHECKS):
        c = CHECKS[pid]
        checks.append(
            {
                'property_id': pid,
                'quick_cmd': f'./check {pid} --tier quick',
                'thorough_cmd': f'./check {pid} --tier thorough',
                'evidence_file': f'evidence/{pid}.json',
                'replay_cmd_template': f'./check {pid} --replay {{path}}',
                'engine': 'tlc+replay',
                'level_claimed': {'category': 'model_checking', 'text': c['text'], 'design_ref': f"DESIGN.md section {c['ref']}"},
                'level_note': c['note'],
                'technique': c['technique'],
            }
        )
    na = [
        {'property_id': f'C{i:02d}', 'reason': PENDING_REASON}
        for i in range(1, 21)
        if f'C{i:02d}' not in CHECKS
    ]
    return {
        'version': 1,
        'setup_cmd': './check setup',
        'hooks': {
            'guard': 'AEIC_VERIF_TRACE',
            'enable': 'no source hooks in /repo: with AEIC_VERIF_TRACE=1 the harness-side pytest plugin (harness/aeic_verif/plugin.py) wraps public entry points from outside; /repo is imported from its working tree (PYTHONPATH=$VERIF_REPO/src)',
            'baseline_off_cmd': 'cd /repo && /venv/bin/python -m pytest -ra -q -p no:cacheprovider --timeout=900 --continue-on-collection-errors',
            'source_commits': [],
            'add_only': True,
        },
        'engines': [
            {
                'name': 'tlc+replay',
                'path': 'check',
                'serves_properties': sorted(CHECKS),
                'kind_free_text': 'explicit TLA+ specifications under specs/ checked with TLC; conformance by replaying TLC-generated cases/behaviours into the real code and by TLC trace validation of recorded executions',
            }
        ],
        'checks': checks,
        'not_applicable': na,
        'notes': 'See DESIGN.md. Known findings: known_findings.json.',
    }


if __name__ == '__main__':
    (VERIF / 'MANIFEST.json').write_text(json.dumps(build(), indent=1) + '\n')
    print('wrote MANIFEST.json with', len(CHECKS), 'checks')
