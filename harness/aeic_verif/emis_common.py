"""Shared pieces for the emissions checks (C01, C11): configuration loading,
performance-model variants, synthetic trajectories, the balance projection."""

from __future__ import annotations

import copy
import math
import tomllib
import warnings

import numpy as np

from .traj_common import TEST_DATA, override_dir

_state: dict = {}
GSE_NOMINAL_CO2 = {'wide': 58e3, 'narrow': 18e3, 'small': 10e3, 'freight': 58e3}
METHOD_NAMES = ['p3t3', 'foa3', 'scope11', 'meem', 'bffm2', 'fuel_flow']


def load_emis_config(cfgd: dict):
    """cfgd uses the field names of EmissionsConfig.tla."""
    import os

    os.environ['AEIC_PATH'] = str(TEST_DATA)
    from AEIC.config import Config

    em = dict(
        climb_descent_mode=cfgd.get('mode', 'trajectory'),
        co2_enabled=cfgd.get('co2', True), h2o_enabled=cfgd.get('h2o', True), sox_enabled=cfgd.get('sox', True),
        nox_method=cfgd.get('nox', 'bffm2'), hc_method=cfgd.get('hc', 'bffm2'), co_method=cfgd.get('co', 'bffm2'),
        pmvol_method=cfgd.get('pmvol', 'fuel_flow'), pmnvol_method=cfgd.get('pmnvol', 'meem'),
        apu_enabled=cfgd.get('apu', True), gse_enabled=cfgd.get('gse', True), lifecycle_enabled=cfgd.get('lifecycle', True),
    )  # fmt: skip
    Config.reset()
    return Config.load(emissions=em, data_path_overrides=[override_dir(), TEST_DATA])


def fuel_obj(name='conventional_jetA'):
    from AEIC.config import config
    from AEIC.types import Fuel

    key = ('fuel', name)
    if key not in _state:
        with open(config.file_location(f'fuels/{name}.toml'), 'rb') as fp:
            _state[key] = Fuel.model_validate(tomllib.load(fp))
    return _state[key]


EDB_FORMS = ('reported', 'partial_idle', 'partial_takeoff', 'unreported')


def model(flows=None, apu='running', aclass='narrow', mode_order='idle_first', edb='reported', lto_form='frozen'):
    """Sample B738 model with integer LTO fuel flows (g/s), APU variant and class; the per-mode LTO sections are
    listed idle .. take-off or (InventoryGen.tla ModeOrders) take-off .. idle, the ICAO databank's order."""
    from AEIC.config import config
    from AEIC.performance.models import PerformanceModel

    key = ('pm', None if flows is None else tuple(sorted(flows.items())), apu, aclass, mode_order, edb, lto_form)
    if key in _state:
        return _state[key]
    if 'toml' not in _state:
        with open(config.file_location('performance/sample_performance_model.toml'), 'rb') as fp:
            _state['toml'] = tomllib.load(fp)
    d = copy.deepcopy(_state['toml'])
    lk = next(k for k in d if k.lower() == 'lto_performance')
    if flows is not None:
        for m, v in flows.items():
            mk = next(k for k in d[lk]['mode_data'] if k.lower() == m)
            d[lk]['mode_data'][mk]['fuel_kgs'] = v / 1000.0
    if mode_order == 'takeoff_first':
        d[lk]['mode_data'] = dict(reversed(list(d[lk]['mode_data'].items())))
    ak = next(k for k in d if k.lower() == 'apu_name')
    if apu == 'absent':
        del d[ak]
    elif apu == 'idle':
        d[ak] = 'APU that is not in the database'
    d[next(k for k in d if k.lower() == 'aircraft_class')] = aclass
    with warnings.catch_warnings():
        warnings.simplefilter('ignore')
        pm = PerformanceModel.from_data(d)
    e = pm.edb  # read the engine database once per model
    if lto_form == 'mutable':
        # InventoryGen.tla LtoForms: the model's per-mode LTO indices as mutable tables (the model is the caller's and is
        # shared by every flight of this process that asks for the same model)
        for name in ('EI_NOx', 'EI_HC', 'EI_CO'):
            setattr(pm.lto, name, getattr(pm.lto, name).copy(mutable=True))
    if edb != 'reported':
        # InventoryGen.tla EdbForms: the engine data bank marks an nvPM value that was not reported with -1 - for all
        # thrust modes or for some only; the number indices are not reported in these forms
        import dataclasses

        from AEIC.performance.types import ThrustModeValues as TMV

        m = [float(x) for x in e.nvPM_mass_matrix.as_array()]
        if min(m) < 0:
            m = [5.0, 5.5, 6.0, 6.5]
        if edb == 'partial_idle':
            m[0] = -1.0
        elif edb == 'partial_takeoff':
            m[3] = -1.0
        else:
            m = [-1.0] * 4
        pm.__dict__['edb'] = dataclasses.replace(e, nvPM_mass_matrix=TMV(*m), nvPM_num_matrix=TMV(-1.0, -1.0, -1.0, -1.0))
    _state[key] = pm
    return pm


ALT = [900.0, 4000.0, 9500.0, 12500.0, 10800.0, 6000.0, 2500.0, 11000.0]
ALT_LOW = [300.0, 1200.0, 2400.0, 2400.0, 1500.0, 600.0, 1800.0, 2400.0]   # InventoryGen.tla AltProfile "low": a hop below 2.5 km
ALT_REF = [300.0, 1200.0, 3000.0, 3000.0, 1500.0, 600.0, 1800.0, 3000.0]   # "ref_level": the top of the flight is exactly 3000 m
TAS = [150.0, 200.0, 235.0, 240.0, 230.0, 210.0, 160.0, 238.0]
FF = [1.9, 1.4, 0.9, 0.05, 0.6, 0.3, 3.2, 0.0]


class PlainTrajectory:
    """A flown trajectory as a plain object (what compute_emissions reads: fuel_mass, altitude, true_airspeed,
    fuel_flow, n_climb, n_descent, len) - InventoryGen.tla carriers plain_float / plain_int (whole-number arrays)."""

    def __init__(self, burn_g, nc, nd, start_fuel_kg, dtype, alts=None):
        n = len(burn_g)
        ALT = alts or globals()['ALT']
        fm = [start_fuel_kg]
        for b in burn_g[1:]:
            fm.append(fm[-1] - b / 1000.0)
        if dtype is not float and any(v != int(v) for v in fm):
            raise ValueError('whole-number carrier needs whole-kilogram burns')
        self.fuel_mass = np.array(fm, dtype=dtype)
        self.aircraft_mass = np.array([v + 60000 for v in fm], dtype=dtype)
        self.altitude = np.array([ALT[i % len(ALT)] for i in range(n)], dtype=dtype)
        self.true_airspeed = np.array([TAS[i % len(TAS)] for i in range(n)], dtype=dtype)
        self.ground_speed = self.true_airspeed
        off = 3 * nc + 5 * nd + n   # where in the fuel-flow lattice the flight starts: the zero and the above-take-off flow take part
        self.fuel_flow = np.array([FF[(i + off) % len(FF)] for i in range(n)])
        self.flight_time = np.arange(n, dtype=dtype) * 600
        self.ground_distance = np.arange(n, dtype=dtype) * 100000
        self.n_climb, self.n_descent, self.n_cruise = nc, nd, n - nc - nd

    def __len__(self):
        return len(self.fuel_mass)


def synthetic_traj(burn_g, nc, nd, start_fuel_kg=500.0, carrier='container', profile='high'):
    """Trajectory whose fuel_mass profile realises the integer burns (grams)."""
    alts = ALT_LOW if profile == 'low' else ALT_REF if profile == 'ref_level' else ALT
    if carrier != 'container':
        return PlainTrajectory(burn_g, nc, nd, start_fuel_kg, float if carrier == 'plain_float' else np.int64, alts)
    from AEIC.trajectories.trajectory import Trajectory

    n = len(burn_g)
    t = Trajectory(n, name='verif')
    fm = [start_fuel_kg]
    for b in burn_g[1:]:
        fm.append(fm[-1] - b / 1000.0)
    t.fuel_mass = np.array(fm)
    t.aircraft_mass = np.array(fm) + 60000.0
    t.altitude = np.array([alts[i % len(alts)] for i in range(n)])
    t.flight_level = t.altitude / 30.48
    t.true_airspeed = np.array([TAS[i % len(TAS)] for i in range(n)])
    t.ground_speed = t.true_airspeed
    off = 3 * nc + 5 * nd + n   # where in the fuel-flow lattice the flight starts: the zero and the above-take-off flow take part
    t.fuel_flow = np.array([FF[(i + off) % len(FF)] for i in range(n)])
    t.flight_time = np.arange(n, dtype=float) * 600.0
    t.ground_distance = np.arange(n, dtype=float) * 1e5
    t.latitude = np.linspace(40, 41, n)
    t.longitude = np.linspace(-70, -80, n)
    t.azimuth = np.full(n, 270.0)
    t.heading = np.full(n, 270.0)
    t.rate_of_climb = np.zeros(n)
    t.n_climb = nc
    t.n_descent = nd
    t.n_cruise = n - nc - nd
    t.starting_mass = float(t.aircraft_mass[0])
    t.total_fuel_mass = float(fm[0])
    return t


def close(a, b, rel=1e-9, absol=1e-9):
    return abs(a - b) <= max(absol, rel * max(abs(a), abs(b)))


def balance(em, fuel, cfgd) -> list[tuple[str, str]]:
    """Internal balance of an Emissions value (property C01), as relations
    among the returned numbers only -> list of (clause, detail)."""
    from AEIC.performance.types import ThrustMode
    from AEIC.types import Species

    out = []
    apu_on, gse_on = cfgd.get('apu', True), cfgd.get('gse', True)
    burn = np.asarray(em.fuel_burn_per_segment, float)

    def fin(x, what):
        a = np.asarray(x, float)
        if not np.all(np.isfinite(a)):
            out.append(('not-finite', what))
        elif np.any(a < -1e-12):
            out.append(('negative', f'{what}: min {a.min()}'))

    for s, arr in em.trajectory_emissions.items():
        fin(arr, f'trajectory {s.name}')
        idx = em.trajectory_indices[s] if s in em.trajectory_indices else None
        if idx is None:
            out.append(('segment-not-ei-times-burn', f'{s.name}: emissions without indices'))
            continue
        fin(idx, f'trajectory index {s.name}')
        if not np.allclose(np.asarray(arr, float), np.asarray(idx, float) * burn, rtol=1e-12, atol=1e-12):
            out.append(('segment-not-ei-times-burn', f'{s.name}: emissions {np.asarray(arr)[:4]} != index*burn {(np.asarray(idx) * burn)[:4]}'))
    for s, tm in em.lto_emissions.items():
        for m in ThrustMode:
            fin(tm[m], f'lto {s.name} {m.value}')
    for part, name in ((em.apu_emissions, 'apu'), (em.gse_emissions, 'gse'), (em.total_emissions, 'total')):
        for s, v in part.items():
            fin(v, f'{name} {s.name}')
    fin(em.total_fuel_burn, 'total fuel burn')
    # totals = sum of parts (+ life-cycle CO2)
    for s, tot in em.total_emissions.items():
        want = 0.0
        if s in em.trajectory_emissions:
            want += float(np.sum(em.trajectory_emissions[s]))
        if s in em.lto_emissions:
            want += float(sum(em.lto_emissions[s][m] for m in ThrustMode))
        if apu_on and s in em.apu_emissions:
            want += float(em.apu_emissions[s])
        if gse_on and s in em.gse_emissions:
            want += float(em.gse_emissions[s])
        if s == Species.CO2:
            want += float(em.lifecycle_co2 or 0.0)
        if not close(float(tot), want):
            out.append(('total-not-sum-of-parts', f'{s.name}: total {float(tot)!r}; parts sum to {want!r}'))
    for part_species in (set(em.trajectory_emissions.keys()) | set(em.lto_emissions.keys())) - set(em.total_emissions.keys()):
        out.append(('total-not-sum-of-parts', f'{part_species.name} has parts but no total'))

    # NOx and SOx splits in every component
    def split(get, have, label):
        for whole, parts in ((Species.NOx, (Species.NO, Species.NO2, Species.HONO)), (Species.SOx, (Species.SO2, Species.SO4))):
            if whole in have and all(p in have for p in parts):
                w = np.asarray(get(whole), float)
                p = sum(np.asarray(get(x), float) for x in parts)
                if not np.allclose(w, p, rtol=1e-9, atol=1e-9):
                    out.append((f'{whole.name}-split', f'{label}: {"+".join(x.name for x in parts)} = {p} but {whole.name} = {w}'))

    split(lambda s: em.trajectory_emissions[s], em.trajectory_emissions, 'trajectory')
    for m in ThrustMode:
        split(lambda s, m=m: em.lto_emissions[s][m], em.lto_emissions, f'lto {m.value}')
    split(lambda s: em.apu_emissions[s], em.apu_emissions, 'apu')
    split(lambda s: em.gse_emissions[s], em.gse_emissions, 'gse')
    return out


def classify_exception(e: BaseException):
    """('refused', method) when the error names an emissions method,
    otherwise ('internal', class name)."""
    msg = str(e).lower()
    if isinstance(e, (NotImplementedError, ValueError, RuntimeError)):
        for m in METHOD_NAMES:
            if m in msg:
                return 'refused', m
    return 'internal', type(e).__name__


def nonzero(x) -> bool:
    a = np.asarray(x, float)
    return bool(np.any(a != 0))


def isfinite(x):
    return math.isfinite(float(x))
