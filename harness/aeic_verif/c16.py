"""C16 — ground speed is the length of airspeed vector plus wind vector.

spec:    specs/geo/Wind.tla (headings with rational sine/cosine, integer winds
         on a 2x2x2 lattice with trilinear interpolation; NoWindIsAirspeed,
         TriangleBounds, TailHead, Rotation).
binding: the harness writes synthetic ERA5-shaped NetCDF files holding the
         lattice winds (with and without a valid_time axis), maps the vertical
         half lattice to altitudes through the library's inverse ISA formula and
         compares Weather.get_ground_speed squared with the specification's
         exact value (rel 1e-9); points outside the data domain must be refused.
"""

from __future__ import annotations

import json
import math
import shutil
import tempfile
import warnings
from fractions import Fraction
from pathlib import Path

import numpy as np

from . import tlc
from .core import Ctx, MachineryError

DIRS = [(0, 5), (3, 4), (4, 3), (5, 0), (4, -3), (3, -4), (0, -5), (-3, -4), (-4, -3), (-5, 0), (-4, 3), (-3, 4)]
LEVELS = [300.0, 200.0]
LATS = [40.0, 41.0]
LONS = [-75.0, -74.0]
# the files hold one extra node on every side (linear continuation of the lattice field) so that
# lattice nodes are interior points of the data domain and never sit on its boundary
PAD_LEVELS = [400.0, 300.0, 200.0, 100.0]
PAD_LATS = [39.0, 40.0, 41.0, 42.0]
PAD_LONS = [-76.0, -75.0, -74.0, -73.0]


def fr(x):
    return Fraction(x[0], x[1])


def U(f, p, la, lo):
    return {'uniform': 0, 'lon': 20 * lo, 'lat': -10 * la, 'lev': 30 * p, 'mixed': 20 * lo - 10 * la + 30 * p}[f]


def V(f, p, la, lo):
    return {'uniform': 0, 'lon': -10 * lo, 'lat': 20 * la, 'lev': -20 * p, 'mixed': 10 * lo + 20 * la - 20 * p}[f]


def write_file(d: Path, field, u0, v0, with_time, lay='era5'):
    import xarray as xr

    u = np.zeros((4, 4, 4))
    v = np.zeros((4, 4, 4))
    for p in range(4):
        for la in range(4):
            for lo in range(4):
                u[p, la, lo] = u0 + U(field, p - 1, la - 1, lo - 1)
                v[p, la, lo] = v0 + V(field, p - 1, la - 1, lo - 1)
    # ERA5 layout: descending pressure levels and latitudes
    lev, lat = PAD_LEVELS, PAD_LATS[::-1]
    u, v = u[:, ::-1, :], v[:, ::-1, :]
    if lay == 'asc':  # the other storage order of both axes (Wind.tla LayoutCases)
        lev, lat = lev[::-1], lat[::-1]
        u, v = u[::-1, ::-1, :], v[::-1, ::-1, :]
    if with_time:
        times = np.array([np.datetime64('2024-09-01T00') + np.timedelta64(h, 'h') for h in range(24)])
        uu = np.stack([u if h == 12 else u + 100.0 + h for h in range(24)])
        vv = np.stack([v if h == 12 else v - 100.0 - h for h in range(24)])
        ds = xr.Dataset(
            {'u': (('valid_time', 'pressure_level', 'latitude', 'longitude'), uu), 'v': (('valid_time', 'pressure_level', 'latitude', 'longitude'), vv),
             't': (('valid_time', 'pressure_level', 'latitude', 'longitude'), np.full(uu.shape, 220.0))},
            coords={'valid_time': times, 'pressure_level': lev, 'latitude': lat, 'longitude': PAD_LONS},
        )  # fmt: skip
    else:
        ds = xr.Dataset(
            {'u': (('pressure_level', 'latitude', 'longitude'), u), 'v': (('pressure_level', 'latitude', 'longitude'), v), 't': (('pressure_level', 'latitude', 'longitude'), np.full(u.shape, 220.0))},
            coords={'pressure_level': lev, 'latitude': lat, 'longitude': PAD_LONS},
        )  # fmt: skip
    if lay == 'asc':
        ds = ds[['t', 'v', 'u']]  # ... and the other order of the variables in the file (they are found by name)
    d.mkdir(parents=True, exist_ok=True)
    ds.to_netcdf(d / '20240901.nc')
    ds.close()


_w = {}


def _weather(field, u0, v0, with_time, lay='era5'):
    import atexit

    from AEIC.weather import Weather

    if 'root' not in _w:
        _w['root'] = Path(tempfile.mkdtemp(prefix='c16-'))
        atexit.register(shutil.rmtree, _w['root'], True)
        from .traj_common import load_config

        load_config()
    key = (field, u0, v0, with_time, lay)
    if key not in _w:
        d = _w['root'] / f'w{len(_w)}'
        write_file(d, field, u0, v0, with_time, lay)
        # (the directory is a path: given as Path or as str in turn)
        _w[key] = Weather(data_dir=d if len(_w) % 2 == 0 else str(d))
    return _w[key]


def run_case(case):
    """One Wind.tla case with and without a time axis -> list of (key, desc)."""
    warnings.simplefilter('ignore')
    try:
        import pandas as pd

        from AEIC.trajectories.ground_track import GroundTrack
        from AEIC.types import Location
        from AEIC.utils.standard_atmosphere import altitude_from_pressure_isa_bada4

        when = pd.Timestamp('2024-09-01T12:00:00', tz='UTC')

        def alt_of(h):
            p = LEVELS[0] + (LEVELS[1] - LEVELS[0]) * h / 2.0
            return float(altitude_from_pressure_isa_bada4(np.array([p * 100.0]))[0])

        c, o = case['c'], case['o']
        deg = lambda h: math.degrees(math.atan2(*DIRS[h - 1])) % 360.0  # noqa: E731
        # heading cases: an explicit heading (or none) on a ground-track point with its own azimuth
        explicit = 'th' in c
        eff = (c['h'] if c['given'] else c['th']) if explicit else c['h']
        s5, c5 = DIRS[eff - 1]
        heading = deg(eff)
        track_az = deg(c['th']) if explicit else heading
        devs = []
        for with_time in (False, True):
            if c['kind'] == 'uniform':
                w = _weather('uniform', c['u'], c['v'], with_time)
                pos = (1, 1, 1)
            elif c['kind'] == 'field':
                w = _weather(c['f'], c['u0'], c['v0'], with_time, c.get('lay', 'era5'))
                pos = (c['hp'], c['hla'], c['hlo'])
            else:
                w = _weather('mixed', 0, 0, with_time)
                pos = (1, 1, 1)
            lat = LATS[0] + (LATS[1] - LATS[0]) * pos[1] / 2.0
            lon = LONS[0] + (LONS[1] - LONS[0]) * pos[2] / 2.0
            alt = alt_of(pos[0])
            if 'edge' in c:   # Wind.tla EdgeCases: exactly on the outermost latitude / longitude line of the file
                lat = {'north': PAD_LATS[-1], 'south': PAD_LATS[0]}.get(c['edge'].split('_')[0], lat)
                lon = {'east': PAD_LONS[-1], 'west': PAD_LONS[0]}.get(c['edge'].split('_')[-1], lon)
            if c['kind'] == 'outside':
                side = c['side']
                lat = {'north': 42.5, 'south': 38.5}.get(side, lat)
                lon = {'east': -72.5, 'west': -76.5}.get(side, lon)
                if side == 'above':
                    alt = float(altitude_from_pressure_isa_bada4(np.array([80.0 * 100.0]))[0])
                if side == 'below':
                    alt = float(altitude_from_pressure_isa_bada4(np.array([450.0 * 100.0]))[0])
            pt = GroundTrack.Point(Location(longitude=lon, latitude=lat), track_az)
            given = (deg(c['h']) if c['given'] else None) if explicit else (heading if with_time else None)
            # Wind.tla HeadingForms: an explicit heading is an angle - the same direction written in [0, 360) or in
            # (-360, 0] (e.g. -90 for 270) is the same heading; every second explicit-heading case uses the negative form
            if explicit and given is not None and given > 0 and (c['h'] + c['th']) % 2 == 1:
                given -= 360.0
            label = f'heading {heading:.4f} deg (sin, cos = {s5}/5, {c5}/5; given: {given}, track azimuth {track_az:.4f}), TAS {c["tas"]}, {"with" if with_time else "without"} time axis, case {c}'
            try:
                gs = w.get_ground_speed(time=when, gt_point=pt, altitude=alt, true_airspeed=float(c['tas']), azimuth=given)
                refused = False
            except ValueError:
                refused = True
            except Exception as e:
                devs.append((f'raised-{type(e).__name__}', f'{label}: {type(e).__name__}: {e}'))
                continue
            # the point handed over is the caller's: after a query with an explicit heading it still carries its own azimuth,
            # and a query without a heading answers as for a fresh point
            if not refused and explicit and c['given'] and c['h'] != c['th']:
                try:
                    after = w.get_ground_speed(time=when, gt_point=pt, altitude=alt, true_airspeed=float(c['tas']))
                    fresh = w.get_ground_speed(time=when, gt_point=GroundTrack.Point(Location(longitude=lon, latitude=lat), track_az), altitude=alt, true_airspeed=float(c['tas']))
                    if pt.azimuth != track_az or not abs(after - fresh) <= 1e-9 * max(1.0, abs(fresh)):
                        devs.append(('argument-modified', f'{label}: after the query with the explicit heading the same point (azimuth now {pt.azimuth}) gives {after!r} without a heading; a fresh point with azimuth {track_az} gives {fresh!r}'))
                except Exception as e:
                    devs.append(('argument-modified', f'{label}: second query on the same point raised {type(e).__name__}: {e}'))
            # an altitude that is a whole number of metres may arrive as an int: same value, same answer
            if not refused and c['kind'] == 'field' and with_time:
                a_int = int(round(alt))
                try:
                    g_f = w.get_ground_speed(time=when, gt_point=pt, altitude=float(a_int), true_airspeed=float(c['tas']), azimuth=given)
                    g_i = w.get_ground_speed(time=when, gt_point=pt, altitude=a_int, true_airspeed=float(c['tas']), azimuth=given)
                    if not (math.isfinite(g_i) and abs(g_i - g_f) <= 1e-9 * max(1.0, abs(g_f))):
                        devs.append(('altitude-argument-type', f'{label}: altitude {a_int} m given as int: ground speed {g_i!r}; given as float: {g_f!r}'))
                except ValueError:
                    pass  # rounding moved the point out of the data domain
                except Exception as e:
                    devs.append(('altitude-argument-type', f'{label}: altitude {a_int} m given as int: raised {type(e).__name__}: {e}'))
            if refused != bool(o['refused']):
                if refused:
                    devs.append(('inside-domain-refused', f'{label}: refused although inside the data domain'))
                else:
                    devs.append((f'outside-domain-not-refused:{c.get("side")}', f'{label}: returned {gs} for a point outside the weather data domain'))
                continue
            if refused:
                continue
            # Wind.tla LayoutIrrelevant, on the code itself: the same field stored the other way round (axes ascending,
            # variables listed t, v, u) answers exactly as the ERA5-shaped file does
            if 'lay' in c:
                try:
                    ref = _weather(c['f'], c['u0'], c['v0'], with_time, 'era5').get_ground_speed(time=when, gt_point=pt, altitude=alt, true_airspeed=float(c['tas']), azimuth=given)
                    if not abs(gs - ref) <= 1e-9 * max(1.0, abs(ref)):
                        devs.append(('layout-dependent', f'{label}: ground speed {gs!r} from the file storing its axes ascending and its variables as t, v, u; {ref!r} from the ERA5-shaped file of the same field'))
                        continue
                except Exception as e:
                    devs.append(('layout-dependent', f'{label}: the ERA5-shaped file of the same field raised {type(e).__name__}: {e}'))
                    continue
            want = float(fr(o['gs2']))
            if not (math.isfinite(gs) and abs(gs * gs - want) <= 1e-9 * max(1.0, want)):
                wu, wv = float(fr(case['wind'][0])), float(fr(case['wind'][1]))
                tas = float(c['tas'])
                swapped = (tas * c5 / 5 + wu) ** 2 + (tas * s5 / 5 + wv) ** 2
                if abs(gs * gs - swapped) <= 1e-9 * max(1.0, swapped):
                    devs.append((
                        'heading-decomposition-swapped',
                        f'{label}: ground speed {gs!r}; specification sqrt({want}) = {math.sqrt(want)!r}; the value equals the result of using cos(heading) for the eastward and sin(heading) for the northward airspeed component',
                    ))
                else:
                    devs.append((f'wrong-ground-speed:{c["kind"]}', f'{label}: ground speed {gs!r}; specification sqrt({want}) = {math.sqrt(want)!r} (wind {wu}, {wv})'))
        return devs
    except Exception as e:
        import traceback

        return [('machinery', f'{type(e).__name__}: {e}\n{traceback.format_exc()}')]


def _cache_dir():
    """Weather files for WeatherCache.tla: days 1 and 2 with a 24-hour valid_time axis, day 3 without;
    the (uniform) eastward wind encodes Field(day, hour), the northward wind is 0."""
    if 'cachedir' not in _w:
        import atexit

        import xarray as xr

        from .traj_common import load_config

        load_config()
        d = Path(tempfile.mkdtemp(prefix='c16c-'))
        atexit.register(shutil.rmtree, d, True)
        shape = (len(PAD_LEVELS), len(PAD_LATS), len(PAD_LONS))
        for day in (1, 2, 3):
            if day in (1, 2):
                # (WeatherCache.tla: the time axis of a file holds one step per hour from midnight; it need not cover the
                # whole day - day 2 ends at 12 h: hour h is step h whatever the length of the axis)
                nh = 24 if day == 1 else 13
                times = np.array([np.datetime64(f'2024-09-0{day}T00') + np.timedelta64(h, 'h') for h in range(nh)])
                u = np.stack([np.full(shape, 100.0 * day + h) for h in range(nh)])
                ds = xr.Dataset({'u': (('valid_time', 'pressure_level', 'latitude', 'longitude'), u), 'v': (('valid_time', 'pressure_level', 'latitude', 'longitude'), np.zeros_like(u)),
                                 't': (('valid_time', 'pressure_level', 'latitude', 'longitude'), np.full(u.shape, 220.0))},
                                coords={'valid_time': times, 'pressure_level': PAD_LEVELS, 'latitude': PAD_LATS[::-1], 'longitude': PAD_LONS})  # fmt: skip
            else:
                u = np.full(shape, 100.0 * day + 99)
                ds = xr.Dataset({'u': (('pressure_level', 'latitude', 'longitude'), u), 'v': (('pressure_level', 'latitude', 'longitude'), np.zeros_like(u)),
                                 't': (('pressure_level', 'latitude', 'longitude'), np.full(u.shape, 220.0))},
                                coords={'pressure_level': PAD_LEVELS, 'latitude': PAD_LATS[::-1], 'longitude': PAD_LONS})  # fmt: skip
            ds.to_netcdf(d / f'2024090{day}.nc')
            ds.close()
        _w['cachedir'] = d
    return _w['cachedir']


def run_history(seq):
    """One WeatherCache.tla behaviour on ONE Weather object: with zero airspeed the ground speed is the wind speed."""
    warnings.simplefilter('ignore')
    try:
        import pandas as pd

        from AEIC.trajectories.ground_track import GroundTrack
        from AEIC.types import Location
        from AEIC.utils.standard_atmosphere import altitude_from_pressure_isa_bada4
        from AEIC.weather import Weather

        w = Weather(data_dir=_cache_dir() if len(seq) % 2 == 0 else str(_cache_dir()))
        pt = GroundTrack.Point(Location(longitude=-74.5, latitude=40.5), 90.0)
        alt = float(altitude_from_pressure_isa_bada4(np.array([250.0 * 100.0]))[0])
        devs = []
        try:
            for i, q in enumerate(seq):
                # WeatherCache.tla: the instant lies anywhere inside its hour (Minutes) - the hour it belongs to is the one
                # that has begun, also at a quarter to the next one
                # (the minute is a function of day and hour within a history: a request that is repeated is the same instant)
                mm = (0, 45, 29, 59, 30)[(3 * q['d'] + q['h'] + len(seq)) % 5]
                when = pd.Timestamp(f'2024-09-0{q["d"]}T{q["h"]:02d}:{mm:02d}:00', tz='UTC')
                prev = [(x['d'], x['h']) for x in seq[:i]]
                try:
                    gs = w.get_ground_speed(time=when, gt_point=pt, altitude=alt, true_airspeed=0.0, azimuth=90.0)
                except (FileNotFoundError, ValueError) as e:
                    if not q.get('refused'):
                        devs.append((f'weather-cache:raised-{type(e).__name__}', f'query (day {q["d"]}, hour {q["h"]}) after {prev} on one Weather object raised {type(e).__name__}: {e}'))
                        break
                    continue
                if q.get('refused'):
                    devs.append(('weather-cache:missing-day-not-refused', f'query (day {q["d"]}, hour {q["h"]}: no weather file for that day) after {prev} on one Weather object returned ground speed {gs:.1f}; specification: refused'))
                    break
                if abs(gs - q['wind']) > 1e-6:
                    devs.append(('weather-cache:history-dependent', f'query (day {q["d"]}, hour {q["h"]}) after {prev} on one Weather object used wind {gs:.1f}; the file for that day and hour holds {q["wind"]}'))
                    break
        finally:
            if w._main_ds is not None:
                w._main_ds.close()
        return devs
    except Exception as e:
        import traceback

        return [('machinery', f'{type(e).__name__}: {e}\n{traceback.format_exc()}')]


def run(ctx: Ctx):
    from .store_replay import pmap

    ctx.rule = (
        'cases (TLC-enumerated): 12 headings (cardinals and 3-4-5 directions) x airspeeds {100,200,250} x uniform winds from {0,+-15,+-20,+-25}^2 (1 764); '
        '4 spatially varying fields x 5 headings x 2x2 offsets x 27 half-lattice positions (2 160); 6 positions outside the domain, 6 exactly on its outermost latitude / longitude lines; every case with and without a valid_time axis; '
        'all 1 296 histories of 4 queries (3 days, one without time axis, x 2 hours) on one Weather object plus 128 histories with a refused request (day without a file) repeated (WeatherCache.tla); non-trivial = non-cardinal heading with non-zero wind / history with a change of day or hour'
    )
    ctx.assumptions += [
        'the vertical lattice is mapped to altitudes with the library\'s own altitude_from_pressure_isa_bada4 (round trip verified in C12)',
        'files are ERA5-shaped: pressure_level [hPa], latitude, longitude [, valid_time]; one padding node around the lattice keeps lattice nodes off the domain boundary',
    ]
    ctx.not_covered += ['accuracy of the altitude -> pressure-level conversion itself (a wrong but monotone formula shifts the query off the lattice node and is only caught by the level-varying fields)']
    if ctx.replay:
        rc = json.loads(Path(ctx.replay).read_text())['case']
        if 'history' in rc:
            for key, desc in run_history(rc['history']):
                ctx.violation(key, desc, rc)
            return
        cases = [rc['case']]
    else:
        tlc.check(ctx, 'geo/Wind', 'geo/MC_Wind.cfg', workers=8)
        cases = tlc.check(ctx, 'geo/WindGen', 'geo/Gen_Wind.cfg', workers=8)['emitted']
        ctx.exhaustive = True
        cases.sort(key=lambda k: (k['c']['kind'], str(k['c'].get('f')), k['c'].get('u', 0), k['c'].get('v', 0), k['c'].get('u0', 0), k['c'].get('v0', 0)))
    if not ctx.replay:
        tlc.check(ctx, 'geo/WeatherCache', 'geo/MC_WeatherCache.cfg', workers=8)
        seqs = tlc.check(ctx, 'geo/WeatherCacheGen', 'geo/Gen_WeatherCache.cfg', workers=8)['emitted']
        # a day without a weather file: refused, and refused again when the same request is repeated
        seqs += tlc.check(ctx, 'geo/WeatherCacheGen', 'geo/Gen_WeatherRepeat.cfg', workers=8)['emitted']
        for seq, devs in zip(seqs, pmap(run_history, seqs)):
            ctx.case_done(('history', seq), nontrivial=len({(q['d'], q['h']) for q in seq}) > 1)
            ctx.sample({'weather_query_history': [(q['d'], q['h'], q['wind']) for q in seq]}, limit=4)
            for key, desc in devs:
                if key == 'machinery':
                    raise MachineryError('weather worker failed: ' + desc)
                ctx.violation(key, desc, {'history': seq})
    elif 'history' in json.loads(Path(ctx.replay).read_text())['case']:
        for key, desc in run_history(json.loads(Path(ctx.replay).read_text())['case']['history']):
            ctx.violation(key, desc, {})
        return
    for case, devs in zip(cases, pmap(run_case, cases)):
        c = case['c']
        s5, c5 = DIRS[c['h'] - 1]
        ctx.case_done(c, nontrivial=(s5 != 0 and c5 != 0) and c['kind'] != 'outside')
        ctx.sample({'case': c, 'expect_gs2': case['o']['gs2'], 'wind': case['wind']}, limit=3)
        seen = set()
        for key, desc in devs:
            if key == 'machinery':
                raise MachineryError('weather worker failed: ' + desc)
            if key not in seen:
                seen.add(key)
                ctx.violation(key, desc, {'case': case})
