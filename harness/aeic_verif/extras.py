"""Specification modules beyond the listed properties (DESIGN.md section 10):
`./check extras` (or `./check X01`, `./check X02`).  They are not registered in
MANIFEST.json and never report under a listed property id.

X01  specs/extras/FieldSetRegistry.tla   FieldSet registry / digest / merge
X02  specs/extras/ThrustModes.tla        ThrustModeValues frozen / mutable machine
X03  specs/extras/TrajectoryPhases.tla   Trajectory flight-phase machine (set_phase / append / copy / interpolate)
X04  specs/extras/DimensionSets.tla      Dimensions value algebra (validity, add / remove, order, NetCDF names, abbreviations)
"""

from __future__ import annotations

import warnings

import numpy as np

from . import tlc
from .core import Ctx, MachineryError
from .store_replay import pmap

_n = [0]


def _defs(FM, Dimensions, Dimension):
    T = Dimensions(Dimension.TRAJECTORY)
    x = FM(description='x', units='u')
    y = FM(dimensions=T, description='y', units='u')
    y2 = FM(dimensions=T, description='y', units='other unit')
    z = FM(dimensions=T, field_type=np.int32, description='z', units='u')
    return {'D1': [('x', x), ('y', y)], 'D1p': [('y', y), ('x', x)], 'D2': [('x', x), ('y', y2)], 'D3': [('z', z)]}


def run_registry(hist):
    """One FieldSetRegistry.tla behaviour; registry names are made unique per behaviour."""
    warnings.simplefilter('ignore')
    try:
        from AEIC.storage import Dimension, Dimensions, FieldMetadata, FieldSet

        _n[0] += 1
        import os

        tag = f'x{os.getpid()}n{_n[0]}'
        real = {'a': f'vx_a_{tag}', 'b': f'vx_b_{tag}', '_u': f'_vx_u_{tag}'}
        defs = _defs(FieldMetadata, Dimensions, Dimension)
        digests = {}
        done = []
        for k, e in enumerate(hist):
            op, n, d, want = e['op'], e['n'], e['d'], e['res']
            got = None
            try:
                if op in ('register', 'private'):
                    try:
                        FieldSet(real[n], registered=(op == 'register'), **dict(defs[d]))
                        got = 'ok'
                    except ValueError as ex:
                        got = 'incompatible' if 'already exists' in str(ex) else ('underscore' if 'underscore' in str(ex) else f'ValueError: {ex}')
                elif op == 'known':
                    got = 'yes' if FieldSet.known(real[n]) else 'no'
                elif op == 'digest':
                    try:
                        dg = FieldSet.from_registry(real[n]).digest
                        # equal digests <=> equal (name, content class)
                        cls = want
                        if cls in digests and digests[cls] != dg:
                            got = f'digest changed for {cls}'
                        elif any(v == dg and c != cls for c, v in digests.items()):
                            got = 'digest collides with another name / content'
                        else:
                            digests[cls] = dg
                            got = want
                    except KeyError:
                        got = 'KeyError'
                elif op == 'merge':
                    try:
                        m = FieldSet.from_registry(real[n]).merge(FieldSet.from_registry(real[d]))
                        got = 'ok' if not FieldSet.known(m.fieldset_name) or m.fieldset_name in real.values() else 'merge result registered'
                    except ValueError:
                        got = 'overlap'
            except Exception as ex:
                got = f'raised {type(ex).__name__}: {ex}'
            done.append((op, n, d, got))
            if got != want:
                return [(f'registry:{op}:{want}->{str(got).split(":")[0]}', f'operation {k} {op}({n}, {d}) gave {got!r}; specification: {want!r}; history {done}')]
        return []
    except Exception as e:
        import traceback

        return [('machinery', f'{type(e).__name__}: {e}\n{traceback.format_exc()}')]


def run_thrust(hist):
    """One ThrustModes.tla behaviour on real ThrustModeValues objects."""
    warnings.simplefilter('ignore')
    try:
        from AEIC.performance.types import ThrustMode, ThrustModeValues

        M = {'idle': ThrustMode.IDLE, 'approach': ThrustMode.APPROACH, 'climb': ThrustMode.CLIMB, 'takeoff': ThrustMode.TAKEOFF}
        objs = {}
        done = []
        for k, e in enumerate(hist):
            op, i, m, v, want = e['op'], e['i'], e['m'], e['v'], e['res']
            try:
                if op == 'new_full':
                    objs[i] = ThrustModeValues(1.0, 1.0, 1.0, 1.0, mutable=bool(v))
                    got = 'ok'
                elif op == 'new_empty':
                    objs[i] = ThrustModeValues(mutable=bool(v))
                    got = 'ok'
                elif op == 'set':
                    try:
                        objs[i][M[m]] = float(v)
                        got = 'ok'
                    except TypeError:
                        got = 'frozen'
                elif op == 'freeze':
                    objs[i].freeze()
                    got = 'ok'
                elif op == 'copy':
                    objs[len(objs) + 1] = objs[i].copy(mutable=None if v == 0 else (v == 1))
                    got = 'ok'
                elif op == 'get':
                    got = str(int(objs[i][M[m]]))
                elif op == 'sum':
                    got = str(int(objs[i].sum()))
                else:
                    raise MachineryError(f'unknown op {op}')
            except MachineryError:
                raise
            except Exception as ex:
                got = f'raised {type(ex).__name__}: {ex}'
            done.append((op, i, m, v, got))
            if got != want:
                return [(f'thrustmodes:{op}:{want}->{str(got).split(":")[0]}', f'operation {k} {op}(obj {i}, {m}, {v}) gave {got!r}; specification: {want!r}; history {done}')]
        return []
    except Exception as e:
        import traceback

        return [('machinery', f'{type(e).__name__}: {e}\n{traceback.format_exc()}')]


def run_phases(hist):
    """One TrajectoryPhases.tla behaviour on a real Trajectory (the walk continues on copies)."""
    warnings.simplefilter('ignore')
    try:
        import contextlib
        import io

        from AEIC.storage import Dimension, FlightPhase
        from AEIC.trajectories.trajectory import BASE_FIELDS, Trajectory

        names = [n for n, f in BASE_FIELDS.items() if Dimension.POINT in f.dimensions]
        used = {1: 'n_idle_origin', 4: 'n_climb', 5: 'n_cruise', 6: 'n_descent'}
        t = Trajectory()
        done = []
        for k, e in enumerate(hist):
            op, a, b, want = e['op'], e['a'], e['b'], e['res']
            try:
                if op == 'set_phase':
                    try:
                        t.set_phase(FlightPhase(a))
                        got = 'ok'
                    except ValueError:
                        got = 'earlier'
                elif op == 'append':
                    try:
                        t.append(**{n: float(a) for n in names})
                        got = 'ok'
                    except ValueError as ex:
                        got = 'fixed' if 'fixed-size' in str(ex) else f'ValueError: {ex}'
                elif op == 'fix':
                    t.fix()
                    got = 'ok'
                elif op == 'copy_point':
                    try:
                        with contextlib.redirect_stdout(io.StringIO()):
                            t.copy_point(a, b)
                        got = 'ok'
                    except IndexError:
                        got = 'range'
                elif op == 'copy':
                    t = t.copy()
                    got = 'ok'
                elif op == 'interp':
                    ft = t.flight_time
                    t = t.interpolate_time((ft[:-1] + ft[1:]) / 2)
                    got = 'ok'
                elif op == 'counts':
                    got = {str(p): int(getattr(t, f)) for p, f in used.items()}
                    want = {str(p): int(v) for p, v in (want.items() if isinstance(want, dict) else enumerate(want, 1))}
                    other = {f.name: int(getattr(t, f.field_name)) for f in FlightPhase if int(f) not in used and int(getattr(t, f.field_name)) != 0}
                    if other:
                        got = f'unnamed phases counted: {other}'
                elif op == 'points':
                    vals = [float(x) for x in t.flight_time]
                    same = all([float(x) for x in getattr(t, n)] == vals for n in names)
                    got = [int(v) for v in vals] if same and all(v == int(v) for v in vals) and len(vals) == len(t) else f'fields disagree or non-integral: {vals}'
                    want = [int(v) for v in want]
                else:
                    raise MachineryError(f'unknown op {op}')
            except MachineryError:
                raise
            except Exception as ex:
                got = f'raised {type(ex).__name__}: {ex}'
            done.append((op, a, b, got))
            if got != want:
                return [(f'phases:{op}:{str(want)[:20]}->{str(got).split(":")[0][:30]}', f'operation {k} {op}({a}, {b}) gave {got!r}; specification: {want!r}; history {done}')]
        return []
    except Exception as e:
        import traceback

        return [('machinery', f'{type(e).__name__}: {e}\n{traceback.format_exc()}')]


def run_dims(hist):
    """One DimensionSets.tla behaviour on real Dimensions values."""
    warnings.simplefilter('ignore')
    try:
        from AEIC.storage import Dimension, Dimensions

        E = {d.dim_name: d for d in Dimension}
        cur = None
        done = []
        for k, e in enumerate(hist):
            op, a, want = e['op'], e['a'], e['res']
            before = None if cur is None else frozenset(cur.dims)
            try:
                if op == 'new':
                    try:
                        cur2 = Dimensions(*[E[n] for n in a])
                        got = 'ok'
                        cur = cur2
                    except ValueError:
                        got = 'refused'
                elif op in ('add', 'remove'):
                    try:
                        nxt = getattr(cur, op)(E[a])
                        got = 'ok'
                    except ValueError:
                        nxt, got = cur, 'refused'
                    if frozenset(cur.dims) != before:
                        got = f'{op} changed the value it was called on'
                    cur = nxt
                elif op == 'contains':
                    got = 'yes' if E[a] in cur else 'no'
                elif op == 'ordered':
                    got = [d.dim_name for d in cur.ordered]
                elif op == 'netcdf':
                    got = list(cur.netcdf)
                    back = Dimensions.from_dim_names(*(got + (['point'] if Dimension.POINT in cur else [])))
                    if back != cur or hash(back) != hash(cur):
                        got = f'names {got} do not lead back to {cur}'
                elif op == 'abbrev':
                    got = list(cur.abbrev)
                    if Dimensions.from_abbrev(cur.abbrev) != cur or str(cur) != f'Dimensions({cur.abbrev})':
                        got = f'abbreviation {cur.abbrev} does not lead back to {cur}'
                elif op == 'len':
                    got = [len(cur)]
                else:
                    raise MachineryError(f'unknown op {op}')
            except MachineryError:
                raise
            except Exception as ex:
                got = f'raised {type(ex).__name__}: {ex}'
            done.append((op, a, got))
            if got != want:
                return [(f'dims:{op}:{str(want)[:24]}->{str(got).split(":")[0][:30]}', f'operation {k} {op}({a}) gave {got!r}; specification: {want!r}; history {done}')]
        return []
    except Exception as e:
        import traceback

        return [('machinery', f'{type(e).__name__}: {e}\n{traceback.format_exc()}')]


def _replay(ctx, hists, fn, label):
    ctx.log(f'{label}: {len(hists)} behaviours')
    for h, devs in zip(hists, pmap(fn, hists)):
        ctx.case_done((label, h), nontrivial=True)
        if len(h) > 3:
            ctx.sample({label: [tuple(e.values()) for e in h]}, limit=1)
        for key, desc in devs:
            if key == 'machinery':
                raise MachineryError(f'{label} worker failed: ' + desc)
            ctx.violation(key, desc, {label: h})


def run_x01(ctx: Ctx):
    ctx.rule = 'every FieldSetRegistry.tla behaviour of length 3 (register / private / known / digest / merge over 3 names x 4 definitions) + random walks of length 12'
    ctx.assumptions += ['not a listed property: specification growth (DESIGN.md section 10)', 'registry names are made unique per behaviour (the registry is process-wide)']
    tlc.check(ctx, 'extras/FieldSetRegistry', 'extras/MC_FieldSetRegistry.cfg', workers=8)
    hs = tlc.check(ctx, 'extras/FieldSetRegistry', 'extras/Gen_FieldSetRegistry.cfg', workers=4)['emitted']
    hs += tlc.check(ctx, 'extras/FieldSetRegistry', 'extras/Sim_FieldSetRegistry.cfg', workers=1, simulate=f'num={300 if ctx.quick else 5000}', depth=16, seed=ctx.seed)['emitted']
    ctx.exhaustive = True
    _replay(ctx, hs, run_registry, 'registry')


def run_x02(ctx: Ctx):
    ctx.rule = 'every ThrustModes.tla behaviour of length 4 (new / set / freeze / copy / get / sum on up to 3 objects)'
    ctx.assumptions += ['not a listed property: specification growth (DESIGN.md section 10)', 'objects are built with the 0- and 4-argument constructors and copy() only']
    tlc.check(ctx, 'extras/ThrustModes', 'extras/MC_ThrustModes.cfg', workers=8)
    hs = tlc.check(ctx, 'extras/ThrustModes', 'extras/Gen_ThrustModes.cfg', workers=4, sub=None if ctx.quick else {'D = 4': 'D = 5'})['emitted']
    ctx.exhaustive = True
    _replay(ctx, hs, run_thrust, 'thrustmodes')


def run_x03(ctx: Ctx):
    ctx.rule = 'every TrajectoryPhases.tla behaviour of length 3 + weighted random walks of length 16 (set_phase / append / fix / copy_point / copy / interpolate_time, counts and point values read back)'
    ctx.assumptions += ['not a listed property: specification growth (DESIGN.md section 10)', 'phases named by the walk: idle at origin, climb, cruise, descent; all other phase counts must stay 0', 'interpolation at the midpoints of consecutive flight times only']
    tlc.check(ctx, 'extras/TrajectoryPhases', 'extras/MC_TrajectoryPhases.cfg', workers=8)
    hs = tlc.check(ctx, 'extras/TrajectoryPhases', 'extras/Gen_TrajectoryPhases.cfg', workers=4)['emitted']
    hs += tlc.check(ctx, 'extras/TrajectoryPhases', 'extras/Sim_TrajectoryPhases.cfg', workers=1, simulate=f'num={400 if ctx.quick else 6000}', depth=20, seed=ctx.seed)['emitted']
    ctx.exhaustive = True
    _replay(ctx, hs, run_phases, 'phases')


def run_x04(ctx: Ctx):
    ctx.rule = 'every DimensionSets.tla behaviour of length 4 (5): construction from every subset of the four dimensions, then add / remove / contains / ordered / NetCDF names / abbreviation / len'
    ctx.assumptions += ['not a listed property: specification growth (DESIGN.md section 10)']
    tlc.check(ctx, 'extras/DimensionSets', 'extras/MC_DimensionSets.cfg', workers=8)
    hs = tlc.check(ctx, 'extras/DimensionSets', 'extras/Gen_DimensionSets.cfg', workers=4, sub=None if ctx.quick else {'D = 4': 'D = 5'})['emitted']
    ctx.exhaustive = True
    _replay(ctx, hs, run_dims, 'dims')


EXTRAS = {'X01': run_x01, 'X02': run_x02, 'X03': run_x03, 'X04': run_x04}
