"""Specification modules beyond the listed properties (DESIGN.md section 10):
`./check extras` (or `./check X01`, `./check X02`).  They are not registered in
MANIFEST.json and never report under a listed property id.

X01  specs/extras/FieldSetRegistry.tla   FieldSet registry / digest / merge
X02  specs/extras/ThrustModes.tla        ThrustModeValues frozen / mutable machine
X03  specs/extras/TrajectoryPhases.tla   Trajectory flight-phase machine (set_phase / append / copy / interpolate)
X04  specs/extras/DimensionSets.tla      Dimensions value algebra (validity, add / remove, order, NetCDF names, abbreviations)
X05  specs/extras/OpenRules.tla          opening a trajectory file with associated files (decision table)
"""

from __future__ import annotations

import warnings

import numpy as np

from . import tlc
from .core import Ctx, MachineryError
from .store_replay import pmap

_n = [0]


def _defs(FM, Dimensions, Dimension):
    T = Dimensions(Dimension.TRAJECTORY)
    x = FM(description='x', units='u')
    y = FM(dimensions=T, description='y', units='u')
    y2 = FM(dimensions=T, description='y', units='other unit')
    z = FM(dimensions=T, field_type=np.int32, description='z', units='u')
    return {'D1': [('x', x), ('y', y)], 'D1p': [('y', y), ('x', x)], 'D2': [('x', x), ('y', y2)], 'D3': [('z', z)]}


def run_registry(hist):
    """One FieldSetRegistry.tla behaviour; registry names are made unique per behaviour."""
    warnings.simplefilter('ignore')
    try:
        from AEIC.storage import Dimension, Dimensions, FieldMetadata, FieldSet

        _n[0] += 1
        import os

        tag = f'x{os.getpid()}n{_n[0]}'
        real = {'a': f'vx_a_{tag}', 'b': f'vx_b_{tag}', '_u': f'_vx_u_{tag}'}
        defs = _defs(FieldMetadata, Dimensions, Dimension)
        digests = {}
        done = []
        for k, e in enumerate(hist):
            op, n, d, want = e['op'], e['n'], e['d'], e['res']
            got = None
            try:
                if op in ('register', 'private'):
                    try:
                        FieldSet(real[n], registered=(op == 'register'), **dict(defs[d]))
                        got = 'ok'
                    except ValueError as ex:
                        got = 'incompatible' if 'already exists' in str(ex) else ('underscore' if 'underscore' in str(ex) else f'ValueError: {ex}')
                elif op == 'known':
                    got = 'yes' if FieldSet.known(real[n]) else 'no'
                elif op == 'digest':
                    try:
                        dg = FieldSet.from_registry(real[n]).digest
                        # equal digests <=> equal (name, content class)
                        cls = want
                        if cls in digests and digests[cls] != dg:
                            got = f'digest changed for {cls}'
                        elif any(v == dg and c != cls for c, v in digests.items()):
                            got = 'digest collides with another name / content'
                        else:
                            digests[cls] = dg
                            got = want
                    except KeyError:
                        got = 'KeyError'
                elif op == 'merge':
                    try:
                        m = FieldSet.from_registry(real[n]).merge(FieldSet.from_registry(real[d]))
                        got = 'ok' if not FieldSet.known(m.fieldset_name) or m.fieldset_name in real.values() else 'merge result registered'
                    except ValueError:
                        got = 'overlap'
            except Exception as ex:
                got = f'raised {type(ex).__name__}: {ex}'
            done.append((op, n, d, got))
            if got != want:
                return [(f'registry:{op}:{want}->{str(got).split(":")[0]}', f'operation {k} {op}({n}, {d}) gave {got!r}; specification: {want!r}; history {done}')]
        return []
    except Exception as e:
        import traceback

        return [('machinery', f'{type(e).__name__}: {e}\n{traceback.format_exc()}')]


def run_thrust(hist):
    """One ThrustModes.tla behaviour on real ThrustModeValues objects."""
    warnings.simplefilter('ignore')
    try:
        from AEIC.performance.types import ThrustMode, ThrustModeValues

        M = {'idle': ThrustMode.IDLE, 'approach': ThrustMode.APPROACH, 'climb': ThrustMode.CLIMB, 'takeoff': ThrustMode.TAKEOFF}
        objs = {}
        done = []
        for k, e in enumerate(hist):
            op, i, m, v, want = e['op'], e['i'], e['m'], e['v'], e['res']
            try:
                if op == 'new_full':
                    objs[i] = ThrustModeValues(1.0, 1.0, 1.0, 1.0, mutable=bool(v))
                    got = 'ok'
                elif op == 'new_empty':
                    objs[i] = ThrustModeValues(mutable=bool(v))
                    got = 'ok'
                elif op == 'set':
                    try:
                        objs[i][M[m]] = float(v)
                        got = 'ok'
                    except TypeError:
                        got = 'frozen'
                elif op == 'freeze':
                    objs[i].freeze()
                    got = 'ok'
                elif op == 'copy':
                    objs[len(objs) + 1] = objs[i].copy(mutable=None if v == 0 else (v == 1))
                    got = 'ok'
                elif op == 'get':
                    got = str(int(objs[i][M[m]]))
                elif op == 'sum':
                    got = str(int(objs[i].sum()))
                else:
                    raise MachineryError(f'unknown op {op}')
            except MachineryError:
                raise
            except Exception as ex:
                got = f'raised {type(ex).__name__}: {ex}'
            done.append((op, i, m, v, got))
            if got != want:
                return [(f'thrustmodes:{op}:{want}->{str(got).split(":")[0]}', f'operation {k} {op}(obj {i}, {m}, {v}) gave {got!r}; specification: {want!r}; history {done}')]
        return []
    except Exception as e:
        import traceback

        return [('machinery', f'{type(e).__name__}: {e}\n{traceback.format_exc()}')]


def run_species(hist):
    """One SpeciesMap.tla behaviour on real SpeciesValues objects."""
    warnings.simplefilter('ignore')
    try:
        from AEIC.types import Species, SpeciesValues

        objs, dicts = {}, {}
        done = []

        def obs(o):
            return {'keys': [k.name for k in o.keys()], 'n': len(o)}

        for k, e in enumerate(hist):
            op, i, j, sname, v, want = e['op'], e['i'], e['j'], e['s'], e['v'], e['res']
            try:
                if op == 'new':
                    objs[i] = SpeciesValues()
                    got = obs(objs[i])
                elif op == 'newd':
                    dicts[i] = {}
                    objs[i] = SpeciesValues(dicts[i])
                    got = obs(objs[i])
                elif op == 'share':
                    dicts[i] = dicts[j]
                    objs[i] = SpeciesValues(dicts[j])
                    got = obs(objs[i])
                elif op == 'dictset':
                    dicts[i][Species[sname]] = float(v)
                    got = obs(objs[i])
                elif op == 'set':
                    objs[i][Species[sname]] = float(v)
                    got = obs(objs[i])
                elif op == 'get':
                    sp = Species[sname]
                    inside = sp in objs[i]
                    try:
                        val = objs[i][sp]
                        got = {'found': True, 'v': int(val)}
                    except KeyError:
                        got = {'found': False, 'v': 0}
                    if inside != got['found']:
                        got = f'`in` says {inside}, indexing says {got["found"]}'
                elif op == 'update':
                    objs[i].update(objs[j])
                    got = obs(objs[i])
                elif op == 'eq':
                    a, b = objs[i] == objs[j], objs[j] == objs[i]
                    c_ = objs[i].isclose(objs[j])
                    got = {'equal': bool(a)} if (a == b == c_) else f'a == b is {a}, b == a is {b}, a.isclose(b) is {c_}'
                elif op == 'show':
                    got = obs(objs[i])
                    r = repr(objs[i])
                    if r != '<SpeciesValues: ' + ', '.join(got['keys']) + '>' or [x.name for x in objs[i]] != got['keys'] or len(list(objs[i].items())) != got['n']:
                        got = f'repr {r} / iteration {[x.name for x in objs[i]]} disagree with keys() {got["keys"]}'
                else:
                    raise MachineryError(f'unknown op {op}')
            except MachineryError:
                raise
            except Exception as ex:
                got = f'raised {type(ex).__name__}: {ex}'
            done.append((op, i, j, sname, v, got))
            if got != want:
                return [(f'speciesmap:{op}', f'operation {k} {op}(obj {i}, obj {j}, {sname}, {v}) gave {got!r}; specification: {want!r}; history {done}')]
        return []
    except Exception as e:
        import traceback

        return [('machinery', f'{type(e).__name__}: {e}\n{traceback.format_exc()}')]


HDR = 'id,ident,type,name,latitude_deg,longitude_deg,elevation_ft,continent,iso_country,iso_region,municipality,scheduled_service,gps_code,iata_code,local_code,home_link,wikipedia_link,keywords'


def run_airports(case):
    """One AirportLookup.tla case in a fresh process: main and patch file written, configuration loaded, every code asked."""
    import os
    import shutil
    import tempfile
    from pathlib import Path

    warnings.simplefilter('ignore')
    tmp = Path(tempfile.mkdtemp(prefix='x07-'))
    try:
        from .core import REPO

        def rows(rs, base):
            out = [HDR]
            for k, r in enumerate(rs):
                out.append(f'{base + k},X{k},small_airport,Row {r["tag"]},{r["tag"]}.5,{10 + r["tag"]}.25,{r["elev"]},NA,US,US-XX,Town {r["tag"]},no,X{k},{r["code"]},,,,')
            return '\n'.join(out) + '\n'

        (tmp / 'a' / 'airports').mkdir(parents=True)
        (tmp / 'b' / 'airports').mkdir(parents=True)
        (tmp / 'a' / 'airports' / 'airports.csv').write_text(rows(case['main'], 100))
        (tmp / 'b' / 'airports' / 'airports-patch.csv').write_text(rows(case['patch'], 200))
        os.environ['AEIC_PATH'] = str(tmp / 'b') + os.pathsep + str(REPO / 'tests' / 'data')
        from AEIC.config import Config
        from AEIC.utils import airports as ap

        Config.reset()
        Config.load(data_path_overrides=[tmp / 'a', REPO / 'tests' / 'data'])
        devs = []
        for code, want in case['ans'].items():
            try:
                a = ap.airport(code)
            except Exception as e:
                devs.append((f'airports:raised-{type(e).__name__}', f'airport({code!r}) raised {type(e).__name__}: {e}; main {case["main"]}, patch {case["patch"]}'))
                continue
            if a is None:
                got = {'known': False, 'tag': 0, 'haselev': False, 'elev': ''}
            else:
                tag = int(a.latitude)
                ok = a.iata_code == code and a.longitude == 10 + tag + 0.25 and a.name == f'Row {tag}' and a.municipality == f'Town {tag}' and a.country == 'US'
                got = {'known': True, 'tag': tag if ok else -1, 'haselev': a.elevation is not None, 'elev': '' if a.elevation is None else str(int(round(a.elevation / 0.3048)))}
                alt = a.position.altitude
                if abs(alt - (0.0 if a.elevation is None else a.elevation)) > 1e-9 or (a.elevation is not None and abs(a.elevation - float(want['elev'] or 0) * 0.3048) > 1e-9 and want['haselev']):
                    devs.append(('airports:altitude', f'airport({code!r}): elevation {a.elevation} m, position altitude {alt} m; elevation cell {want["elev"]!r} ft'))
            if got != want:
                devs.append(('airports:lookup', f'airport({code!r}) gave {got}; specification: {want}; main rows {case["main"]}, patch rows {case["patch"]}'))
        if ap.airport('ZZZ') is not None or ap.airport('') is not None:
            devs.append(('airports:unknown-code', f'airport("ZZZ") / airport("") answered {ap.airport("ZZZ")} / {ap.airport("")}; specification: None'))
        return devs
    except Exception as e:
        import traceback

        return [('machinery', f'{type(e).__name__}: {e}\n{traceback.format_exc()}')]
    finally:
        shutil.rmtree(tmp, ignore_errors=True)


def _spell(text, sp):
    return {'lower': text.lower(), 'upper': text.upper(), 'mixed': text[0].upper() + text[1:].lower() if len(text) > 1 else text.upper()}[sp]


def run_casefold(case):
    """One CaseFolding.tla case on a real CIBaseModel with a CIStrEnum field."""
    warnings.simplefilter('ignore')
    try:
        from pydantic import ValidationError

        from AEIC.utils.models import CIBaseModel, CIStrEnum

        if 'Level' not in _cf:
            class Level(CIStrEnum):
                LOW = 'low'
                HIGH = 'high'

            class Model(CIBaseModel):
                alpha: int
                beta: Level = Level.LOW

            _cf['Level'], _cf['Model'] = Level, Model
        Model = _cf['Model']
        data = {}
        for p in case['m']:
            key = _spell(p['name'], p['sp'])
            data.pop(key, None)   # a mapping keeps insertion order: naming a key again puts it last
            data[key] = _spell(p['e'], p['esp']) if p['name'] == 'beta' else p['v']
        want = case['r']
        # (two pairs with the same name AND spelling are one key of the mapping: the later value replaces the earlier)
        try:
            mobj = Model.model_validate(data)
            got = {'refused': False, 'alpha': int(mobj.alpha), 'beta': str(mobj.beta)}
            if mobj.beta.value != got['beta'] or type(mobj.beta).__name__ != 'Level':
                got['beta'] = f'{mobj.beta!r}'
        except ValidationError:
            got = {'refused': True, 'alpha': 0, 'beta': '-'}
        if got != want:
            return [('casefold:model', f'mapping {data} gave {got}; specification: {want} (pairs {case["m"]})')]
        return []
    except Exception as e:
        import traceback

        return [('machinery', f'{type(e).__name__}: {e}\n{traceback.format_exc()}')]


_cf: dict = {}


def run_phases(hist):
    """One TrajectoryPhases.tla behaviour on a real Trajectory (the walk continues on copies)."""
    warnings.simplefilter('ignore')
    try:
        import contextlib
        import io

        from AEIC.storage import Dimension, FlightPhase
        from AEIC.trajectories.trajectory import BASE_FIELDS, Trajectory

        names = [n for n, f in BASE_FIELDS.items() if Dimension.POINT in f.dimensions]
        used = {1: 'n_idle_origin', 4: 'n_climb', 5: 'n_cruise', 6: 'n_descent'}
        t = Trajectory()
        done = []
        for k, e in enumerate(hist):
            op, a, b, want = e['op'], e['a'], e['b'], e['res']
            try:
                if op == 'set_phase':
                    try:
                        t.set_phase(FlightPhase(a))
                        got = 'ok'
                    except ValueError:
                        got = 'earlier'
                elif op == 'append':
                    try:
                        t.append(**{n: float(a) for n in names})
                        got = 'ok'
                    except ValueError as ex:
                        got = 'fixed' if 'fixed-size' in str(ex) else f'ValueError: {ex}'
                elif op == 'fix':
                    t.fix()
                    got = 'ok'
                elif op == 'copy_point':
                    try:
                        with contextlib.redirect_stdout(io.StringIO()):
                            t.copy_point(a, b)
                        got = 'ok'
                    except IndexError:
                        got = 'range'
                elif op == 'copy':
                    t = t.copy()
                    got = 'ok'
                elif op == 'interp':
                    ft = t.flight_time
                    t = t.interpolate_time((ft[:-1] + ft[1:]) / 2)
                    got = 'ok'
                elif op == 'counts':
                    got = {str(p): int(getattr(t, f)) for p, f in used.items()}
                    want = {str(p): int(v) for p, v in (want.items() if isinstance(want, dict) else enumerate(want, 1))}
                    other = {f.name: int(getattr(t, f.field_name)) for f in FlightPhase if int(f) not in used and int(getattr(t, f.field_name)) != 0}
                    if other:
                        got = f'unnamed phases counted: {other}'
                elif op == 'points':
                    vals = [float(x) for x in t.flight_time]
                    same = all([float(x) for x in getattr(t, n)] == vals for n in names)
                    got = [int(v) for v in vals] if same and all(v == int(v) for v in vals) and len(vals) == len(t) else f'fields disagree or non-integral: {vals}'
                    want = [int(v) for v in want]
                else:
                    raise MachineryError(f'unknown op {op}')
            except MachineryError:
                raise
            except Exception as ex:
                got = f'raised {type(ex).__name__}: {ex}'
            done.append((op, a, b, got))
            if got != want:
                return [(f'phases:{op}:{str(want)[:20]}->{str(got).split(":")[0][:30]}', f'operation {k} {op}({a}, {b}) gave {got!r}; specification: {want!r}; history {done}')]
        return []
    except Exception as e:
        import traceback

        return [('machinery', f'{type(e).__name__}: {e}\n{traceback.format_exc()}')]


def run_dims(hist):
    """One DimensionSets.tla behaviour on real Dimensions values."""
    warnings.simplefilter('ignore')
    try:
        from AEIC.storage import Dimension, Dimensions

        E = {d.dim_name: d for d in Dimension}
        cur = None
        done = []
        for k, e in enumerate(hist):
            op, a, want = e['op'], e['a'], e['res']
            before = None if cur is None else frozenset(cur.dims)
            try:
                if op == 'new':
                    try:
                        cur2 = Dimensions(*[E[n] for n in a])
                        got = 'ok'
                        cur = cur2
                    except ValueError:
                        got = 'refused'
                elif op in ('add', 'remove'):
                    try:
                        nxt = getattr(cur, op)(E[a])
                        got = 'ok'
                    except ValueError:
                        nxt, got = cur, 'refused'
                    if frozenset(cur.dims) != before:
                        got = f'{op} changed the value it was called on'
                    cur = nxt
                elif op == 'contains':
                    got = 'yes' if E[a] in cur else 'no'
                elif op == 'ordered':
                    got = [d.dim_name for d in cur.ordered]
                elif op == 'netcdf':
                    got = list(cur.netcdf)
                    back = Dimensions.from_dim_names(*(got + (['point'] if Dimension.POINT in cur else [])))
                    if back != cur or hash(back) != hash(cur):
                        got = f'names {got} do not lead back to {cur}'
                elif op == 'abbrev':
                    got = list(cur.abbrev)
                    if Dimensions.from_abbrev(cur.abbrev) != cur or str(cur) != f'Dimensions({cur.abbrev})':
                        got = f'abbreviation {cur.abbrev} does not lead back to {cur}'
                elif op == 'len':
                    got = [len(cur)]
                else:
                    raise MachineryError(f'unknown op {op}')
            except MachineryError:
                raise
            except Exception as ex:
                got = f'raised {type(ex).__name__}: {ex}'
            done.append((op, a, got))
            if got != want:
                return [(f'dims:{op}:{str(want)[:24]}->{str(got).split(":")[0][:30]}', f'operation {k} {op}({a}) gave {got!r}; specification: {want!r}; history {done}')]
        return []
    except Exception as e:
        import traceback

        return [('machinery', f'{type(e).__name__}: {e}\n{traceback.format_exc()}')]


_fs = {}


def _open_rules_files():
    """The file system of OpenRules.tla, built once per worker process (removed at exit)."""
    if 'dir' in _fs:
        return _fs['dir']
    import atexit
    import shutil
    import tempfile
    from pathlib import Path

    from AEIC.storage import Dimension, Dimensions, FieldMetadata, FieldSet

    from .store_replay import _aeic, _register_extras, make_payload

    TS = _aeic()[0]
    _register_extras()
    T = Dimensions(Dimension.TRAJECTORY)
    for n, f in (('vo_a', 'qa'), ('vo_b', 'qb')):
        if not FieldSet.known(n):
            FieldSet(n, **{f: FieldMetadata(dimensions=T, field_type=np.int32, description=f, units='u')})
    d = Path(tempfile.mkdtemp(prefix='x05-'))
    atexit.register(shutil.rmtree, d, ignore_errors=True)

    class V:
        FIELD_SETS: list = []

        def __init__(self, **k):
            for a, b in k.items():
                setattr(self, a, b)

    def base(name, n, extras=False):
        ts = TS.create(base_file=d / name)
        for t in range(1, n + 1):
            ts.add(make_payload(t, 0, extras=extras))
        ts.close()

    def assoc(of, name, fsn, field, off):
        ts = TS.open(base_file=d / of)
        V.FIELD_SETS = [FieldSet.from_registry(fsn)]
        ts.create_associated(d / name, [fsn], lambda tr: V(**{field: off + len(tr)}))
        ts.close()

    base('B1.nc', 2), base('B2.nc', 3), base('BX.nc', 2, extras=True)
    assoc('B1.nc', 'A1.nc', 'vo_a', 'qa', 100), assoc('B2.nc', 'A2.nc', 'vo_a', 'qa', 200)
    assoc('BX.nc', 'AX.nc', 'vo_a', 'qa', 300), assoc('B1.nc', 'C1.nc', 'vo_b', 'qb', 400)
    _fs['dir'] = d
    return d


_REASONS = (('must be distinct', 'not_distinct'), ('does not exist', 'missing'), ('attributes missing', 'not_associated'), ('does not match hash of base', 'other_composition'))


def run_open(case):
    """One OpenRules.tla case on real files."""
    warnings.simplefilter('ignore')
    try:
        from .store_replay import _aeic, npoints_of

        TS = _aeic()[0]
        d = _open_rules_files()
        c, o = case['c'], case['o']
        what = f"open({c['base']}, associated {c['assoc']}, override={c['override']})"
        try:
            ts = TS.open(base_file=d / (c['base'] + '.nc'), associated_files=[d / (a + '.nc') for a in c['assoc']], override=bool(c['override']))
        except ValueError as e:
            got = next((r for t, r in _REASONS if t in str(e)), f'ValueError: {e}')
            return [] if got == o['verdict'] else [(f'open:{o["verdict"]}->{got.split(":")[0]}', f'{what} refused as {got!r}; specification: {o["verdict"]!r}')]
        except Exception as e:
            return [(f'open:raised-{type(e).__name__}', f'{what} raised {type(e).__name__}: {e}; specification: {o["verdict"]!r}')]
        try:
            if o['verdict'] != 'ok':
                return [(f'open:{o["verdict"]}->ok', f'{what} succeeded; specification: refused as {o["verdict"]!r}')]
            if len(ts) != len(o['reads']):
                return [('open:length', f'{what}: {len(ts)} trajectories; specification: {len(o["reads"])}')]
            for k, want in enumerate(o['reads']):
                n = npoints_of(k + 1, False)
                exp = {f: (None if w == 'absent' else (w if w == 'IndexError' else int(w) + n)) for f, w in want.items()}
                try:
                    t = ts[k]
                    got = {'a': getattr(t, 'qa', None), 'b': getattr(t, 'qb', None)}
                    got = {f: (None if v is None else int(v)) for f, v in got.items()}
                except IndexError:
                    got = 'IndexError'
                except Exception as e:
                    got = f'raised {type(e).__name__}: {e}'
                w = 'IndexError' if 'IndexError' in exp.values() else exp
                if got != w:
                    return [(f'open:read', f'{what}: trajectory {k} shows {got}; specification: {w}')]
            return []
        finally:
            ts.close()
    except Exception as e:
        import traceback

        return [('machinery', f'{type(e).__name__}: {e}\n{traceback.format_exc()}')]


def _replay(ctx, hists, fn, label):
    ctx.log(f'{label}: {len(hists)} behaviours')
    for h, devs in zip(hists, pmap(fn, hists)):
        ctx.case_done((label, h), nontrivial=True)
        if len(h) > 3:
            ctx.sample({label: [tuple(e.values()) for e in h]}, limit=1)
        for key, desc in devs:
            if key == 'machinery':
                raise MachineryError(f'{label} worker failed: ' + desc)
            ctx.violation(key, desc, {label: h})


def run_x01(ctx: Ctx):
    ctx.rule = 'every FieldSetRegistry.tla behaviour of length 3 (register / private / known / digest / merge over 3 names x 4 definitions) + random walks of length 12'
    ctx.assumptions += ['not a listed property: specification growth (DESIGN.md section 10)', 'registry names are made unique per behaviour (the registry is process-wide)']
    tlc.check(ctx, 'extras/FieldSetRegistry', 'extras/MC_FieldSetRegistry.cfg', workers=8)
    hs = tlc.check(ctx, 'extras/FieldSetRegistry', 'extras/Gen_FieldSetRegistry.cfg', workers=4)['emitted']
    hs += tlc.check(ctx, 'extras/FieldSetRegistry', 'extras/Sim_FieldSetRegistry.cfg', workers=1, simulate=f'num={300 if ctx.quick else 5000}', depth=16, seed=ctx.seed)['emitted']
    ctx.exhaustive = True
    _replay(ctx, hs, run_registry, 'registry')


def run_x02(ctx: Ctx):
    ctx.rule = 'every ThrustModes.tla behaviour of length 4 (new / set / freeze / copy / get / sum on up to 3 objects)'
    ctx.assumptions += ['not a listed property: specification growth (DESIGN.md section 10)', 'objects are built with the 0- and 4-argument constructors and copy() only']
    tlc.check(ctx, 'extras/ThrustModes', 'extras/MC_ThrustModes.cfg', workers=8)
    hs = tlc.check(ctx, 'extras/ThrustModes', 'extras/Gen_ThrustModes.cfg', workers=4, sub=None if ctx.quick else {'D = 4': 'D = 5'})['emitted']
    ctx.exhaustive = True
    _replay(ctx, hs, run_thrust, 'thrustmodes')


def run_x03(ctx: Ctx):
    ctx.rule = 'every TrajectoryPhases.tla behaviour of length 3 + weighted random walks of length 16 (set_phase / append / fix / copy_point / copy / interpolate_time, counts and point values read back)'
    ctx.assumptions += ['not a listed property: specification growth (DESIGN.md section 10)', 'phases named by the walk: idle at origin, climb, cruise, descent; all other phase counts must stay 0', 'interpolation at the midpoints of consecutive flight times only']
    tlc.check(ctx, 'extras/TrajectoryPhases', 'extras/MC_TrajectoryPhases.cfg', workers=8)
    hs = tlc.check(ctx, 'extras/TrajectoryPhases', 'extras/Gen_TrajectoryPhases.cfg', workers=4)['emitted']
    hs += tlc.check(ctx, 'extras/TrajectoryPhases', 'extras/Sim_TrajectoryPhases.cfg', workers=1, simulate=f'num={400 if ctx.quick else 6000}', depth=20, seed=ctx.seed)['emitted']
    ctx.exhaustive = True
    _replay(ctx, hs, run_phases, 'phases')


def run_x04(ctx: Ctx):
    ctx.rule = 'every DimensionSets.tla behaviour of length 4 (5): construction from every subset of the four dimensions, then add / remove / contains / ordered / NetCDF names / abbreviation / len'
    ctx.assumptions += ['not a listed property: specification growth (DESIGN.md section 10)']
    tlc.check(ctx, 'extras/DimensionSets', 'extras/MC_DimensionSets.cfg', workers=8)
    hs = tlc.check(ctx, 'extras/DimensionSets', 'extras/Gen_DimensionSets.cfg', workers=4, sub=None if ctx.quick else {'D = 4': 'D = 5'})['emitted']
    ctx.exhaustive = True
    _replay(ctx, hs, run_dims, 'dims')


def run_x05(ctx: Ctx):
    ctx.rule = 'every OpenRules.tla case: 2 base files x every list of 0..2 of 7 files (associated files of the same / another base, of another composition, a base file, a missing path) x override (228)'
    ctx.assumptions += ['not a listed property: specification growth (DESIGN.md section 10)', 'read mode only; the registry definitions are those the files were written with']
    tlc.check(ctx, 'extras/OpenRules', 'extras/MC_OpenRules.cfg', workers=4)
    cs = tlc.check(ctx, 'extras/OpenRules', 'extras/Gen_OpenRules.cfg', workers=1)['emitted']
    ctx.exhaustive = True
    ctx.log(f'open: {len(cs)} cases')
    for c, devs in zip(cs, pmap(run_open, cs, procs=4)):
        ctx.case_done(('open', c['c']), nontrivial=len(c['c']['assoc']) > 0)
        if len(c['c']['assoc']) == 2 and c['o']['verdict'] == 'ok':
            ctx.sample(c, limit=2)
        for key, desc in devs:
            if key == 'machinery':
                raise MachineryError('open worker failed: ' + desc)
            ctx.violation(key, desc, c)


def run_x06(ctx: Ctx):
    ctx.rule = 'every SpeciesMap.tla behaviour of length 4 (5): new / made from a dict the caller keeps / made from the dict of another object / written through the dict / set / get / update / == / keys-len-repr on up to 3 SpeciesValues objects over 3 species x 2 values'
    ctx.assumptions += ['not a listed property: specification growth (DESIGN.md section 10)', 'scalar values only']
    tlc.check(ctx, 'extras/SpeciesMap', 'extras/MC_SpeciesMap.cfg', workers=8)
    hs = tlc.check(ctx, 'extras/SpeciesMap', 'extras/Gen_SpeciesMap.cfg', workers=4, sub=None if ctx.quick else {'D = 4': 'D = 5'})['emitted']
    ctx.exhaustive = True
    _replay(ctx, hs, run_species, 'speciesmap')


def run_x07(ctx: Ctx):
    from .store_replay import fresh_map

    ctx.rule = 'every AirportLookup.tla case: main file of 0..3 rows x patch file of 0..2 rows (repeated codes, blank codes, 4 elevation cells) (2 028), each in a fresh process, every code asked'
    ctx.assumptions += ['not a listed property: specification growth (DESIGN.md section 10)', 'the table is read once per process (lazy module-level cache): one case per process']
    cs = tlc.check(ctx, 'extras/AirportLookup', 'extras/MC_AirportLookup.cfg', workers=4)['emitted']
    ctx.exhaustive = True
    ctx.log(f'airports: {len(cs)} cases')
    for c, devs in zip(cs, fresh_map(run_airports, cs)):
        ctx.case_done(('airports', c['main'], c['patch']), nontrivial=len(c['patch']) > 0)
        if len(c['main']) == 3 and len(c['patch']) == 2:
            ctx.sample(c, limit=1)
        for key, desc in devs:
            if key == 'machinery':
                raise MachineryError('airports worker failed: ' + desc)
            ctx.violation(key, desc, c)


def _weather_driver():
    """The harness's own driver: WeatherCache histories (incl. days without a file, repeated) run on one real Weather
    object each under the recorder -> traces."""
    import pandas as pd

    from . import plugin
    from .c16 import _cache_dir

    from AEIC.trajectories.ground_track import GroundTrack
    from AEIC.types import Location
    from AEIC.utils.standard_atmosphere import altitude_from_pressure_isa_bada4
    from AEIC.weather import Weather

    plugin.install(['weather'])
    pt = GroundTrack.Point(Location(longitude=-74.5, latitude=40.5), 90.0)
    alt = float(altitude_from_pressure_isa_bada4(np.array([250.0 * 100.0]))[0])
    seqs = [[(1, 6), (1, 6), (1, 18), (2, 12), (2, 6), (3, 6), (3, 18), (1, 18)],
            [(3, 6), (4, 6), (4, 6), (1, 6), (4, 12), (2, 12), (2, 12), (3, 12)],
            [(2, 12), (1, 18), (2, 12), (4, 18), (4, 18), (3, 6), (1, 6)]]
    out = []
    for si, seq in enumerate(seqs):
        plugin.start(f'driver-{si}')
        w = Weather(data_dir=_cache_dir())
        for d, h in seq:
            try:
                w.get_ground_speed(time=pd.Timestamp(f'2024-09-0{d}T{h:02d}:{(7 * d + h) % 60:02d}:00', tz='UTC'), gt_point=pt, altitude=alt, true_airspeed=0.0, azimuth=90.0)
            except (FileNotFoundError, ValueError):
                pass
        cur = plugin.stop()
        out.append({'t': f'driver-{si}', 'ev': cur.get('weather', [])})
        if w._main_ds is not None:
            w._main_ds.close()
    return out


def run_x08(ctx: Ctx):
    """code -> spec for the Weather cache: recorded executions validated by TLC against WeatherTrace.tla."""
    import copy

    from .c18 import record_repo_tests
    from .store_replay import fresh_map

    ctx.rule = 'every get_ground_speed call of tests/test_weather.py, of the two weather flights of tests/test_trajectory_simulation.py and of three driver histories (days with / without a time axis / without a file, repeated requests) as events of WeatherCache.tla, per Weather object; consecutive identical events are merged (stuttering)'
    ctx.assumptions += ['not a listed property: specification growth (DESIGN.md section 10)', 'the projected cache state (open day, sliced hour) is read from the object after each call by the recorder']
    got = record_repo_tests(['tests/test_weather.py', 'tests/test_trajectory_simulation.py::test_trajectory_simulation_weather', 'tests/test_trajectory_simulation.py::test_trajectory_simulation_outside_weather_domain'], 'weather')
    recs = list(got.get('weather', [])) + fresh_map(lambda _: _weather_driver(), [0])[0]
    traces = []
    for t in recs:
        by = {}
        for e in t['ev']:
            if e['op'] == 'recorder-error':
                raise MachineryError(f'weather recorder failed in {t["t"]}: {e["msg"]}')
            by.setdefault(e['obj'], []).append({k: v for k, v in e.items() if k != 'obj'})
        for k, evs in by.items():
            merged = [e for i, e in enumerate(evs) if i == 0 or e != evs[i - 1]]
            traces.append({'t': f'{t["t"]}|weather-object-{k}', 'ev': merged[:300]})
    ctx.log(f'weather: {len(traces)} traces, {sum(len(t["ev"]) for t in traces)} events')
    rej = tlc.validate_traces(ctx, 'geo/WeatherTrace', 'geo/WeatherTrace.cfg', traces)
    for r in rej:
        t = next(x for x in traces if x['t'] == r['t'])
        ctx.violation('weather-trace:rejected', f'recorded execution {r["t"]} is not a behaviour of WeatherCache.tla: event {r["matched"] + 1} of {r["total"]} ({t["ev"][r["matched"]] if r["matched"] < len(t["ev"]) else None}) after {t["ev"][max(0, r["matched"] - 2):r["matched"]]}', {'trace': t})
    for t in traces:
        ctx.case_done(('weather-trace', t['t']), nontrivial=len(t['ev']) > 1)
    ctx.traces_validated += len(traces)
    # the binding is live: a trace with one projected field falsified must be rejected
    long = max(traces, key=lambda t: len(t['ev']))
    bad = copy.deepcopy(long)
    bad['t'] += '|falsified'
    bad['ev'][-1]['uh'] = (bad['ev'][-1]['uh'] + 1) % 24
    if not tlc.validate_traces(ctx, 'geo/WeatherTrace', 'geo/WeatherTrace.cfg', [bad]):
        raise MachineryError('negative control failed: a weather trace with a falsified sliced hour was accepted')
    ctx.extra['negative_control'] = 'a recorded trace whose last sliced hour is falsified is rejected'


def run_x09(ctx: Ctx):
    ctx.rule = 'every CaseFolding.tla case: a mapping of 0..2 (name, value) pairs over 3 names x 3 spellings (one name no field of the model) with enumeration texts in 3 spellings (one text no member) (1 561), validated by a real CIBaseModel with a CIStrEnum field'
    ctx.assumptions += ['not a listed property: specification growth (DESIGN.md section 10)']
    cs = tlc.check(ctx, 'extras/CaseFolding', 'extras/MC_CaseFolding.cfg', workers=2)['emitted']
    ctx.exhaustive = True
    ctx.log(f'casefold: {len(cs)} cases')
    for c, devs in zip(cs, pmap(run_casefold, cs)):
        ctx.case_done(('casefold', c['m']), nontrivial=len(c['m']) > 1)
        if len(c['m']) == 2:
            ctx.sample(c, limit=1)
        for key, desc in devs:
            if key == 'machinery':
                raise MachineryError('casefold worker failed: ' + desc)
            ctx.violation(key, desc, c)


EXTRAS = {'X09': run_x09, 'X08': run_x08, 'X07': run_x07, 'X01': run_x01, 'X02': run_x02, 'X03': run_x03, 'X04': run_x04, 'X05': run_x05, 'X06': run_x06}
