"""C08 — lookup by flight identifier returns exactly the matching trajectory.

spec:    specs/store/Store.tla (idxTab / stale / DoReindex; AllOrNone,
         IdsDistinct, IndexFresh, LookupExact), specs/store/Merge.tla for
         merged stores (see c09).
binding: same TLC-generated histories as C07 (ids from {1,2,3,7} in any
         order, lookups of present and absent ids right after additions, in
         append sessions, after reopen); deviations on get_flight, on
         identifier-consistency refusals and on re-indexing at sync/close are
         reported here.
"""

from . import c07
from .store_checks import run_store


def run(ctx):
    ctx.rule = c07.RULE + '; C08 reports deviations of get_flight / identifier consistency / re-indexing'
    ctx.assumptions += ['flight-id lookup on in-memory (never saved) stores is not modelled', 'identifiers are distinct within a store (precondition of the property)']
    run_store(ctx, 'C08', seed_offset=8)
    from . import merge_checks

    merge_checks.run_merge(ctx, 'C08')
