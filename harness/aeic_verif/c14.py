"""C14 — mission queries return exactly the flight instances matching the filter.

spec:    specs/missions/Query.tla (Matches as the conjunction of all given
         conditions; Result = matches in departure order after offset/limit;
         count; direction-independent frequent pairs; legality of spatial
         mixes; EmptyFilterSelectsAll).
binding: the specification's universe (4 airports, 3 countries, 2 continents,
         5 flights, 29 instances over 14 days) is inserted into a database with
         the real schema; each TLC-enumerated case builds the real Filter /
         Query / CountQuery / FrequentFlightQuery, optionally builds its SQL
         beforehand, runs it 1-3 times through Database.__call__ and compares
         the instance-id sequences, counts and route tables.
"""

from __future__ import annotations

import atexit
import datetime as dt
import json
import random
import shutil
import tempfile
import warnings
from pathlib import Path

from . import tlc
from .core import Ctx, MachineryError
from .store_replay import pmap

# IATA codes have three letters (od_pair is split at position 3): specification name A1 <-> code AA1
AIR = {'AA1': ('US', 10.0, 10.0), 'AA2': ('US', 10.0, 20.0), 'AA3': ('CA', 30.0, 10.0), 'AA4': ('FR', -20.0, 50.0)}
CONT = {'US': 'NA', 'CA': 'NA', 'FR': 'EU'}
BOXES = {'B1': (5, 15, 5, 25), 'B2': (25, 35, 5, 15), 'B3': (-60, 60, 0, 180)}
FLIGHTS = [
    ('AA1', 'AA2', 500, 100, 'J', '738', [d for d in range(14) if d not in (5, 7, 11)], 480),
    ('AA2', 'AA1', 500, 150, 'J', '320', [0, 2, 4, 6, 8, 10, 12], 570),
    ('AA1', 'AA3', 2000, 200, 'F', '738', [0, 3, 6, 9, 12], 1439),
    ('AA3', 'AA4', 6000, 300, 'J', '77W', [1, 2], 0),
    ('AA4', 'AA1', 7000, 0, 'C', '320', [13], 720),
]
# Query.tla ValidityIsNotACondition: the validity period of a flight row is in LOCAL calendar dates of its origin; for the
# flight that leaves at 23:59 UTC (east of Greenwich: already the next day there) and the one that leaves at 00:00 UTC (west
# of it: still the day before) the period does not contain the UTC dates of all their departures
VALIDITY = {3: ('2019-03-05', '2019-03-18'), 4: ('2019-03-04', '2019-03-05')}
D0 = dt.date(2019, 3, 4)
T0 = int(dt.datetime(2019, 3, 4, tzinfo=dt.timezone.utc).timestamp())
DAY0 = (D0 - dt.date(1970, 1, 1)).days
_st = {}


def database():
    if 'db' in _st:
        return _st['db'], _st['ids']
    from AEIC.missions import Database
    from AEIC.missions.writable_database import WritableDatabase

    d = Path(tempfile.mkdtemp(prefix='c14-'))
    atexit.register(shutil.rmtree, d, True)
    path = d / 'q.sqlite'
    w = WritableDatabase(str(path))
    cur = w._conn.cursor()
    for c, k in CONT.items():
        cur.execute('INSERT INTO countries (code, name, continent) VALUES (?, ?, ?)', (c, c, k))
    aid = {}
    for i, (code, (ctry, lat, lon)) in enumerate(AIR.items(), start=11):
        cur.execute('INSERT INTO airports (id, iata_code, name, municipality, country, latitude, longitude, elevation) VALUES (?,?,?,?,?,?,?,?)', (i, code, code, code, ctry, lat, lon, 0.0))
        cur.execute('INSERT INTO airport_location_idx (id, min_latitude, max_latitude, min_longitude, max_longitude) VALUES (?,?,?,?,?)', (i, lat, lat, lon, lon))
        aid[code] = i
    rows = []
    for fi, (o, dd, dist, seats, svc, ac, days, minute) in enumerate(FLIGHTS, start=1):
        od = min(o, dd) + max(o, dd)
        cur.execute(
            'INSERT INTO flights (id, carrier, flight_number, origin, destination, day_of_week_mask, departure_time, arrival_time, arrival_day_offset, service_type, aircraft_type, engine_type, distance, seat_capacity, effective_from, effective_to, number_of_flights, od_pair) VALUES (?,?,?,?,?,?,?,?,?,?,?,?,?,?,?,?,?,?)',
            (100 + fi, 'XX', str(fi), aid[o], aid[dd], 127, minute, minute, 0, svc, ac, '', float(dist) * DIST_UNIT, seats, *VALIDITY.get(fi, ('2019-03-04', '2019-03-17')), len(days), od),
        )
        for day in days:
            rows.append((fi, day, T0 + (day * 1440 + minute) * 60))
    random.Random(7).shuffle(rows)  # schedule ids must not follow departure order
    ids = {}
    for k, (fi, day, ts) in enumerate(rows, start=1000):
        cur.execute('INSERT INTO schedules (id, departure_timestamp, arrival_timestamp, day, flight_id) VALUES (?,?,?,?,?)', (k, ts, ts + 3600, DAY0 + ts // 86400 - T0 // 86400, 100 + fi))
        ids[(fi, day)] = k
    w.commit()
    w.index()
    w.close()
    _st['db'], _st['ids'], _st['path'] = Database(str(path)), ids, str(path)
    return _st['db'], ids


# Query.tla DistanceUnit: the specification's distances are in statute miles, the database (like the OAG import) holds
# kilometres = miles x 1.609344 - real, hardly ever integral - and so are the limits of a filter: a flight whose distance
# EQUALS a limit is selected
DIST_UNIT = 1.609344


def build_filter(f):
    from AEIC.missions import BoundingBox, Filter

    kw = {}
    if f['dist'][0] > 0:
        kw['min_distance'] = f['dist'][0] * DIST_UNIT
    if f['dist'][1] < 9999:
        kw['max_distance'] = f['dist'][1] * DIST_UNIT
    if f['seats'][0] > 0:
        kw['min_seat_capacity'] = f['seats'][0]
    if f['seats'][1] < 9999:
        kw['max_seat_capacity'] = f['seats'][1]
    one = lambda v: v[0] if len(v) == 1 else list(v)  # noqa: E731
    if f['svc']:
        kw['service_type'] = one(f['svc'])
    if f['acft']:
        kw['aircraft_type'] = one(f['acft'])
    for role, prefix in (('comb', ''), ('orig', 'origin_'), ('dest', 'destination_'), ('orig2', 'origin_')):
        s = f[role]
        if s['kind'] == 'none':
            continue
        if s['kind'] == 'bbox':
            b = BOXES[s['vals'][0]]
            kw[prefix + 'bounding_box'] = BoundingBox(min_latitude=b[0] + 0.001, max_latitude=b[1] - 0.001, min_longitude=b[2] + 0.001, max_longitude=(b[3] - 0.001) if b[3] != 180 else 180.0)   # the edge of the map is given as it is
        else:
            kw[prefix + s['kind']] = one(['A' + v if s['kind'] == 'airport' else v for v in s['vals']])
    has = bool(kw)
    # Query.tla TypeForms: an unrestricted service / aircraft type condition may be left out or written as an empty
    # list - it means the same.  One form per filter, chosen deterministically from its content.
    if sum(map(ord, json.dumps(f, sort_keys=True))) % 2 == 1:
        if not f['svc']:
            kw['service_type'] = []
        if not f['acft']:
            kw['aircraft_type'] = []
    return Filter(**kw), has


def run_case(case):
    warnings.simplefilter('ignore')
    try:
        from AEIC.missions import CountQuery, FrequentFlightQuery, Query

        db, ids = database()
        f, q = case['f'], case['q']
        label = f'filter {({k: v for k, v in f.items() if v not in ([0, 9999], [], {"kind": "none", "vals": []})})} query {q} ({case["pre"]} prior to_sql, {case["runs"]} runs)'
        devs = []
        day = lambda n: D0 + dt.timedelta(days=n)  # noqa: E731
        qkw = {}
        if q['start'] >= 0:
            qkw['start_date'] = day(q['start'])
        if q['end'] >= 0:
            qkw['end_date'] = day(q['end'])
        xkw = dict(qkw)
        if q['nth'] != 1 or (case['pre'] + case['runs']) % 2:
            xkw['every_nth'] = q['nth']
        if q['limit'] >= 0:
            xkw['limit'] = q['limit']
        if q['offset'] >= 0:
            xkw['offset'] = q['offset']
        want = [ids[(i[0], i[1])] for i in case['result']]
        try:
            flt, populated = build_filter(f)
            # an unpopulated filter is passed as a Filter() object every other time, else as None
            use = flt if (populated or (q['start'] + q['limit']) % 2 == 0) else None
            query = Query(filter=use, **xkw)
            for _ in range(case['pre']):
                query.to_sql()
            outs = [[r.id for r in db(query)] for _ in range(case['runs'])]
            refused = False
        except ValueError as e:
            refused, err = True, str(e)
        except Exception as e:
            return [(f'query-raised-{type(e).__name__}:{"empty-filter" if not build_filter(f)[1] else "filter"}', f'{label}: {type(e).__name__}: {e}')]
        if refused != (not case['legal']):
            if refused:
                return [(f'legal-query-refused:{"empty-filter" if not build_filter(f)[1] else "filter"}', f'{label}: refused ({err}); specification: {len(want)} instances')]
            return [('illegal-combination-accepted', f'{label}: accepted; specification: refused (illegal mix of spatial filters / offset without limit)')]
        if refused:
            return []
        for k, out in enumerate(outs):
            if out != want:
                extra, missing = [x for x in out if x not in want], [x for x in want if x not in out]
                kind = 'order-or-window' if not extra and not missing else ('extra-instances' if extra and not missing else ('missing-instances' if missing and not extra else 'wrong-instances'))
                rep = '' if k == 0 else f':run-{k + 1}'
                devs.append((f'query:{kind}{rep}', f'{label}: run {k + 1} returned {len(out)} instances {out[:6]}...; specification: {len(want)} {want[:6]}... (extra {extra[:4]}, missing {missing[:4]})'))
                break
        # count and frequent-route queries under the same filter and dates
        try:
            flt2, _ = build_filter(f)
            cq = CountQuery(filter=flt2, **qkw)
            cnts = [db(cq) for _ in range(case['runs'])]
            if any(c != case['count'] for c in cnts):
                devs.append(('count', f'{label}: CountQuery returned {cnts}; specification: {case["count"]}'))
            fq = FrequentFlightQuery(filter=flt2, **qkw)
            for _ in range(case['pre']):
                fq.to_sql()
            fr = [(r.airport1, r.airport2, r.number_of_flights) for r in db(fq)]
            wantf = sorted((('A' + p[0][0], 'A' + p[0][1], p[1]) for p in case['frequent']), key=lambda x: -x[2])
            if sorted(fr) != sorted(wantf):
                devs.append(('frequent:pairs-or-counts', f'{label}: frequent routes {fr}; specification: {wantf}'))
            elif [x[2] for x in fr] != sorted((x[2] for x in fr), reverse=True):
                devs.append(('frequent:not-descending', f'{label}: frequent routes not in descending order: {fr}'))
            if q['limit'] == -1 and q['offset'] == -1 and q['nth'] == 1:
                sq = Query(filter=build_filter(f)[0], sample=1.0, **qkw)
                got = [r.id for r in db(sq)]
                if got != want:
                    devs.append(('sample:p1-not-all', f'{label}: sample=1.0 returned {len(got)} of {len(want)}'))
                sq = Query(filter=build_filter(f)[0], sample=0.5, **qkw)
                got = [r.id for r in db(sq)]
                if not set(got) <= set(want) or got != [x for x in want if x in set(got)]:
                    devs.append(('sample:not-a-subset', f'{label}: sample=0.5 returned instances outside the result or out of order'))
        except Exception as e:
            devs.append((f'count-or-frequent-raised-{type(e).__name__}:{"empty-filter" if not build_filter(f)[1] else "filter"}', f'{label}: {type(e).__name__}: {e}'))
        return devs
    except Exception as e:
        import traceback

        return [('machinery', f'{type(e).__name__}: {e}\n{traceback.format_exc()}')]


def make_query(f, q, count=False):
    from AEIC.missions import CountQuery, Query

    day = lambda n: D0 + dt.timedelta(days=n)  # noqa: E731
    kw = {}
    if q['start'] >= 0:
        kw['start_date'] = day(q['start'])
    if q['end'] >= 0:
        kw['end_date'] = day(q['end'])
    flt, _ = build_filter(f)
    if count:
        return CountQuery(filter=flt, **kw)
    if q['nth'] != 1:
        kw['every_nth'] = q['nth']
    if q['limit'] >= 0:
        kw['limit'] = q['limit']
    if q['offset'] >= 0:
        kw['offset'] = q['offset']
    return Query(filter=flt, **kw)


def run_session(sess):
    """One QuerySession.tla behaviour on one real Database object: result
    generators are consumed row by row in the interleaving of the behaviour."""
    warnings.simplefilter('ignore')
    try:
        from AEIC.missions import Database

        db0, ids = database()
        db = Database(_st['path'])
        pal, hist = sess['pal'], sess['hist']
        gens = {}
        done = []
        try:
            for k, e in enumerate(hist):
                p = pal[e['qi'] - 1]
                if e['op'] == 'open':
                    qobj = make_query(p['f'], p['q'])
                    gens[e['s']] = iter(db(qobj))
                    # QuerySession.tla QueriesAreValues: the stream answers the query AS IT WAS PUT - every second time the
                    # caller re-uses the query object for the next page / another question before reading the first row
                    if k % 2 == 1:
                        qobj.limit, qobj.offset = 1, 1
                        qobj.every_nth = None
                    done.append(('open', e['s'], e['qi']))
                    continue
                if e['op'] == 'count':
                    got = db(make_query(p['f'], p['q'], count=True))
                    want = e['v'][0]
                    done.append(('count', e['qi'], got))
                else:
                    try:
                        r = next(gens[e['s']], None)
                    except Exception as ex:
                        return [(f'session:next-raised-{type(ex).__name__}', f'operation {k} (next on stream {e["s"]}, query {e["qi"]}) after {done} raised {type(ex).__name__}: {ex}')]
                    got = None if r is None else r.id
                    want = None if e['v'][1] == -1 else ids[(e['v'][0], e['v'][1])]
                    done.append(('next', e['s'], got))
                if got != want:
                    return [(f'session:{e["op"]}', f'operation {k} ({e["op"]} on stream {e["s"]}, palette query {e["qi"]}) returned {got}; specification: {want}; operations so far on this Database object: {done}')]
            return []
        finally:
            for g in gens.values():
                close = getattr(g, 'close', None)
                if close:
                    close()
    except Exception as e:
        import traceback

        return [('machinery', f'{type(e).__name__}: {e}\n{traceback.format_exc()}')]


def shipped_db_checks(ctx):
    """Second tier on the shipped test database: the same predicate evaluated in
    Python over the joined tables for a handful of filter shapes, plus the
    binomial band for sampling."""
    import math
    import sqlite3

    from AEIC.missions import CountQuery, Database, Filter, Query

    from .traj_common import TEST_DATA

    path = TEST_DATA / 'missions' / 'oag-2019-test-subset.sqlite'
    if not path.exists():
        return
    con = sqlite3.connect(path)
    rows = con.execute(
        'SELECT s.id, s.departure_timestamp, f.distance, f.seat_capacity, f.service_type, f.aircraft_type, ao.iata_code, ad.iata_code, ao.country, ad.country '
        'FROM schedules s JOIN flights f ON f.id = s.flight_id JOIN airports ao ON f.origin = ao.id JOIN airports ad ON f.destination = ad.id'
    ).fetchall()
    con.close()
    ctx.extra['shipped_db_instances'] = len(rows)
    with Database(str(path)) as db:
        shapes = [
            (dict(), lambda r: True),
            (dict(min_distance=1000, max_distance=3000), lambda r: 1000 <= r[2] <= 3000),
            (dict(country='US', min_seat_capacity=150), lambda r: (r[8] == 'US' or r[9] == 'US') and r[3] >= 150),
            (dict(origin_country='US', destination_country='GB'), lambda r: r[8] == 'US' and r[9] == 'GB'),
            (dict(airport=['LHR', 'JFK'], service_type='J'), lambda r: (r[6] in ('LHR', 'JFK') or r[7] in ('LHR', 'JFK')) and r[4] == 'J'),
        ]
        for kw, pred in shapes:
            want = sorted((r for r in rows if pred(r)), key=lambda r: r[1])
            try:
                got = [(x.id, int(x.departure.timestamp())) for x in db(Query(filter=Filter(**kw) if kw else Filter()))]
                cnt = db(CountQuery(filter=Filter(**kw) if kw else None))
            except Exception as e:
                ctx.violation(f'shipped-db:raised-{type(e).__name__}:{"empty-filter" if not kw else "filter"}', f'filter {kw} on the shipped database: {type(e).__name__}: {e}', {'shipped': kw})
                continue
            ctx.case_done({'shipped': kw})
            if sorted(g[0] for g in got) != sorted(r[0] for r in want) or [g[1] for g in got] != sorted(g[1] for g in got):
                ctx.violation('shipped-db:wrong-instances', f'filter {kw}: {len(got)} instances; predicate over the joined tables gives {len(want)}', {'shipped': kw})
            if cnt != len(want):
                ctx.violation('shipped-db:count', f'filter {kw}: count {cnt}; {len(want)} instances match', {'shipped': kw})
            n = len(want)
            if n >= 400:
                p = 0.3
                k = len(list(db(Query(filter=Filter(**kw) if kw else None, sample=p))))
                sd = math.sqrt(n * p * (1 - p))
                if abs(k - n * p) > 6 * sd:
                    ctx.violation('shipped-db:sample-size', f'filter {kw}: sample={p} of {n} returned {k} (6-sigma band {n * p - 6 * sd:.0f}..{n * p + 6 * sd:.0f})', {'shipped': kw})


def run(ctx: Ctx):
    ctx.rule = (
        'cases (TLC-enumerated): every filter with at most 2 populated parts out of distance range (7) x seat range (4) x service (4) x aircraft (4) x spatial (55 incl. every '
        'kind on origin / destination / either end, legal and illegal mixes) with default query parameters; 4 filters x all start/end/every-nth/limit/offset combinations; '
        're-execution cases (0-2 prior SQL builds, 2-3 runs); random sessions of 24 operations (open a result / fetch one row of any open result / count) over 6 queries on one Database object; plus 5 filter shapes and the sampling band on the shipped test database; non-trivial = at least one populated filter part or non-default query parameter'
    )
    ctx.assumptions += [
        'generated database: 4 airports / 3 countries / 2 continents / 5 flights / 26 instances over 14 days (three days without any departure), unique departure instants, schedule ids shuffled',
        'bounding-box edges are kept 0.001 degrees away from airport coordinates (32-bit R-tree)',
        'empty lists as filter values are not generated; sampling is only checked for subset/order, p = 1, and a 6-sigma size band on the shipped database',
    ]
    if ctx.replay:
        case = json.loads(Path(ctx.replay).read_text())['case']
        if 'f' in case:
            for key, desc in run_case(case):
                ctx.violation(key, desc, case)
        if 'hist' in case:
            for key, desc in run_session(case):
                ctx.violation(key, desc, case)
        return
    tlc.check(ctx, 'missions/Query', 'missions/MC_Query.cfg', workers=16, timeout=1800)
    cases = tlc.check(ctx, 'missions/QueryGen', 'missions/Gen_Query.cfg', workers=8, timeout=1800)['emitted']
    ctx.exhaustive = True
    ctx.log(f'running {len(cases)} query cases')
    for case, devs in zip(cases, pmap(run_case, cases)):
        ctx.case_done(case, nontrivial=case['q'] != {'start': -1, 'end': -1, 'nth': 1, 'limit': -1, 'offset': -1} or any(case['f'][k]['kind'] != 'none' for k in ('comb', 'orig', 'dest')))
        ctx.sample({'filter': case['f'], 'query': case['q'], 'expect_n': len(case['result']), 'count': case['count']}, limit=3)
        seen = set()
        for key, desc in devs:
            if key == 'machinery':
                raise MachineryError('query worker failed: ' + desc)
            if key not in seen:
                seen.add(key)
                ctx.violation(key, desc, case)
    # sessions: several lazily consumed results on one Database object
    tlc.check(ctx, 'missions/QuerySession', 'missions/MC_QuerySession.cfg', workers=1)
    neg = tlc.run('missions/QuerySession', 'missions/MC_QuerySession.cfg', sub={'Design = "isolated"': 'Design = "shared_cursor"', 'D = 3': 'D = 4'}, workers=1)
    if 'Invariant Isolation is violated' not in neg['out']:
        raise MachineryError('negative control failed: a cursor shared by all statements should violate Isolation')
    ctx.extra['negative_control'] = 'QuerySession with Design=shared_cursor violates Isolation (open, open, count, next) as expected'
    sess = tlc.check(ctx, 'missions/QuerySession', 'missions/Sim_QuerySession.cfg', workers=1, simulate=f'num={200 if ctx.quick else 4000}', depth=30, seed=ctx.seed)['emitted']
    ctx.log(f'running {len(sess)} query sessions (24 interleaved operations each)')
    for se, devs in zip(sess, pmap(run_session, sess)):
        ctx.case_done(('session', [(e['op'], e['s'], e['qi']) for e in se['hist']]), nontrivial=True)
        ctx.sample({'session': [(e['op'], e['s'], e['qi']) for e in se['hist']]}, limit=1)
        for key, desc in devs:
            if key == 'machinery':
                raise MachineryError('query session worker failed: ' + desc)
            ctx.violation(key, desc, se)
    from .traj_common import load_config

    load_config()
    shipped_db_checks(ctx)
