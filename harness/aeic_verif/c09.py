"""C09 — a merged store equals the concatenation of its input stores.

spec:    specs/store/Merge.tla (PartOf / LocalOf reading semantics, Valid,
         refusal rules), MergeGen.tla (every list of 1..3 input shapes, both
         input forms, associated stores).
binding: each generated case builds real input files, runs
         TrajectoryStore.merge, opens the merged directory and compares
         len(), every index (incl. every seam and one past the end),
         get_flight for every identifier and separately merged associated
         stores with the specification's (part, local index) map.
"""

from .merge_checks import run_merge


def run(ctx):
    ctx.rule = (
        'cases = every list of 1..3 input stores with sizes 1..2 (1..3 thorough), identified or not, field-set signature A or B, '
        'as explicit list and as numbered pattern, with and without associated stores (TLC-enumerated); '
        'non-trivial = more than one input, or refused, or fault injected'
    )
    ctx.assumptions += ['payloads distinguishable per (input, local index); flight ids descend within an input and across inputs so no table is accidentally sorted']
    run_merge(ctx, 'C09')
