"""C05 — gridded pieces land in the cells the path actually crosses.

spec:    specs/grid/GridSegment.tla (Pieces: cells in path order with exact
         length shares; CellsInBox, MonotoneCells, NoRepeatNeighbour),
         GridChain.tla (altitude / time cell and state value of the segment's
         start point), GridDateline.tla.
binding: see grid_checks.run_grid; C05 reports cell, order, share, axis-cell,
         state-value and array-length deviations.
"""

from .grid_checks import run_grid


def run(ctx):
    run_grid(ctx, 'C05')
