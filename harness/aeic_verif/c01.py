"""C01 — emissions inventory balances: totals equal parts, parts equal EI x fuel.

spec:    specs/emissions/Inventory.tla (segment burns, accounting window per
         climb/descent mode, LTO times-in-mode with approach/climb zeroing,
         APU, total fuel; FuelCountedOnce, TrajFuelBounded ...).
binding: every TLC-enumerated flight (integer fuel-mass profiles with zero-burn
         segments, every phase split incl. empty/total windows, both
         accounting modes, two LTO flow sets, APU absent/idle/running, GSE
         on/off) is realised as a Trajectory + performance model and run
         through the real compute_emissions under several option sets and all
         aircraft classes; integer-exact quantities (burns, window support,
         trajectory / LTO / APU / total fuel) are compared with the
         specification and the balance relations are evaluated on the returned
         indices and amounts.
"""

from __future__ import annotations

import json
import warnings
from pathlib import Path

import numpy as np

from . import tlc
from .core import Ctx, MachineryError
from .emis_common import GSE_NOMINAL_CO2, balance, close, fuel_obj, load_emis_config, model, nonzero, synthetic_traj
from .store_replay import fresh_map, pmap

OPTION_SETS = [
    {},
    {'sox': False, 'apu_force_off': True},
    {'nox': 'none', 'hc': 'none', 'co': 'none'},
    {'pmnvol': 'scope11', 'lifecycle': False},
    {'pmvol': 'none', 'pmnvol': 'none', 'h2o': False},
]
CLASSES = ['narrow', 'wide', 'small', 'freight']
MODES = ['idle', 'approach', 'climb', 'takeoff']


def _snapshot(em):
    """every amount of an inventory as plain numbers"""
    from AEIC.performance.types import ThrustMode

    out = {'fuel': float(em.total_fuel_burn), 'lifecycle': float(getattr(em, 'lifecycle_co2', 0.0) or 0.0)}
    for part in ('trajectory_emissions', 'trajectory_indices', 'apu_emissions', 'gse_emissions', 'total_emissions'):
        out[part] = {s.name: np.asarray(v, float).tolist() for s, v in getattr(em, part).items()}
    out['lto'] = {s.name: [float(v[m]) for m in ThrustMode] for s, v in em.lto_emissions.items()}
    return out


def run_case(job, keep=None):
    warnings.simplefilter('ignore')
    case, oi, aclass, fuelname = job
    try:
        from AEIC.emissions import compute_emissions
        from AEIC.performance.types import ThrustMode
        from AEIC.types import Species

        opts = dict(OPTION_SETS[oi]) if isinstance(oi, int) else dict(oi)
        force_apu_off = opts.pop('apu_force_off', False)
        cfgd = dict(opts, mode=case['mode'], gse=bool(case['gse']), apu=(case['apu'] != 'absent') and not force_apu_off)
        if fuelname == 'SAF':
            cfgd['lifecycle'] = False  # the shipped SAF file has no life-cycle CO2 value: that switch is refused for it
        load_emis_config(cfgd)
        fuel = fuel_obj(fuelname)
        # (InventoryGen.tla EdbForms: one form of the engine's nvPM data per flight)
        pm = model(case['flows'], case['apu'], aclass, case.get('modeorder', 'idle_first'), case.get('edb', 'reported'), case.get('ltoform', 'frozen'))
        traj = synthetic_traj(case['burn'], case['nc'], case['nd'], carrier=case.get('carrier', 'container'), profile=case.get('profile', 'high'))
        if case.get('ltoform') == 'mutable':
            # (the model has served a flight before this one: the same flight, so that the case is self-contained)
            try:
                compute_emissions(pm, fuel, traj)
            except Exception:
                pass
        try:
            em = compute_emissions(pm, fuel, traj)
        except Exception as e:
            return [(f'compute-raised-{type(e).__name__}', f'compute_emissions raised {type(e).__name__}: {e} under options {cfgd}')]
        if keep is not None:
            keep.append((em, _snapshot(em), cfgd, aclass, fuelname))
        devs = [(f'balance:{k}', f'{d} [options {cfgd}, class {aclass}]') for k, d in balance(em, fuel, cfgd)]
        n = case['n']
        burn = np.asarray(em.fuel_burn_per_segment, float)
        want_burn = np.array(case['burn'], float) / 1000.0
        if not np.allclose(burn, want_burn, rtol=1e-9, atol=1e-9):
            devs.append(('segment-burn', f'fuel burn per segment {burn.tolist()}; specification: {want_burn.tolist()}'))
        # window support: outside the accounting window nothing, inside the constant CO2 index
        if cfgd.get('co2', True) and Species.CO2 in em.trajectory_indices:
            idx = np.asarray(em.trajectory_indices[Species.CO2], float)
            for i in range(n):
                inside = bool(case['window'][i])
                if inside and idx[i] != fuel.EI_CO2:
                    devs.append(('window', f'point {i} is inside the {case["mode"]} accounting window (nc={case["nc"]}, nd={case["nd"]}, n={n}) but its CO2 index is {idx[i]}'))
                    break
                if not inside:
                    for s in em.trajectory_emissions.keys():
                        if em.trajectory_emissions[s][i] != 0 or em.trajectory_indices[s][i] != 0:
                            devs.append(('window', f'point {i} is outside the {case["mode"]} accounting window (nc={case["nc"]}, nd={case["nd"]}, n={n}) but carries {s.name}'))
                            break
        trajfuel = case['trajfuel'] / 1000.0
        ltofuel = {m: case['ltofuel'][m] / 1000.0 for m in MODES}
        # "trajectory+LTO CO2 and H2O equal the fuel's EI times trajectory+LTO fuel": an enabled species that is absent counts as zero
        for sname, on in (('CO2', cfgd.get('co2', True)), ('H2O', cfgd.get('h2o', True))):
            sp = Species[sname]
            if on and trajfuel + sum(ltofuel.values()) > 0 and (sp not in em.trajectory_emissions or sp not in em.lto_emissions):
                devs.append(('fuel-counted-once', f'{sname} is enabled but the trajectory / LTO part does not carry it: trajectory+LTO {sname} = 0; EI x (trajectory + LTO fuel {trajfuel + sum(ltofuel.values())} kg) is not'))
        if Species.CO2 in em.lto_emissions:
            for m in ThrustMode:
                got = float(em.lto_emissions[Species.CO2][m]) / fuel.EI_CO2
                if not close(got, ltofuel[m.value]):
                    devs.append(('lto-fuel', f'LTO {m.value} fuel {got} kg (from CO2); specification: {ltofuel[m.value]} kg in {case["mode"]} mode'))
            got = float(np.sum(em.trajectory_emissions[Species.CO2])) + float(sum(em.lto_emissions[Species.CO2][m] for m in ThrustMode))
            want = fuel.EI_CO2 * (trajfuel + sum(ltofuel.values()))
            if not close(got, want):
                devs.append(('fuel-counted-once', f'trajectory+LTO CO2 = {got}; EI_CO2 x (trajectory + LTO fuel) = {want} ({case["mode"]} mode)'))
        if Species.H2O in em.lto_emissions and Species.H2O in em.trajectory_emissions:
            got = float(np.sum(em.trajectory_emissions[Species.H2O])) + float(sum(em.lto_emissions[Species.H2O][m] for m in ThrustMode))
            want = fuel.EI_H2O * (trajfuel + sum(ltofuel.values()))
            if not close(got, want):
                devs.append(('fuel-counted-once', f'trajectory+LTO H2O = {got}; EI_H2O x fuel = {want}'))
        apu_fuel = (pm.apu.fuel_kg_per_s * 900.0) if (cfgd['apu'] and pm.apu is not None) else 0.0
        if case['apu'] == 'running' and cfgd['apu'] and not close(apu_fuel * 1000.0, case['apufuel_modelled']):
            devs.append(('apu-fuel', f'APU fuel {apu_fuel} kg; specification: {case["apufuel_modelled"] / 1000.0} kg'))
        gse_fuel = GSE_NOMINAL_CO2[aclass] / fuel.EI_CO2 if cfgd['gse'] else 0.0
        want_total = trajfuel + sum(ltofuel.values()) + apu_fuel + gse_fuel
        if not close(float(em.total_fuel_burn), want_total):
            devs.append(('total-fuel', f'total fuel burn {em.total_fuel_burn}; specification: trajectory {trajfuel} + LTO {sum(ltofuel.values())} + APU {apu_fuel} + GSE {gse_fuel} = {want_total}'))
        return devs
    except Exception as e:
        import traceback

        return [('machinery', f'{type(e).__name__}: {e}\n{traceback.format_exc()}')]


def run_session(jobs):
    """EmissionsSession.tla behaviour: the inventories of a session one after the other in this (freshly forked) process."""
    kept = []
    for k, job in enumerate(jobs):
        devs = run_case(job, keep=kept)
        if devs:
            earlier = [{**(j[1] if isinstance(j[1], dict) else OPTION_SETS[j[1]]), 'mode': j[0]['mode']} for j in jobs[:k]]
            return [(key if key == 'machinery' else f'session:{key}', f'inventory {k + 1} of a session (earlier in this process: {earlier}): {desc}') for key, desc in devs]
    # EmissionsSession.tla InventoriesAreKept: every inventory still holds what it held when it was returned
    for k, (em, snap, cfgd, aclass, fuelname) in enumerate(kept):
        now = _snapshot(em)
        if now != snap:
            diff = [f'{part}.{s}' for part in snap if isinstance(snap[part], dict) for s in set(snap[part]) | set(now.get(part, {})) if snap[part].get(s) != now.get(part, {}).get(s)] or [p_ for p_ in snap if snap[p_] != now.get(p_)]
            return [('session:held-inventory-changed', f'inventory {k + 1} of a session of {len(kept)} (class {aclass}, fuel {fuelname}, options {cfgd}) no longer holds the amounts it was returned with after the later computations (fuels {[x[4] for x in kept[k + 1:]]}): changed {sorted(diff)[:6]}')]
    return []


def run(ctx: Ctx):
    ctx.rule = (
        'flights = every integer fuel-mass profile of 2..4 points with segment burns in {0,1,2,5} kg x every phase split (nc, nd) x both accounting '
        'modes x 2 LTO flow sets x APU absent/idle/running x GSE on/off (27 456, TLC-enumerated), each handed over as the Trajectory container or as a plain object with float64 / whole-number integer arrays (one carrier per flight), each run under an option set and aircraft class '
        'chosen by seed (thorough: 5 option sets, 4 classes, 2 fuels round-robin over all); 256 sessions of two inventories under every ordered pair of CO2/H2O/SOx/mode switch settings, each session in a fresh process; non-trivial = zero-burn segment, empty or total window, or lto mode'
    )
    ctx.assumptions += [
        'altitude / airspeed / fuel-flow profiles come from two fixed lattices - one climbing through the stratosphere, one staying below 2.5 km - incl. zero / above-take-off fuel flows',
        'emission index values themselves are bound from the implementation (their correctness is C12)',
        'GSE fuel = nominal CO2 of the aircraft class / EI_CO2 is supplied by the harness',
    ]
    if ctx.replay:
        c = json.loads(Path(ctx.replay).read_text())['case']
        if 'session' in c:
            for key, desc in fresh_map(run_session, [[tuple(j) for j in c['session']]])[0]:
                ctx.violation(key, desc, c)
            return
        for key, desc in run_case((c['case'], c['opt'], c['aclass'], c['fuel'])):
            ctx.violation(key, desc, c)
        return
    tlc.check(ctx, 'emissions/InventoryGen', 'emissions/MC_Inventory.cfg')
    cases = tlc.check(ctx, 'emissions/InventoryGen', 'emissions/Gen_Inventory.cfg', workers=4)['emitted']
    ctx.rng.shuffle(cases)
    if ctx.quick:
        cases = cases[:8000]
    else:
        ctx.exhaustive = True
    # sessions: the balance of an inventory does not depend on what the process computed before.  Every ordered pair of
    # the 16 switch settings CO2 / H2O / SOx / accounting mode (EmissionsSession.tla), each pair in a freshly forked process
    tlc.check(ctx, 'emissions/EmissionsSession', 'emissions/MC_EmissionsSession.cfg', workers=4)
    sess_cfgs = tlc.check(ctx, 'emissions/EmissionsSession', 'emissions/Gen_EmissionsSession.cfg', workers=4)['emitted']
    by_mode = {m: [c for c in cases if c['mode'] == m and c['n'] >= 3] for m in ('trajectory', 'lto')}
    sessions = []
    for si, sc in enumerate(sess_cfgs):
        sj = []
        for k, e in enumerate(sc):
            cf = e['cfg']
            pool = by_mode[cf['mode']]
            sj.append((pool[(7 * si + k) % len(pool)], {'co2': cf['co2'], 'h2o': cf['h2o'], 'sox': cf['sox']}, CLASSES[si % 4], 'SAF' if (si + 2 * k) % 5 == 0 else 'conventional_jetA'))   # (the fuels of a session may differ)
        sessions.append(sj)
    load_emis_config({})
    model(), fuel_obj(), fuel_obj('SAF')
    ctx.log(f'computing {len(sessions)} sessions of 2 inventories, each in a fresh process')
    for sj, devs in zip(sessions, fresh_map(run_session, sessions)):
        ctx.case_done(('session', [(j[0]['mode'], j[1]) for j in sj]), nontrivial=True)
        seen = set()
        for key, desc in devs:
            if key == 'machinery':
                raise MachineryError('emissions session worker failed: ' + desc)
            if key not in seen:
                seen.add(key)
                ctx.violation(key, desc, {'session': [list(j) for j in sj]})
    jobs = []
    for i, c in enumerate(cases):
        jobs.append((c, i % len(OPTION_SETS), CLASSES[(i // 5) % 4], 'conventional_jetA' if i % 7 else 'SAF'))
    jobs.sort(key=lambda j: (j[1], j[3], j[0]['mode'], j[0]['gse'], j[0]['apu']))  # few config reloads per worker chunk
    ctx.log(f'computing {len(jobs)} inventories')
    for job, devs in zip(jobs, pmap(run_case, jobs)):
        c = job[0]
        nt = 0 in c['burn'][1:] or c['mode'] == 'lto' or c['nc'] + c['nd'] in (0, c['n'])
        ctx.case_done({'case': c, 'opt': job[1], 'aclass': job[2]}, nontrivial=nt)
        ctx.sample({'carrier': c.get('carrier'), 'altitude_profile': c.get('profile'), 'burn_g': c['burn'], 'nc': c['nc'], 'nd': c['nd'], 'mode': c['mode'], 'apu': c['apu'], 'gse': c['gse'], 'options': OPTION_SETS[job[1]], 'class': job[2]}, limit=3)
        seen = set()
        for key, desc in devs:
            if key == 'machinery':
                raise MachineryError('emissions worker failed: ' + desc)
            if key not in seen:
                seen.add(key)
                ctx.violation(key, desc, {'case': c, 'opt': job[1], 'aclass': job[2], 'fuel': job[3]})
