"""Recorder for the configuration singleton (ConfigTrace.tla events)."""

from __future__ import annotations

import functools
import tomllib

PATHS = {'uw': ('weather', 'use_weather'), 'sox': ('emissions', 'sox_enabled'), 'nox': ('emissions', 'nox_method'), 'wd': ('weather', 'weather_data_dir')}
_installed = False
_emit = None
_depth = 0


def norm(v, key=None):
    if key == 'weather_data_dir':
        # Config.tla values of wd: None, the packaged default directory, another directory
        if v is None:
            return 'null'
        name = str(v).rstrip('/').split('/')[-1]
        return {'weather': 'wdefault', 'weather_alt': 'walt'}.get(name, 'wother')
    if isinstance(v, bool):
        return 'true' if v else 'false'
    return str(getattr(v, 'value', v)).lower()


def observe():
    """(configured?, effective values on the tracked paths)."""
    from AEIC.config import core

    c = core._config
    if c is None:
        return False, {p: 'unset' for p in PATHS}
    vals = {}
    for p, (sec, key) in PATHS.items():
        try:
            vals[p] = norm(getattr(getattr(c, sec), key), key)
        except Exception:
            vals[p] = 'unreadable'
    return True, vals


def layer_of(d) -> dict:
    out = {}
    for p, (sec, key) in PATHS.items():
        v = 'absent'
        if isinstance(d, dict):
            for sk, sv in d.items():
                if isinstance(sk, str) and sk.lower() == sec and isinstance(sv, dict):
                    for kk, vv in sv.items():
                        if isinstance(kk, str) and kk.lower() == key:
                            v = norm(vv, key)
        out[p] = v
    return out


def _ev(op, ok, **kw):
    c, v = observe()
    e = {'op': op, 'ok': 'yes' if ok else 'no', 'c': c, 'v': v}
    e.update(kw)
    return e


def on_start():
    c, v = observe()
    _emit('config', {'op': 'probe', 'c': c, 'v': v})


def install(emit):
    global _installed, _emit
    _emit = emit
    if _installed:
        return
    _installed = True
    from AEIC.config import core
    from AEIC.config.core import Config, ConfigProxy
    from AEIC.config.emissions import EmissionsConfig
    from AEIC.config.weather import WeatherConfig

    orig_load = Config.load.__func__

    @functools.wraps(orig_load)
    def load(cls, config_file=None, **kwargs):
        global _depth
        f = {}
        if config_file is not None:
            try:
                with open(config_file, 'rb') as fp:
                    f = tomllib.load(fp)
            except Exception:
                f = {}
        fl, kl = layer_of(f), layer_of(kwargs)
        ok = False
        err = None
        _depth += 1
        try:
            r = orig_load(cls, config_file, **kwargs)
            ok = True
            return r
        except BaseException as e:
            err = type(e).__name__
            raise
        finally:
            _depth -= 1
            emit('config', _ev('load', ok, f=fl, k=kl, err=err))

    Config.load = classmethod(load)

    # Config.tla LoadEntries: the public constructor and model_validate called directly (not from inside load) are load
    # steps without a file whose keyword layer is the data handed over
    def direct(orig, data_of):
        @functools.wraps(orig)
        def wrapper(*a, **kw):
            global _depth
            if _depth > 0:
                return orig(*a, **kw)
            kl = layer_of(data_of(a, kw))
            ok, err = False, None
            _depth += 1
            try:
                r = orig(*a, **kw)
                ok = True
                return r
            except BaseException as e:
                err = type(e).__name__
                raise
            finally:
                _depth -= 1
                emit('config', _ev('load', ok, f=layer_of({}), k=kl, err=err))

        return wrapper

    Config.__init__ = direct(Config.__init__, lambda a, kw: kw)
    Config.model_validate = classmethod(direct(Config.model_validate.__func__, lambda a, kw: a[1] if len(a) > 1 else kw.get('obj', {})))

    orig_reset = Config.reset

    def reset():
        try:
            return orig_reset()
        finally:
            emit('config', _ev('reset', True))

    Config.reset = staticmethod(reset)

    orig_get = Config.get.__func__

    def get(cls):
        ok = False
        try:
            r = orig_get(cls)
            ok = True
            return r
        finally:
            emit('config', _ev('get', ok))

    Config.get = classmethod(get)

    orig_pget = ConfigProxy.__getattr__

    def pget(self, name):
        ok = False
        try:
            r = orig_pget(self, name)
            ok = True
            return r
        except AttributeError:
            ok = core._config is not None
            raise
        finally:
            if _depth == 0:
                emit('config', _ev('read', ok, name=name))

    ConfigProxy.__getattr__ = pget

    orig_pset = ConfigProxy.__setattr__

    def pset(self, name, value):
        ok = False
        try:
            r = orig_pset(self, name, value)
            ok = True
            return r
        finally:
            emit('config', _ev('mutate', ok, name=name, level='outer'))

    ConfigProxy.__setattr__ = pset

    # mutation attempts on the nested (frozen) models of the *active* configuration
    for klass, level in ((WeatherConfig, 'weather'), (EmissionsConfig, 'emissions')):
        orig = klass.__setattr__

        def mset(self, name, value, _orig=orig, _level=level):
            active = core._config is not None and (
                getattr(core._config, 'weather', None) is self or getattr(core._config, 'emissions', None) is self
            )
            if not active or name.startswith('_') or name in ('enabled_species',):
                return _orig(self, name, value)
            ok = False
            try:
                r = _orig(self, name, value)
                ok = True
                return r
            finally:
                emit('config', _ev('mutate', ok, name=name, level=_level))

        klass.__setattr__ = mset
