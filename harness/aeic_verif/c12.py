"""C12 — emission-index and atmosphere functions follow their cited methods (partial).

spec:    specs/ei/EI.tla: ISA temperature, thrust categories, fuel-sulfur
         stoichiometry (SulfurConserved), BFFM2 HC/CO bilinear fit in log10
         space with the SAGE clamping rules (ties emitted with both admissible
         outcomes), BFFM2 NOx log-log regression slope, FOA3 and fuel-flow
         volatile PM, NOx speciation (SpeciationSumsToOne).
binding: every TLC-enumerated lattice case is evaluated by the real public
         function and compared in the representation the specification uses
         (log10 at 1e-9 absolute for the fits).  Clauses the specification
         cannot evaluate (ISA pressure values, theta/Mach factor, humidity
         correction, SCOPE11/MEEM magnitudes) are only checked for the generic
         invariants: finite, non-negative, linear scaling in the certification
         index, pressure<->altitude round trip.
"""

from __future__ import annotations

import json
import math
import warnings
from fractions import Fraction
from pathlib import Path

import numpy as np

from . import tlc
from .core import Ctx, MachineryError
from .store_replay import pmap


def fr(x):
    return Fraction(x[0], x[1])


def tmv(*a):
    """Per-mode values idle, approach, climb, take-off.  The object is a mapping keyed by mode: how it was
    built (positionally, from a dict in idle..take-off order, or from a dict in the ICAO databank's
    take-off..idle order) carries no meaning; the form is chosen deterministically from the values."""
    from AEIC.performance.types import ThrustMode, ThrustModeValues

    v = [float(x) for x in a]
    form = hash(tuple(v)) % 3  # (hashes of floats are not randomised)
    modes = [ThrustMode.IDLE, ThrustMode.APPROACH, ThrustMode.CLIMB, ThrustMode.TAKEOFF]
    if form == 0:
        return ThrustModeValues(*v)
    pairs = list(zip(modes, v))
    if form == 2:
        pairs.reverse()
    return ThrustModeValues(dict(pairs))


ATM_TOL = 2e-4   # Fix.tla is good to a few 1e-5 on these compositions (specs/ei/Atmos.tla)


def eval_atmos(row):
    """One altitude of specs/ei/Atmos.tla (micro-units) against the real ISA / FFM2 / BFFM2 functions."""
    from AEIC.emissions.ei.hcco import EI_HCCO
    from AEIC.emissions.ei.nox import BFFM2_EINOx
    from AEIC.emissions.utils import get_SLS_equivalent_fuel_flow
    from AEIC.utils.standard_atmosphere import pressure_at_altitude_isa_bada4, temperature_at_altitude_isa_bada4

    h = float(row['h'])
    theta, delta = row['theta'] / 1e6, row['delta'] / 1e6
    devs = []

    def cmp(key, what, got, want):
        if not (math.isfinite(got) and abs(got - want) <= ATM_TOL * max(abs(want), 1e-2)):
            devs.append((key, f'{what} = {got!r}; published equation (Atmos.tla): {want!r}'))

    cmp('isa:temperature-ratio', f'T({h:g} m) / 288.15', float(temperature_at_altitude_isa_bada4(np.array([h]))[0]) / 288.15, theta)
    cmp('isa:pressure-value', f'p({h:g} m) / 101325', float(pressure_at_altitude_isa_bada4(np.array([h]))[0]) / 101325.0, delta)
    # the ambient state handed to the emission functions is the specification's, so every clause stands alone
    P = delta * 101325.0
    for m, want in row['ffm2'].items():
        got = float(np.asarray(get_SLS_equivalent_fuel_flow(np.array([2.0]), np.array([P]), np.array([theta * 288.15]), np.array([int(m) / 100.0]))).ravel()[0])
        cmp('ffm2:factor', f'FFM2 sea-level equivalent of 1 kg/s per engine at {h:g} m, Mach {int(m) / 100:g}', got, want / 1e6)
        # the same state in other units with the matching sea-level reference (Atmos.tla Ffm2Units): hPa / degrees Rankine,
        # all four engines of a four-engined aircraft, the exponent given explicitly
        got_u = float(np.asarray(get_SLS_equivalent_fuel_flow(np.array([4.0]), np.array([P / 100.0]), np.array([theta * 288.15 * 1.8]), np.array([int(m) / 100.0]),
                                                              z=3.8, P_SL=1013.25, T_SL=518.67, n_eng=4)).ravel()[0])
        cmp('ffm2:factor:other-units', f'FFM2 sea-level equivalent of 1 kg/s per engine at {h:g} m, Mach {int(m) / 100:g}, state given in hPa / deg R with P_SL=1013.25, T_SL=518.67, n_eng=4', got_u, want / 1e6)
    if 'ffm2z33' in row:
        got_z = float(np.asarray(get_SLS_equivalent_fuel_flow(np.array([2.0]), np.array([P]), np.array([theta * 288.15]), np.array([0.8]), z=3.3)).ravel()[0])
        cmp('ffm2:factor:exponent-given', f'FFM2 sea-level equivalent of 1 kg/s per engine at {h:g} m, Mach 0.8 with z = 3.3', got_z, row['ffm2z33'] / 1e6)
    ff_cal = tmv(0.1, 0.3, 0.9, 1.1)
    for d in row['hcco']:
        T = theta * 288.15 + float(d)
        x_ei = tmv(8.0, 4.0, 1.0, 0.5)
        ev = np.array([0.2, 0.6])
        amb = EI_HCCO(ev.copy(), x_ei, ff_cal, Tamb=np.array([T, T]), Pamb=np.array([P, P]))
        ref = EI_HCCO(ev.copy(), x_ei, ff_cal, Tamb=np.array([288.15, 288.15]), Pamb=np.array([101325.0, 101325.0]))
        for j in range(2):
            cmp('hcco:ambient-correction', f'HC/CO index at {h:g} m, ISA{int(d):+d} K relative to sea-level ISA (flow {ev[j]} kg/s)', float(amb[j]) / float(ref[j]), row['hcco'][d] / 1e6)
        r = BFFM2_EINOx(np.array([0.2, 1.0]), tmv(10.0, 10.0, 10.0, 10.0), ff_cal, Tamb=np.array([T, T]), Pamb=np.array([P, P]))
        for j in range(2):
            cmp('nox:ambient-humidity-correction', f'NOx index at {h:g} m, ISA{int(d):+d} K relative to the sea-level-static index', float(np.asarray(r.NOxEI)[j]) / 10.0, row['nox'][d] / 1e6)
    return devs


_work: dict = {}


def eval_scope11(row):
    """specs/ei/Scope11.tla: the SCOPE11 mass index as a number, per smoke number x engine type x mode."""
    from AEIC.emissions.ei.pmnvol import calculate_PMnvolEI_scope11
    from AEIC.performance.types import ThrustMode

    sn = {m: float(v) for m, v in row['sn'].items()}
    devs = []
    # Scope11.tla RecordForms: the smoke-number record is handed over as a new (frozen) object, or as ONE mutable working
    # copy per process whose four entries are overwritten in place from record to record (a sweep) - the index is a
    # function of what the record holds when it is handed over
    working = int(round(sn['idle'] + 2 * sn['takeoff'] + sn['climb'])) % 2 == 1
    if working:
        from AEIC.performance.types import ThrustModeValues

        if 'sn_work' not in _work:
            _work['sn_work'] = ThrustModeValues(1.0, 1.0, 1.0, 1.0, mutable=True)
        rec = _work['sn_work']
        # (the step of the sweep before this one: the same record holding other numbers, evaluated for both engine types)
        for m in ThrustMode:
            rec[m] = sn[m.value] + 7.0
        for eng in row['ei']:
            calculate_PMnvolEI_scope11(rec, eng, 5.0)
        for m in ThrustMode:
            rec[m] = sn[m.value]
    for eng, per_mode in row['ei'].items():
        prof = calculate_PMnvolEI_scope11(rec if working else tmv(sn['idle'], sn['approach'], sn['climb'], sn['takeoff']), eng, 5.0)
        for m in ThrustMode:
            got, want = float(prof[m]), per_mode[m.value] / 1e6
            if not (math.isfinite(got) and abs(got - want) <= ATM_TOL * max(abs(want), 1e-2)):
                devs.append((f'scope11:value:{eng}', f'smoke numbers {sn}{" (one mutable record, overwritten in place from case to case)" if working else ""}, {eng}, bypass ratio 5, {m.value}: index {got!r} g/kg; published equations (Scope11.tla): {want!r}'))
    return devs


def eval_profile(case):
    """specs/ei/Profiles.tla: MEEM on one whole-flight altitude profile - every index finite and non-negative."""
    from AEIC.emissions.ei.pmnvol import PMnvol_MEEM
    from AEIC.utils.standard_atmosphere import pressure_at_altitude_isa_bada4, temperature_at_altitude_isa_bada4

    from .emis_common import load_emis_config, model

    if 'edb' not in _prof:
        load_emis_config({})
        _prof['edb'] = model().edb
    alts = np.array(case['alts'], float)
    T = temperature_at_altitude_isa_bada4(alts)
    P = np.asarray(pressure_at_altitude_isa_bada4(alts))
    devs = []
    for mach in (0.3, 0.78):
        try:
            gmd, mass, num = PMnvol_MEEM(_prof['edb'], alts.copy(), T, P, np.full(len(alts), mach))
        except Exception as e:
            return [(f'meem:raised-{type(e).__name__}', f'altitude profile {case["alts"]} m, Mach {mach}: raised {type(e).__name__}: {e}')]
        for name, arr in (('gmd', gmd), ('mass', mass), ('number', num)):
            a = np.asarray(arr, float)
            if not (np.all(np.isfinite(a)) and np.all(a >= 0)):
                devs.append((f'meem:{name}-not-finite-nonnegative:{"low-flight" if case["low"] else "profile"}', f'altitude profile {case["alts"]} m (top of the flight {max(case["alts"])} m), Mach {mach}: {name} indices {a.tolist()}'))
        if devs:
            break
    return devs


_prof: dict = {}


def eval_case(job):
    warnings.simplefilter('ignore')
    kind, case = job
    c, o = case['c'], case['o']
    try:
        if kind == 'Atm':
            return eval_atmos(case)
        if kind == 'Prof':
            return eval_profile(case)
        if kind == 'Sc11':
            return eval_scope11(case)
        if kind == 'Isa':
            from AEIC.utils.standard_atmosphere import (
                altitude_from_pressure_isa_bada4,
                pressure_at_altitude_isa_bada4,
                temperature_at_altitude_isa_bada4,
            )

            h = float(c['h'])
            try:
                t = float(temperature_at_altitude_isa_bada4(np.array([h]))[0])
                refused = False
            except ValueError:
                refused, t = True, None
            if refused != bool(o['refused']):
                return [('isa:refusal', f'altitude {h} m: refused={refused}; specification: refused={o["refused"]}')]
            if refused:
                return []
            devs = []
            if abs(t * 100 - o['t']) > 1e-7:
                devs.append(('isa:temperature', f'T({h} m) = {t} K; specification: {o["t"] / 100} K'))
            # the lattice altitudes are whole metres: the value counts, not the numeric type it arrives in
            p_ref = float(pressure_at_altitude_isa_bada4(np.array([h]))[0])
            for form, arg in (('int array', np.array([int(h)])), ('python int', int(h)), ('numpy int64', np.int64(int(h))), ('python float', h), ('list of int', [int(h)])):
                try:
                    tv = float(np.asarray(temperature_at_altitude_isa_bada4(arg), float).ravel()[0])
                    pv = float(np.asarray(pressure_at_altitude_isa_bada4(arg), float).ravel()[0])
                except Exception as e:
                    devs.append(('isa:argument-type', f'altitude {h} m given as {form}: raised {type(e).__name__}: {e}'))
                    continue
                if abs(tv * 100 - o['t']) > 1e-7 or abs(pv - p_ref) > 1e-9 * p_ref:
                    devs.append(('isa:argument-type', f'altitude {h} m given as {form}: T = {tv} K, p = {pv} Pa; as float array: T = {t} K, p = {p_ref} Pa'))
                    break
            p = float(pressure_at_altitude_isa_bada4(np.array([h]))[0])
            back = float(altitude_from_pressure_isa_bada4(np.array([p]))[0])
            if not (math.isfinite(p) and p > 0):
                devs.append(('isa:pressure-not-positive', f'p({h} m) = {p}'))
            if abs(back - h) > 1e-6 * max(h, 1.0):
                devs.append(('isa:pressure-altitude-not-inverse', f'altitude_from_pressure(pressure({h} m)) = {back} m'))
            if h >= 500:
                p_lo = float(pressure_at_altitude_isa_bada4(np.array([h - 500.0]))[0])
                if not p < p_lo:
                    devs.append(('isa:pressure-not-decreasing', f'p({h}) = {p} >= p({h - 500}) = {p_lo}'))
            return devs
        if kind == 'Cat':
            from AEIC.emissions.utils import get_thrust_cat_cruise

            cal = c['cal']
            r = get_thrust_cat_cruise(np.array([c['ff2'] / 2.0]), tmv(cal['idle'], cal['approach'], cal['climb'], cal['climb'] + 1))
            got = str(np.asarray(r.data)[0])
            if got != o['cat']:
                return [('thrust-category', f'fuel flow {c["ff2"] / 2} with calibration {cal}: category {got}; specification: {o["cat"]}')]
            return []
        if kind == 'Sox':
            from AEIC.emissions.ei.sox import EI_SOx
            from AEIC.types import Fuel

            f = Fuel(name='v', energy_MJ_per_kg=43.0, EI_H2O=1230.0, EI_CO2=3155.0, non_volatile_carbon_fraction=0.95,
                     fuel_sulfur_content_nom=float(c['s']), sulfate_yield_nom=float(fr(c['y'])))  # fmt: skip
            r = EI_SOx(f)
            devs = []
            for k, g in (('so2', r.EI_SO2), ('so4', r.EI_SO4), ('sox', r.EI_SOx)):
                w = float(fr(o[k]))
                if abs(g - w) > 1e-9 * max(1.0, abs(w)):
                    devs.append((f'sox:{k}', f'S={c["s"]} ppm, yield {fr(c["y"])}: {k} = {g}; specification: {w}'))
            return devs
        if kind == 'Hc':
            from AEIC.emissions.ei.hcco import EI_HCCO

            p10 = lambda e: 10.0 ** (e / 2.0)  # noqa: E731
            ff_cal = tmv(p10(c['fi']), p10(c['fa']), p10(c['fc']), p10(c['fc']) * 2)
            x_ei = tmv(p10(c['ei']), p10(c['ea']), p10(c['ec']), p10(c['et']))
            ff = p10(c['lf'])
            ffa, cal0, xei0 = np.array([ff]), [float(x) for x in ff_cal.as_array()], [float(x) for x in x_ei.as_array()]
            got = float(EI_HCCO(ffa, x_ei, ff_cal, Tamb=np.array([288.15]), Pamb=np.array([101325.0]))[0])
            if not (math.isfinite(got) and got >= 0):
                return [('hcco:not-finite-nonnegative', f'EI = {got} for {c}')]
            # (EI.tla ArgumentsAreValues)
            if ffa[0] != ff or [float(x) for x in ff_cal.as_array()] != cal0 or [float(x) for x in x_ei.as_array()] != xei0:
                return [('hcco:argument-modified', f'EI_HCCO changed an argument: fuel flow {ff} -> {ffa[0]}, calibration flows {cal0} -> {[float(x) for x in ff_cal.as_array()]}, certification indices {xei0} -> {[float(x) for x in x_ei.as_array()]}')]
            if o['acrp']:
                got = got / (1.0 + 52.0 * (p10(c['fi']) - ff))
            lg = math.log10(got) if got > 0 else -math.inf
            alts = [float(fr(a)) for a in o['alts']]
            if not any(abs(lg - a) <= 1e-9 for a in alts):
                return [(f'hcco:{o["rule"]}:{o["seg"]}', f'log10 EI = {lg}; specification: {alts} (rule {o["rule"]}, {o["seg"]} segment, low-thrust correction {o["acrp"]}) for {c}')]
            # linear in the certification indices (not where a branch condition is an exact tie:
            # the two calls may resolve it differently in floating point)
            if len(alts) > 1:
                return []
            got10 = float(EI_HCCO(np.array([ff]), tmv(*(10 * p10(c[k]) for k in ('ei', 'ea', 'ec', 'et'))), ff_cal, Tamb=np.array([288.15]), Pamb=np.array([101325.0]))[0])
            base = float(EI_HCCO(np.array([ff]), x_ei, ff_cal, Tamb=np.array([288.15]), Pamb=np.array([101325.0]))[0])
            if not abs(got10 - 10 * base) <= 1e-9 * max(1.0, abs(got10)):
                return [('hcco:not-linear-in-certification-index', f'scaling the certification EIs by 10 scales the result by {got10 / base if base else "inf"} for {c}')]
            return []
        if kind == 'Nox':
            from AEIC.emissions.ei.nox import BFFM2_EINOx

            ffp = tmv(*(10.0 ** c[k] for k in ('f1', 'f2', 'f3', 'f4')))
            ei = tmv(*(10.0 ** c[k] for k in ('e1', 'e2', 'e3', 'e4')))
            ev = np.array([1e-3, 0.1, 1.0, 10.0, 0.0])  # EI.tla NoxEvalExps (the last: a non-positive flow)
            amb = dict(Tamb=np.full(5, 288.15), Pamb=np.full(5, 101325.0))
            ev0, ffp0 = ev.copy(), [float(x) for x in ffp.as_array()]
            r = BFFM2_EINOx(ev, ei, ffp, **amb)
            n = np.asarray(r.NOxEI, float)
            devs = []
            # EI.tla ArgumentsAreValues: the functions are functions - the arrays and tables handed to them are read, never
            # written (the caller evaluates HC and CO on the same fuel-flow array next)
            if not np.array_equal(ev, ev0) or [float(x) for x in ffp.as_array()] != ffp0:
                return [('nox:argument-modified', f'BFFM2_EINOx changed its fuel-flow argument from {ev0.tolist()} to {ev.tolist()} (calibration flows {ffp0} -> {[float(x) for x in ffp.as_array()]})')]
            if not (np.all(np.isfinite(n)) and np.all(n >= 0)):
                return [('nox:not-finite-nonnegative', f'NOxEI = {n} for {c}')]
            if np.any(n <= 0):
                return [('nox:not-positive', f'NOxEI = {n} for positive certification indices {c}')]
            slope = (math.log10(n[3]) - math.log10(n[1])) / 2.0
            want = float(fr(o['slope']))
            if abs(slope - want) > 1e-9:
                devs.append(('nox:regression-slope', f'log-log slope {slope}; specification (least squares over 4 calibration points): {want} for {c}'))
            # the correction factor at sea-level ISA is common to all flows: compare the fitted line through differences to the 1 kg/s point
            for k, (flow, wl) in enumerate(zip(ev, o['logs'])):
                got = math.log10(n[k]) - math.log10(n[2])
                wantd = float(fr(wl)) - float(fr(o['logs'][2]))
                if abs(got - wantd) > 1e-9 * max(1.0, abs(wantd)):
                    devs.append((f'nox:fitted-value:{"non-positive-flow" if flow <= 0 else ("below-10-g-per-s" if flow < 0.01 else "regular")}',
                                 f'log10 EI({flow} kg/s) - log10 EI(1 kg/s) = {got}; specification (fitted line): {wantd} for {c}'))
                    break
            parts = np.asarray(r.NOEI) + np.asarray(r.NO2EI) + np.asarray(r.HONOEI)
            if not np.allclose(parts, n, rtol=1e-12):
                devs.append(('nox:speciation-sum', f'NO+NO2+HONO = {parts} but NOx = {n}'))
            r10 = BFFM2_EINOx(ev, tmv(*(10 * 10.0 ** c[k] for k in ('e1', 'e2', 'e3', 'e4'))), ffp, **amb)
            if not np.allclose(np.asarray(r10.NOxEI), 10 * n, rtol=1e-9):
                devs.append(('nox:not-linear-in-certification-index', f'scaling certification EIs by 10 gives {np.asarray(r10.NOxEI) / n}'))
            # the index is a function of the flow's VALUE, not of the array's dtype: whole kg/s as int64 / float32 / int32
            forms = (np.array([0, 1, 10], dtype=np.int64), np.array([0, 1, 10], dtype=np.float32), np.array([0, 1, 10], dtype=np.int32))
            evi = forms[(c['f1'] + c['e1']) % 3]
            ri = np.asarray(BFFM2_EINOx(evi, ei, ffp, Tamb=np.full(3, 288.15), Pamb=np.full(3, 101325.0)).NOxEI, float)
            if not (ri.shape == (3,) and np.all(np.isfinite(ri)) and np.allclose(ri, n[[4, 2, 3]], rtol=1e-9)):
                devs.append(('nox:argument-type', f'NOxEI = {ri.tolist()} for flows [0, 1, 10] kg/s handed over as {type(evi).__name__}{"/" + str(evi.dtype) if hasattr(evi, "dtype") else ""}; as float64: {n[[4, 2, 3]].tolist()} for {c}'))
            return devs
        if kind == 'Foa':
            from AEIC.emissions.ei.pmvol import EI_PMvol_FOA3

            pm, oc = EI_PMvol_FOA3(np.array([c['t2'] / 2.0]), np.array([c['hc4'] / 4.0]))
            w = float(fr(o['pmvol']))
            devs = []
            if abs(float(pm[0]) - w) > 1e-12 * max(1.0, abs(w)) + 1e-15:
                devs.append(('foa3:pmvol', f'thrust {c["t2"] / 2}%, HC EI {c["hc4"] / 4}: PMvol = {float(pm[0])}; specification: {w}'))
            if float(oc[0]) != float(pm[0]):
                devs.append(('foa3:ocic', 'OCic differs from PMvol'))
            return devs
        if kind == 'Scope':
            from AEIC.emissions.ei.pmnvol import calculate_PMnvolEI_scope11
            from AEIC.performance.types import ThrustMode

            m = ThrustMode(c['mode'])
            other = {ThrustMode.IDLE: 5.0, ThrustMode.APPROACH: 6.0, ThrustMode.CLIMB: 7.0, ThrustMode.TAKEOFF: 8.0}

            def index(sn):
                from AEIC.performance.types import ThrustModeValues

                d = dict(other)
                d[m] = float(sn)
                return float(calculate_PMnvolEI_scope11(ThrustModeValues(d), c['eng'], 5.0)[m])

            v = index(c['sn'])
            devs = []
            if not (math.isfinite(v) and v >= 0):
                return [('scope11:not-finite-nonnegative', f'smoke number {c["sn"]} in {c["mode"]} ({c["eng"]}): {v}')]
            if o['zero']:
                if v != 0.0:
                    devs.append(('scope11:no-data-not-zero', f'smoke number {c["sn"]} (no data) in {c["mode"]} gives {v}; specification: 0'))
                return devs
            ref = index(o['same_as'])
            if abs(v - ref) > 1e-12 * max(1.0, abs(ref)):
                devs.append(('scope11:cap-at-40', f'smoke number {c["sn"]} in {c["mode"]} ({c["eng"]}) gives {v}; specification: the value for smoke number {o["same_as"]} = {ref}'))
            if o['below'] > 0 and index(o['below']) > v * (1 + 1e-12):
                devs.append(('scope11:not-monotone', f'smoke number {o["below"]} gives more than smoke number {c["sn"]} in {c["mode"]}'))
            return devs
        if kind == 'Spec':
            from AEIC.emissions.ei.nox import NOx_speciation
            from AEIC.emissions.ei.pmvol import EI_PMvol_FuelFlow
            from AEIC.performance.types import ThrustMode, ThrustModeArray

            sp = NOx_speciation()
            m = ThrustMode(c['m'])
            devs = []
            for k, tv in (('no', sp.no), ('no2', sp.no2), ('hono', sp.hono)):
                if abs(tv[m] * 1e7 - o[k]) > 1e-6:
                    devs.append((f'speciation:{k}', f'{k} fraction in {c["m"]} = {tv[m]}; specification: {o[k] / 1e7}'))
            if abs(sp.no[m] + sp.no2[m] + sp.hono[m] - 1.0) > 1e-12:
                devs.append(('speciation:sum', f'fractions in {c["m"]} sum to {sp.no[m] + sp.no2[m] + sp.hono[m]}'))
            pm, oc = EI_PMvol_FuelFlow(np.array([0.1, 0.3, 0.9, 1.1]), ThrustModeArray.modes())
            i = [x.value for x in ThrustMode].index(c['m'])
            if abs(float(pm[i]) - float(fr(o['pmvol']))) > 1e-12 or abs(float(oc[i]) - float(fr(o['ocic']))) > 1e-12:
                devs.append(('pmvol-fuel-flow', f'{c["m"]}: PMvol {float(pm[i])}, OCic {float(oc[i])}; specification: {float(fr(o["pmvol"]))}, {float(fr(o["ocic"]))}'))
            return devs
        raise MachineryError(f'unknown kind {kind}')
    except MachineryError:
        raise
    except Exception as e:
        import traceback

        return [('machinery', f'{kind}: {type(e).__name__}: {e}\n{traceback.format_exc()}')]


def generic_checks(ctx: Ctx):
    """Finite / non-negative / linear-scaling / one-category checks for the
    functions whose magnitudes the specification does not decide."""
    warnings.simplefilter('ignore')
    from AEIC.emissions.ei.pmnvol import PMnvol_MEEM, calculate_PMnvolEI_scope11
    from AEIC.emissions.utils import get_SLS_equivalent_fuel_flow
    from AEIC.performance.types import ThrustMode
    from AEIC.utils.standard_atmosphere import pressure_at_altitude_isa_bada4, temperature_at_altitude_isa_bada4

    from .emis_common import load_emis_config, model

    load_emis_config({})
    edb = model().edb
    alts = np.arange(0.0, 25001.0, 500.0)
    T = temperature_at_altitude_isa_bada4(alts)
    P = np.asarray(pressure_at_altitude_isa_bada4(alts))
    n = 0
    for mach in (0.0, 0.3, 0.6, 0.8, 0.95):
        for ff in (0.0, 0.01, 0.1, 0.5, 1.5, 3.0):
            w = get_SLS_equivalent_fuel_flow(np.full(len(alts), ff), P, T, np.full(len(alts), mach), n_eng=2)
            w2 = get_SLS_equivalent_fuel_flow(np.full(len(alts), 2 * ff), P, T, np.full(len(alts), mach), n_eng=2)
            n += 1
            if not (np.all(np.isfinite(w)) and np.all(w >= 0)):
                ctx.violation('sls-fuel-flow:not-finite-nonnegative', f'Mach {mach}, fuel flow {ff}: {w}', {'generic': 'sls', 'mach': mach, 'ff': ff})
            if not np.allclose(w2, 2 * w, rtol=1e-12):
                ctx.violation('sls-fuel-flow:not-linear', f'Mach {mach}: doubling the fuel flow does not double the result', {'generic': 'sls', 'mach': mach, 'ff': ff})
            if mach == 0.0 and not abs(w[0] - ff / 2) <= 1e-12:
                ctx.violation('sls-fuel-flow:sea-level-static', f'at sea level, Mach 0 the SLS-equivalent flow of {ff} (2 engines) is {w[0]}', {'generic': 'sls', 'ff': ff})
        gmd, mass, num = PMnvol_MEEM(edb, alts, T, P, np.full(len(alts), mach))
        n += 1
        for name, arr in (('gmd', gmd), ('mass', mass), ('number', num)):
            a = np.asarray(arr, float)
            if not (np.all(np.isfinite(a)) and np.all(a >= 0)):
                ctx.violation(f'meem:{name}-not-finite-nonnegative', f'Mach {mach}: {a}', {'generic': 'meem', 'mach': mach})
    prof = calculate_PMnvolEI_scope11(edb.SN_matrix, edb.engine_type, edb.BP_Ratio)
    for m in ThrustMode:
        n += 1
        if not (math.isfinite(prof[m]) and prof[m] >= 0):
            ctx.violation('scope11:not-finite-nonnegative', f'{m.value}: {prof[m]}', {'generic': 'scope11'})
    ctx.extra['generic_invariant_evaluations'] = n


def run(ctx: Ctx):
    ctx.rule = (
        'lattice cases per function (TLC-enumerated): ISA 0..26 km every 500 m; thrust categories for all calibration triples over {1,2,4,6} x 15 flows; '
        'sulfur 4 contents x 4 yields; HC/CO fit: calibration flows/indices as half-decade powers of ten x 11 evaluation flows (quick 24 057, thorough 180 224); '
        'NOx regression: 6 318 calibration sets; FOA3 9 thrusts x 3 HC indices; ISA pressure ratio, FFM2 factor at Mach 0 / 0.4 / 0.8 / 0.95, HC/CO and NOx (humidity) ambient corrections at ISA and ISA+10 K as fixed-point numbers every 500 m up to 25 km (Atmos.tla); SCOPE11 11 smoke numbers x 4 modes x 2 engine types (rules) and 13 uniform + 6 mixed smoke-number records (modes without data beside modes with) x 4 modes x 2 engine types as fixed-point numbers (Scope11.tla); MEEM on every altitude profile of 2..3 (4) points over 8 levels from the ground to 14 km (Profiles.tla); speciation 4 modes; non-trivial = clamped / tie / non-monotone calibration / stratospheric'
    )
    ctx.not_covered += [
        'the transcendental equations are decided as numbers to 2e-4 relative on the 500 m lattice (six-decimal fixed point in TLA+, specs/ei/Atmos.tla): a deviation below that is not seen; HC/CO and NOx ambient corrections at ISA and ISA+10 K only',
        'HC/CO for non-positive fuel flows',
        'MEEM magnitudes (only finite and non-negative on every altitude profile); SCOPE11 is decided as numbers for bypass ratio 5 only',
    ]
    ctx.assumptions += ['sea-level ISA ambient state makes the ambient correction factors exactly 1', 'branch-condition ties of the HC/CO fit admit both outcomes']
    if ctx.replay:
        case = json.loads(Path(ctx.replay).read_text())['case']
        if 'kind' in case:
            for key, desc in eval_case((case['kind'], case['case'])):
                ctx.violation(key, desc, case)
        return
    jobs = []
    for kind in ('Isa', 'Cat', 'Sox', 'Hc', 'Nox', 'Foa', 'Scope', 'Spec'):
        sub = None
        if kind == 'Hc' and not ctx.quick:
            sub = {'ExpF <- QuickF': 'ExpF <- FullF', 'ExpE <- QuickE': 'ExpE <- FullE'}
        tlc.check(ctx, 'ei/EI', f'ei/MC_{kind}.cfg', workers=8, sub=sub)
        em = tlc.check(ctx, 'ei/EIGen', f'ei/Gen_{kind}.cfg', workers=8, sub=sub)['emitted']
        jobs += [(kind, e) for e in em]
    # the transcendental equations as numbers (six-decimal fixed point, specs/common/Fix.tla): one row per 500 m
    tlc.check(ctx, 'ei/Atmos', 'ei/MC_Atmos.cfg', workers=4)
    jobs += [('Atm', {'c': {'h': e['h']}, 'o': {}, **e}) for e in tlc.check(ctx, 'ei/Atmos', 'ei/Gen_Atmos.cfg', workers=1)['emitted']]
    # SCOPE11 as numbers (Scope11.tla)
    tlc.check(ctx, 'ei/Scope11', 'ei/MC_Scope11.cfg', workers=4)
    seen11 = set()
    for e in tlc.check(ctx, 'ei/Scope11', 'ei/Gen_Scope11.cfg', workers=1)['emitted']:
        k11 = json.dumps(e['sn'], sort_keys=True)
        if k11 not in seen11:
            seen11.add(k11)
            jobs.append(('Sc11', {'c': {'sn': e['sn']}, 'o': {}, **e}))
    # whole-flight altitude profiles (MEEM looks at the top of the flight): every sequence of 2..3 (4) levels
    tlc.check(ctx, 'ei/Profiles', 'ei/MC_Profiles.cfg', workers=4)
    profs = tlc.check(ctx, 'ei/Profiles', 'ei/Gen_Profiles.cfg', workers=1, sub=None if ctx.quick else {'MaxLen = 3': 'MaxLen = 4'})['emitted']
    seenp = set()
    for e in profs:
        if tuple(e['alts']) not in seenp:
            seenp.add(tuple(e['alts']))
            jobs.append(('Prof', {'c': {'alts': e['alts']}, 'o': {}, **e}))
    ctx.exhaustive = True
    ctx.log(f'evaluating {len(jobs)} lattice cases on the real functions')
    for (kind, case), devs in zip(jobs, pmap(eval_case, jobs)):
        o = case['o']
        nt = kind in ('Atm', 'Sc11') or (kind == 'Prof' and case['low']) or (kind == 'Hc' and (o['rule'] != 'regular' or len(o['alts']) > 1)) or (kind == 'Isa' and case['c']['h'] > 11000) or kind in ('Cat', 'Nox', 'Foa', 'Sox', 'Scope')
        ctx.case_done((kind, case['c']), nontrivial=nt)
        if kind in ('Hc', 'Nox'):
            ctx.sample({'kind': kind, **case}, limit=4)
        for key, desc in devs:
            if key == 'machinery':
                raise MachineryError('EI worker failed: ' + desc)
            ctx.violation(key, desc, {'kind': kind, 'case': case})
    generic_checks(ctx)
