"""GridSegment.tla conformance: C04 (conservation) and C05 (cell attribution)."""

from __future__ import annotations

import json
import sys
import types
import warnings
from fractions import Fraction
from pathlib import Path

import numpy as np

from . import tlc
from .core import Ctx, MachineryError
from .store_replay import pmap

Q = 4
PAD = 2  # extra cells around the lattice so that every lattice point is inside the grid
_g = {}



class SecondCallDiffers(Exception):
    pass


def _props_of(e):
    """A second gridding of the same arrays that differs breaks conservation (C04: the amounts) and placement (C05: the
    cells) alike; so does a gridding that raises on a legal trajectory - there is no gridded total and there are no cells."""
    return ('C04', 'C05')


def grid_twice(g, lats, lons, *rest, state_variables=(), integrated_variables=()):
    """grid_trajectory is a function of its arguments: the same arrays are gridded
    twice (as a per-species loop over one trajectory does) and the second result
    must equal the first, which is the one compared with the specification."""

    def flat(out):
        return [np.asarray(x, float) for part in out for x in (part if isinstance(part, (list, tuple)) else [part])]

    first = g.grid_trajectory(lats, lons, *rest, state_variables=state_variables, integrated_variables=integrated_variables)
    a = [x.copy() for x in flat(first)]
    second = g.grid_trajectory(lats, lons, *rest, state_variables=state_variables, integrated_variables=integrated_variables)
    b = flat(second)
    if len(a) != len(b) or any(x.shape != y.shape or not np.array_equal(x, y, equal_nan=True) for x, y in zip(a, b)):
        raise SecondCallDiffers('gridding the same arrays a second time gives a different result (cells or amounts), e.g. '
                                + next((f'output {k}: {x.tolist()[:6]} then {y.tolist()[:6]}' for k, (x, y) in enumerate(zip(a, b)) if x.shape != y.shape or not np.array_equal(x, y, equal_nan=True)), 'a different number of outputs'))
    # GridSegment.tla EntryPoints: the older public method of the same name family grids a trajectory the same way:
    # a third gridding of the same arrays through it must give the same pieces (cells, order, amounts)
    legacy = getattr(g, 'cells_touched_by_trajectory_with_state_and_integrated_variables', None)
    if legacy is not None:
        third = legacy(lats, lons, *rest, state_variables=state_variables, integrated_variables=integrated_variables)
        if any(x is None for x in third[:2]):
            raise SecondCallDiffers('the older entry point cells_touched_by_trajectory_with_state_and_integrated_variables returns nothing for these arrays')
        c3 = flat(third)
        if len(a) != len(c3) or any(x.shape != y.shape or not np.allclose(x, y, rtol=1e-12, atol=1e-12, equal_nan=True) for x, y in zip(a, c3)):
            raise SecondCallDiffers('the older entry point cells_touched_by_trajectory_with_state_and_integrated_variables grids the same arrays differently, e.g. '
                                    + next((f'output {k}: {x.tolist()[:6]} vs {y.tolist()[:6]}' for k, (x, y) in enumerate(zip(a, c3)) if x.shape != y.shape or not np.allclose(x, y, rtol=1e-12, atol=1e-12, equal_nan=True)), 'a different number of outputs'))
    return first

def gridder_mod():
    if 'mod' not in _g:
        if 'shapely' not in sys.modules:
            try:
                import shapely.geometry  # noqa: F401
            except Exception:
                sh = types.ModuleType('shapely')
                geo = types.ModuleType('shapely.geometry')

                class Polygon:  # only grid_polygon needs it (not part of any listed property)
                    def __init__(self, *a, **k):
                        raise NotImplementedError('shapely is not installed')

                geo.Polygon = Polygon
                sh.geometry = geo
                sys.modules['shapely'] = sh
                sys.modules['shapely.geometry'] = geo
        from AEIC.gridding import grid

        _g['mod'] = grid
    return _g['mod']


def fr(x):
    return Fraction(x[0], x[1])


class Frame:
    """Maps lattice coordinates to radians: cell size h degrees, lattice origin
    (lat0, lon0) degrees.  Grid lines are k*h so that lattice points on lines
    are bit-equal to the lines."""

    def __init__(self, maxc, h_deg=0.01, lat0=0.0, lon0=0.0):
        self.h = np.deg2rad(h_deg)
        self.lat0, self.lon0 = np.deg2rad(lat0), np.deg2rad(lon0)
        ncell = maxc // Q
        ks = np.arange(-PAD, ncell + PAD + 1)
        self.ks = ks
        self.lat_lines = self.lat0 + ks * self.h
        self.lon_lines = self.lon0 + ks * self.h
        self.alt_lines = (ks + PAD) * 1000.0          # metres, lattice 0 -> (PAD)*1000
        self.time_lines = (ks + PAD) * 600.0
        G = gridder_mod().Gridder
        self.g2 = G(self.lat_lines, self.lon_lines)
        self.g4 = G(self.lat_lines, self.lon_lines, self.alt_lines, self.time_lines)

    def lat(self, y):
        return self.lat0 + (np.asarray(y) / Q) * self.h

    def lon(self, x):
        return self.lon0 + (np.asarray(x) / Q) * self.h

    def alt(self, a):
        return (np.asarray(a) / Q + PAD) * 1000.0

    def time(self, t):
        return (np.asarray(t) / Q + PAD) * 600.0

    def cell_lat(self, v):
        return int(round((v - self.lat0) / self.h))

    def cell_lon(self, v):
        return int(round((v - self.lon0) / self.h))


def merged(cells, shares, tol):
    """[(cell tuple, share)] with zero shares dropped and neighbours in the same cell merged."""
    out = []
    for c, s in zip(cells, shares):
        if abs(s) <= tol:
            continue
        if out and out[-1][0] == c:
            out[-1] = (c, out[-1][1] + s)
        else:
            out.append((c, s))
    return out


VALUE = 1000.0
WHOLE = 7  # GridSegment.tla VarForms: the second integrated variable of every case is a whole-number (int64) array


def whole_var(n=1):
    return np.array([WHOLE + 2 * i for i in range(n)], dtype=np.int64)


def whole_devs(what, first, firstvals, second, secondvals):
    """The share of every piece is the same for every integrated variable, whatever its array form."""
    a = np.asarray(first, float)
    b = np.asarray(second, float)
    if len(a) != len(b):
        return [('C05', 'misaligned-lengths', f'{what}: integrated variables have {len(a)} and {len(b)} pieces')]
    tot, want = float(np.sum(b)), float(np.sum(secondvals))
    out = []
    if not (want * (1 - 1e-9) <= tot <= want * (1 + 0.05)):
        out.append(('C04', 'not-conserved:whole-number-variable', f'{what}: the integrated variable handed over as int64 array {np.asarray(secondvals).tolist()} totals {tot} after gridding'))
    # one segment: every piece carries the same SHARE of either variable (round 17: shares formed in the caller's dtype)
    fv = np.asarray(firstvals, float)
    if len(fv) == 1 and np.size(secondvals) == 1 and fv[0] > 0 and want > 0 and len(a):
        d = np.abs(b / want - a / fv[0])
        if np.any(d > 1e-9):
            i = int(np.argmax(d))
            out.append(('C05', 'share-differs:whole-number-variable', f'{what}: piece {i} carries {b[i] / want:.9f} of the int64 variable but {a[i] / fv[0]:.9f} of the float64 one'))
    return out


_buf: dict = {}


def run_segment(job):
    """One GridSegment case on a frame -> list of (prop, key, desc)."""
    warnings.simplefilter('ignore')
    case, frame_key = job
    try:
        fk = ('frame',) + tuple(frame_key)
        if fk not in _g:
            _g[fk] = Frame(*frame_key)
        f = _g[fk]
        s = case['s']
        lats, lons = f.lat([s[1], s[3]]), f.lon([s[0], s[2]])
        # GridSegment.tla BufferForms: the coordinates of a flight arrive in new arrays, or (every second segment) in the SAME
        # two arrays as the flight before, refilled in place - per-flight buffers; what is gridded is what the arrays hold now
        if (s[0] + s[1] + s[2] + s[3]) % 2 == 1:
            if 'la' not in _buf:
                _buf['la'], _buf['lo'] = np.empty(2), np.empty(2)
            # (the flight before: a fixed other segment gridded from the same two arrays - every case is self-contained)
            _buf['la'][:] = f.lat([1, s[3] + 2])
            _buf['lo'][:] = f.lon([s[2] + 3, 0])
            try:
                f.g2.grid_trajectory(_buf['la'], _buf['lo'], state_variables=(np.array([1.0, 2.0]),), integrated_variables=(np.array([1.0]),))
            except Exception:
                pass
            _buf['la'][:] = lats
            _buf['lo'][:] = lons
            lats, lons = _buf['la'], _buf['lo']
        exact = frame_key[1] <= 0.011 and abs(frame_key[2]) < 1.0
        devs = []
        try:
            tl, to, _, _, sv, iv = grid_twice(f.g2, lats, lons, state_variables=(np.array([7.0, 9.0]),), integrated_variables=(np.array([VALUE]), whole_var()))
        except Exception as e:
            return [(pr, f'raised-{type(e).__name__}', f'segment {s}: grid_trajectory raised {type(e).__name__}: {e}') for pr in _props_of(e)]
        n = len(tl)
        if not (len(to) == n and len(sv[0]) == n and len(iv[0]) == n):
            devs.append(('C05', 'misaligned-lengths', f'segment {s}: output lengths lat {n}, lon {len(to)}, state {len(sv[0])}, integrated {len(iv[0])}'))
            return devs
        devs += whole_devs(f'segment {s}', iv[0], [VALUE], iv[1], whole_var())
        total = float(np.sum(iv[0]))
        hi = 1e-6 if exact else 0.05
        if not (VALUE * (1 - 1e-9) <= total <= VALUE * (1 + hi)):
            kind = 'zero-length-segment-loses-value' if (s[0] == s[2] and s[1] == s[3]) else 'not-conserved'
            devs.append(('C04', kind, f'segment {s} (lattice units, cell = {Q}): pieces add up to {total / VALUE:.9f} of the segment value'))
        cells = [(f.cell_lon(o), f.cell_lat(a)) for a, o in zip(tl, to)]
        got = merged(cells, [float(x) / VALUE for x in iv[0]], 1e-9)
        want = [((p['cx'], p['cy']), float(fr(p['share']))) for p in case['p']]
        if [c for c, _ in got] != [c for c, _ in want]:
            devs.append(('C05', 'wrong-cells', f'segment {s}: cells (lon, lat) {[c for c, _ in got]}; specification: {[c for c, _ in want]}'))
        elif exact:
            for (c, a), (_, b) in zip(got, want):
                if abs(a - b) > 1e-6:
                    devs.append(('C05', 'wrong-share', f'segment {s}: cell {c} receives share {a:.9f}; specification: {b:.9f}'))
                    break
        if n and not np.all(np.asarray(sv[0]) == 7.0):
            devs.append(('C05', 'state-not-from-start-point', f'segment {s}: state values {np.asarray(sv[0]).tolist()}; specification: the start point value 7.0'))
        # GridSegment.tla NearParallel: the same segment ALONG a latitude grid line, tilted by a few centimetres so that it
        # starts just below and ends just above the line (and the other way round): it changes row where it crosses the line -
        # at its middle; before that its pieces lie in the row of the start point, after it in the row of the end point
        if exact and s[1] == s[3] and s[1] % Q == 0 and s[0] != s[2] and not devs:
            eps = 2e-10   # radians: about a millimetre
            base = [((p_['cx'], p_['cy']), float(fr(p_['share']))) for p_ in case['p']]
            for direction, (la0, la1, r0, r1) in (('rising', (lats[0] - eps, lats[0] + eps, 0, 1)), ('falling', (lats[0] + eps, lats[0] - eps, 1, 0))):
                want2, t = [], 0.0
                for (cx, cy), sh in base:
                    a, b = t, t + sh
                    t = b
                    for lo_, hi_, row in ((a, min(b, 0.5), cy + r0), (max(a, 0.5), b, cy + r1)):
                        if hi_ - lo_ > 1e-9:
                            if want2 and want2[-1][0] == (cx, row):
                                want2[-1] = ((cx, row), want2[-1][1] + hi_ - lo_)
                            else:
                                want2.append(((cx, row), hi_ - lo_))
                try:
                    tl2, to2, _, _, _, iv2 = grid_twice(f.g2, np.array([la0, la1]), lons, state_variables=(np.array([7.0, 9.0]),), integrated_variables=(np.array([VALUE]), whole_var()))
                except Exception as e:
                    devs += [(pr, f'near-parallel:raised-{type(e).__name__}', f'segment {s} tilted by a millimetre ({direction}): raised {type(e).__name__}: {e}') for pr in _props_of(e)]
                    continue
                got2 = merged([(f.cell_lon(o_), f.cell_lat(a_)) for a_, o_ in zip(tl2, to2)], [float(x) / VALUE for x in iv2[0]], 1e-9)
                if [c_ for c_, _ in got2] != [c_ for c_, _ in want2]:
                    devs.append(('C05', 'near-parallel:wrong-cells', f'segment {s} tilted by a millimetre across its grid line ({direction}): cells (lon, lat) {[c_ for c_, _ in got2]}; specification: {[c_ for c_, _ in want2]}'))
                elif any(abs(x - y) > 1e-6 for (_, x), (_, y) in zip(got2, want2)):
                    devs.append(('C05', 'near-parallel:wrong-share', f'segment {s} tilted by a millimetre ({direction}): shares {[round(x, 6) for _, x in got2]}; specification: {[round(y, 6) for _, y in want2]}'))
                tot2 = float(np.sum(iv2[0]))
                if not (VALUE * (1 - 1e-9) <= tot2 <= VALUE * (1 + 1e-6)):
                    devs.append(('C04', 'near-parallel:not-conserved', f'segment {s} tilted by a millimetre ({direction}): pieces add up to {tot2 / VALUE:.9f} of the segment value'))
        return devs
    except Exception as e:
        import traceback

        return [('machinery', 'machinery', f'{type(e).__name__}: {e}\n{traceback.format_exc()}')]


def run_chain(job):
    warnings.simplefilter('ignore')
    case, frame_key = job
    try:
        fk = ('frame',) + tuple(frame_key)
        if fk not in _g:
            _g[fk] = Frame(*frame_key)
        f = _g[fk]
        pts = case['pts']
        npt = len(pts)
        lats, lons = f.lat([p['y'] for p in pts]), f.lon([p['x'] for p in pts])
        alts, times = f.alt([p['a'] for p in pts]), f.time([p['t'] for p in pts])
        state = np.arange(1, npt + 1, dtype=float)
        vals = np.array([100.0 * (i + 1) for i in range(npt - 1)])
        vals2 = np.array([3 * (i + 2) for i in range(npt - 1)], dtype=np.int64)  # VarForms: whole-number array
        devs = []
        try:
            tl, to, ta, tt, sv, iv = grid_twice(f.g4, lats, lons, alts, times, state_variables=(state, state * 10), integrated_variables=(vals, vals2))
        except Exception as e:
            return [(pr, f'chain-raised-{type(e).__name__}', f'{npt}-point trajectory {pts}: grid_trajectory raised {type(e).__name__}: {e}') for pr in _props_of(e)]
        n = len(tl)
        lens = [len(to), len(ta), len(tt), len(sv[0]), len(sv[1]), len(iv[0]), len(iv[1])]
        if any(x != n for x in lens):
            return [('C05', 'misaligned-lengths', f'trajectory {pts}: output array lengths {[n] + lens}')]
        for k, (v, out) in enumerate(((vals, iv[0]), (vals2, iv[1]))):
            tot = float(np.sum(out))
            if not (float(np.sum(v)) * (1 - 1e-9) <= tot <= float(np.sum(v)) * (1 + 1e-6)):
                devs.append(('C04', 'chain-not-conserved', f'trajectory {pts}: integrated variable {k} totals {tot}; trajectory total {float(np.sum(v))}'))
        # per piece: (segment via state value, cell, alt cell, time cell)
        got = []
        for i in range(n):
            segi = int(round(sv[0][i]))
            share = float(iv[0][i]) / (100.0 * segi)
            acell = int(round(ta[i] / 1000.0)) - PAD
            tcell = int(round(tt[i] / 600.0)) - PAD
            got.append(((segi, f.cell_lon(to[i]), f.cell_lat(tl[i]), acell, tcell), share))
            if sv[1][i] != sv[0][i] * 10:
                devs.append(('C05', 'state-variables-inconsistent', f'trajectory {pts}: second state variable not from the same point'))
                break
        gm = merged([c for c, _ in got], [s for _, s in got], 1e-9)
        want = [((p['seg'], p['cx'], p['cy'], p['acell'], p['tcell']), float(fr(p['share']))) for p in case['g']]
        if [c for c, _ in gm] != [c for c, _ in want]:
            a, b = [c for c, _ in gm], [c for c, _ in want]
            j = next((i for i in range(min(len(a), len(b))) if a[i] != b[i]), min(len(a), len(b)))
            what = 'wrong-cells'
            if j < len(a) and j < len(b) and a[j][:3] == b[j][:3]:
                what = 'wrong-altitude-or-time-cell'
            devs.append(('C05', f'chain-{what}', f'trajectory {pts}: piece {j} is (segment, lon cell, lat cell, alt cell, time cell) = {a[j] if j < len(a) else None}; specification: {b[j] if j < len(b) else None}'))
        else:
            for (c, x), (_, y) in zip(gm, want):
                if abs(x - y) > 1e-6:
                    devs.append(('C05', 'chain-wrong-share', f'trajectory {pts}: piece {c} receives share {x:.9f}; specification: {y:.9f}'))
                    break
        return devs
    except Exception as e:
        import traceback

        return [('machinery', 'machinery', f'{type(e).__name__}: {e}\n{traceback.format_exc()}')]


def dateline_gridder(h_deg=0.01, ncell=4, axes='float'):
    """axes: the altitude / time axes as float arrays in metres / seconds, or (GridSegment.tla AxisForms "whole") as
    INTEGER arrays in kilometres / ten-minute units - a point between two levels is then not a whole number of units"""
    key = ('dl', h_deg, ncell, axes)
    if key not in _g:
        h = np.deg2rad(h_deg)
        ks = np.arange(0, ncell + 1)
        east = -np.pi + ks * h
        west = (np.pi - ks * h)[::-1]
        lon_lines = np.concatenate([east, west])
        lat_lines = np.arange(-PAD, 2 + PAD + 1) * h
        ks2 = np.arange(-PAD, 2 + PAD + 1)
        if axes == 'whole':
            _g[key] = (gridder_mod().Gridder(lat_lines, lon_lines, (ks2 + PAD).astype(np.int64), (ks2 + PAD).astype(np.int64)), h)
        else:
            _g[key] = (gridder_mod().Gridder(lat_lines, lon_lines, (ks2 + PAD) * 1000.0, (ks2 + PAD) * 600.0), h)
    return _g[key]


def run_along(case):
    """specs/grid/GridAlong.tla: a leg along the antimeridian, its points written +180 / -180."""
    warnings.simplefilter('ignore')
    try:
        g, h = dateline_gridder()
        c = case['c']
        lon = {'plus': np.pi, 'minus': -np.pi}
        lons = np.array([lon[c['s1']], lon[c['s2']]])
        lats = np.array([c['ys'], c['ye']]) / Q * h
        alts = (np.array([1, 3]) / Q + PAD) * 1000.0
        times = (np.array([2, 5]) / Q + PAD) * 600.0
        try:
            tl, to, ta, tt, sv, iv = grid_twice(g, lats, lons, alts, times, state_variables=(np.array([7.0, 9.0]),), integrated_variables=(np.array([VALUE]), whole_var()))
        except Exception as e:
            return [(pr, f'along-antimeridian-raised-{type(e).__name__}', f'leg along the antimeridian {c}: raised {type(e).__name__}: {e}') for pr in _props_of(e)]
        devs = []
        shares = np.asarray(iv[0], float) / VALUE
        total = float(np.sum(shares))
        if not (1 - 1e-9 <= total <= 1 + 1e-6):
            devs.append(('C04', 'along-antimeridian-not-conserved', f'leg along the antimeridian {c} (longitudes {lons.tolist()} rad): {len(shares)} pieces add up to {total:.9f} of the segment value'))
        rows = {}
        for a, o, sh in zip(tl, to, shares):
            if abs(sh) > 1e-9:
                rows[int(round(a / h))] = rows.get(int(round(a / h)), 0.0) + float(sh)
                if min(abs(abs(o) - np.pi), abs(abs(o) - (np.pi - h))) > 1e-9:
                    devs.append(('C05', 'along-antimeridian-far-column', f'leg along the antimeridian {c}: a piece of {sh:.6f} lies in the column whose lower edge is at longitude {o} rad'))
                    break
        want = {r: case['rows'][r] / case['len'] for r in range(len(case['rows'])) if case['rows'][r] > 0}
        if set(rows) != set(want) or any(abs(rows[r] - want[r]) > 1e-6 for r in want):
            devs.append(('C05', 'along-antimeridian-row-shares', f'leg along the antimeridian {c}: latitude rows receive {rows}; specification: {want}'))
        return devs
    except Exception as e:
        import traceback

        return [('machinery', 'machinery', f'{type(e).__name__}: {e}\n{traceback.format_exc()}')]


def run_dateline(case):
    warnings.simplefilter('ignore')
    try:
        c = case['c']
        # GridSegment.tla AxisForms: every second case on a grid whose altitude / time axes are integer arrays
        whole = (c['a'] + c['b'] + c['ys'] + c['as']) % 2 == 1
        ua, ut = (1.0, 1.0) if whole else (1000.0, 600.0)
        g, h = dateline_gridder(axes='whole' if whole else 'float')
        # GridSegment.tla AxisForms "reassigned": a grid object is a record of its axes - every third case uses ONE grid object
        # per process whose altitude / time axes were assigned anew (after it had already gridded a flight on the other
        # axes): the cells are those of the axes it has now
        if (c['ye'] + c['ts'] + c['b']) % 3 == 0:
            if 'reassigned' not in _g:
                lat_l, lon_l = np.array(g.grid_latitudes, float), np.array(g.grid_longitudes, float)
                _g['reassigned'] = gridder_mod().Gridder(lat_l, lon_l, np.arange(3) * 250.0, np.arange(3) * 90.0)
            g2 = _g['reassigned']
            other, _ = dateline_gridder(axes='float' if whole else 'whole')
            g2.grid_altitudes, g2.grid_times = other.grid_altitudes, other.grid_times
            try:
                g2.grid_trajectory(np.array([0.1 * h, 0.2 * h]), np.array([np.pi - 0.3 * h, -np.pi + 0.3 * h]), np.array(other.grid_altitudes[1:3], float), np.array(other.grid_times[1:3], float),
                                   state_variables=(np.array([1.0, 2.0]),), integrated_variables=(np.array([1.0]),))
            except Exception:
                pass
            g2.grid_altitudes, g2.grid_times = g.grid_altitudes, g.grid_times
            g = g2
        M = 8

        def lon_of(x):
            d = (x - M) / Q
            return (np.pi - (-d) * h) if x < M else ((-np.pi + d * h) if x > M else None)

        lat = lambda y: (y / Q) * h  # noqa: E731
        lons = np.array([lon_of(case['xs']), lon_of(case['xe'])])
        lats = np.array([lat(c['ys']), lat(c['ye'])])
        devs = []
        alts = (np.array([c['as'], 3]) / Q + PAD) * ua
        times = (np.array([c['ts'], 5]) / Q + PAD) * ut
        try:
            tl, to, ta, tt, sv, iv = grid_twice(g, lats, lons, alts, times, state_variables=(np.array([7.0, 9.0]), np.array([70.0, 90.0])), integrated_variables=(np.array([VALUE]), whole_var()))
        except Exception as e:
            return [(pr, f'dateline-raised-{type(e).__name__}', f'antimeridian case {c}: raised {type(e).__name__}: {e}') for pr in _props_of(e)]
        n = len(tl)
        if not (len(to) == n and len(sv[0]) == n and len(iv[0]) == n and len(ta) == n and len(tt) == n):
            return [('C05', 'misaligned-lengths', f'antimeridian case {c}: output lengths differ')]
        live = [i for i in range(n) if abs(float(iv[0][i])) > 1e-9 * VALUE]
        ac = {int(round(ta[i] / ua)) - PAD for i in live}
        tc = {int(round(tt[i] / ut)) - PAD for i in live}
        if ac - {case['acell']} or tc - {case['tcell']}:
            devs.append(('C05', 'dateline-altitude-or-time-cell', f'antimeridian case {c}{" (integer altitude / time axes)" if whole else ""}: pieces carry altitude cells {sorted(ac)} and time cells {sorted(tc)}; specification: those of the start point ({case["acell"]}, {case["tcell"]})'))
        if any(float(sv[0][i]) != 7.0 for i in live):
            devs.append(('C05', 'dateline-state-not-from-start-point', f'antimeridian case {c}: state values {sorted(set(np.asarray(sv[0]).tolist()))}; specification: 7.0'))
        # every state variable carries ITS OWN start-point value (two state variables: 7 / 9 and 70 / 90)
        if len(sv) < 2 or len(sv[1]) != n or any(float(sv[1][i]) != 70.0 for i in live):
            devs.append(('C05', 'dateline-second-state-variable', f'antimeridian case {c}: the second state variable (70 at the start point) comes back as {sorted(set(np.asarray(sv[1]).tolist())) if len(sv) > 1 else None}'))
        # ... and every integrated variable ITS OWN pieces: the whole-number variable's pieces are WHOLE / VALUE of the first one's
        if len(iv) > 1 and len(iv[1]) == n and any(abs(float(iv[1][i]) * VALUE - float(iv[0][i]) * WHOLE) > 1e-6 * VALUE for i in live):
            devs.append(('C05', 'dateline-variables-mixed-up', f'antimeridian case {c}: the pieces of the second integrated variable {np.asarray(iv[1]).tolist()} are not {WHOLE}/{VALUE:g} of the first one\'s {np.asarray(iv[0]).tolist()}'))
        devs += whole_devs(f'antimeridian case {c}', iv[0], [VALUE], iv[1], whole_var())
        total = float(np.sum(iv[0])) / VALUE
        if not (1 - 1e-9 <= total <= 1 + 1e-6):
            devs.append(('C04', 'dateline-not-conserved', f'antimeridian case {c}: pieces add up to {total:.9f} of the segment value'))

        def ucell(lonv):  # unwrapped lon cell index of a returned lower-edge line value
            if lonv >= 0:
                return M // Q - int(round((np.pi - lonv) / h))
            return M // Q + int(round((lonv + np.pi) / h))

        got = merged([(ucell(o), int(round(a / h))) for a, o in zip(tl, to)], [float(x) / VALUE for x in iv[0]], 1e-9)
        want_cells = [(p['cx'], p['cy']) for p in case['leg1']] + [(p['cx'], p['cy']) for p in case['leg2']]
        # the two legs may meet in the same unwrapped cell only across the antimeridian, never merged
        if [cc for cc, _ in got] != want_cells:
            devs.append(('C05', 'dateline-wrong-cells', f'antimeridian case {c}: cells {[cc for cc, _ in got]}; specification (dog-leg at the start latitude): {want_cells}'))
            return devs
        n1 = len(case['leg1'])
        s1 = sum(s for _, s in got[:n1])
        s2 = sum(s for _, s in got[n1:])
        for legname, part, tot, pieces in (('first', got[:n1], s1, case['leg1']), ('second', got[n1:], s2, case['leg2'])):
            for (cc, s), p in zip(part, pieces):
                if tot > 0 and abs(s / tot - float(fr(p['share']))) > 1e-6:
                    devs.append(('C05', 'dateline-wrong-share', f'antimeridian case {c}: {legname} leg cell {cc} gets {s / tot:.9f} of the leg; specification: {float(fr(p["share"])):.9f}'))
                    break
        l1, l2 = np.sqrt(case['len1sq']), np.sqrt(case['len2sq'])
        if abs(s1 - l1 / (l1 + l2)) > 0.01:
            devs.append(('C04', 'dateline-leg-split', f'antimeridian case {c}: first leg receives {s1:.6f}; map-length ratio {l1 / (l1 + l2):.6f}'))
        return devs
    except Exception as e:
        import traceback

        return [('machinery', 'machinery', f'{type(e).__name__}: {e}\n{traceback.format_exc()}')]


SESSION_TRACKS = {
    # way-points in degrees: an oblique multi-segment track and one crossing the antimeridian
    1: ([30.2, 31.7, 33.1, 35.9, 36.4], [10.3, 13.9, 17.2, 18.8, 24.6]),
    2: ([-12.4, -10.9, -9.1, -8.8], [176.3, 178.9, -178.2, -174.7]),
}
SESSION_GRIDS = {1: 1.0, 2: 2.5}   # cell size in degrees


def _session_gridder(g):
    h = SESSION_GRIDS[g]
    lat_lines = np.deg2rad(np.arange(-90.0, 90.0 + h / 2, h))
    lon_lines = np.deg2rad(np.arange(-180.0, 180.0 + h / 2, h))
    return gridder_mod().Gridder(lat_lines, lon_lines)


def run_grid_session(hist):
    """GridSession.tla behaviour in this (freshly forked) process -> the outputs of every gridding, as lists."""
    warnings.simplefilter('ignore')
    try:
        arrays = {t: (np.deg2rad(np.array(la)), np.deg2rad(np.array(lo)), np.arange(1.0, len(la))) for t, (la, lo) in SESSION_TRACKS.items()}
        gridders = {}
        outs = []
        for e in hist:
            g, t = e['g'], e['t']
            if g not in gridders:
                gridders[g] = _session_gridder(g)
            lats, lons, vals = arrays[t]
            try:
                r = gridders[g].grid_trajectory(lats, lons, integrated_variables=(vals.copy(),))
                outs.append([np.asarray(x, float).tolist() for part in r for x in (part if isinstance(part, (list, tuple)) else [part]) if x is not None])
            except Exception as ex:
                outs.append(f'raised {type(ex).__name__}: {ex}')
        return outs
    except Exception as e:
        import traceback

        return {'machinery': f'{type(e).__name__}: {e}\n{traceback.format_exc()}'}


def run_grid_sessions(ctx: Ctx, pid: str):
    """Every sequence of 3 griddings over 2 grids x 2 tracks, each sequence in a fresh process; every answer must
    equal the answer the same (grid, track) request gets as the only request of a fresh process."""
    from .store_replay import fresh_map

    tlc.check(ctx, 'grid/GridSession', 'grid/MC_GridSession.cfg', workers=2)
    neg = tlc.run('grid/GridSession', 'grid/MC_GridSession.cfg', sub={'Design = "function_of_arguments"': 'Design = "memo_by_track"'}, workers=2)
    if 'Invariant HistoryIndependent is violated' not in neg['out']:
        raise MachineryError('negative control failed: memoising crossing points by track only should violate HistoryIndependent')
    ctx.extra['negative_control_sessions'] = 'GridSession with Design=memo_by_track violates HistoryIndependent as expected'
    sessions = tlc.check(ctx, 'grid/GridSession', 'grid/Gen_GridSession.cfg', workers=2)['emitted']
    gridder_mod()
    singles = [[{'g': g, 't': t}] for g in SESSION_GRIDS for t in SESSION_TRACKS]
    res = fresh_map(run_grid_session, singles + sessions)
    alone = {}
    for s, r in zip(singles, res[: len(singles)]):
        if isinstance(r, dict):
            raise MachineryError('gridding session worker failed: ' + r['machinery'])
        alone[(s[0]['g'], s[0]['t'])] = r[0]
    for sess, r in zip(sessions, res[len(singles):]):
        if isinstance(r, dict):
            raise MachineryError('gridding session worker failed: ' + r['machinery'])
        ctx.case_done(('grid-session', [(e['g'], e['t']) for e in sess]), nontrivial=True)
        for k, (e, out) in enumerate(zip(sess, r)):
            if out != alone[(e['g'], e['t'])]:
                before = [(x['g'], x['t']) for x in sess[:k]]
                what = out if isinstance(out, str) else f'{len(out[0])} pieces'
                ref = alone[(e['g'], e['t'])]
                ctx.violation('session:history-dependent', f'gridding track {e["t"]} on grid {e["g"]} ({SESSION_GRIDS[e["g"]]} degree cells) after {before} in the same process gives {what}; '
                              f'as the only request of a process it gives {ref if isinstance(ref, str) else str(len(ref[0])) + " pieces"} (cells or amounts differ)', {'grid_session': sess})
                break


def run_grid(ctx: Ctx, pid: str):
    ctx.rule = (
        'segments = every ordered pair of points of the quarter-cell lattice (9x9 quick: 6 561; 13x13 thorough: 28 561) incl. points on lines/corners, '
        'axis-parallel, diagonal, westward/southward and zero-length segments, on the equatorial 0.01-degree grid (exact shares) and on 1- and 5-degree grids at '
        'latitudes up to 60 degrees (cells, order, conservation band); multi-segment trajectories with altitude/time axes and state variables by seeded TLC random walks; every case carries a float64 and a whole-number (int64) integrated variable; '
        'all antimeridian dog-leg placements x start altitude/time cells (10 368); every sequence of 3 griddings over 2 grids x 2 tracks in one fresh process each (GridSession.tla); non-trivial = segment crosses at least one grid line or is degenerate'
    )
    ctx.assumptions += [
        'shares below 1e-9 of the segment value and neighbouring pieces in the same cell are merged before comparison',
        'exact share comparison only where map-line and metric fractions coincide (0.01-degree cells at the equator); elsewhere 1 <= sum <= 1.05',
        'the split between the two legs of an antimeridian dog-leg is compared within 1% (not lattice-rational)',
        'shapely (not installed) is stubbed; only grid_polygon uses it',
    ]
    if ctx.replay:
        case = json.loads(Path(ctx.replay).read_text())['case']
        if 'grid_session' in case:
            run_grid_sessions(ctx, pid)
            return
        res = run_segment((case['seg'], tuple(case['frame']))) if 'seg' in case else (run_chain((case['chain'], tuple(case['frame']))) if 'chain' in case else run_along(case['along']) if 'along' in case else run_dateline(case['dateline']))
        for prop, key, desc in res:
            if prop == pid:
                ctx.violation(key, desc, case)
        return
    run_grid_sessions(ctx, pid)
    maxc = 8 if ctx.quick else 12
    sub = None if ctx.quick else {'MaxC = 8': 'MaxC = 12'}
    tlc.check(ctx, 'grid/GridSegment', 'grid/MC_GridSegment.cfg', sub=sub, timeout=1800)
    segs = tlc.check(ctx, 'grid/GridSegmentGen', 'grid/Gen_GridSegment.cfg', sub=sub, timeout=1800)['emitted']
    dls = tlc.check(ctx, 'grid/GridDateline', 'grid/MC_GridDateline.cfg', workers=8)['emitted']
    alongs = tlc.check(ctx, 'grid/GridAlong', 'grid/MC_GridAlong.cfg', workers=4)['emitted']
    nchain = 400 if ctx.quick else 5000
    chains = tlc.check(ctx, 'grid/GridChain', 'grid/Sim_GridChain.cfg', workers=1, simulate=f'num={nchain}', depth=8, seed=ctx.seed)['emitted']
    # GridChain.tla Staircases: two legs along latitude lines running the same way over the same meridians
    chains += tlc.check(ctx, 'grid/GridChain', 'grid/Gen_GridStairs.cfg', workers=4)['emitted']
    ctx.exhaustive = True
    frames = [(maxc, 0.01, 0.0, 0.0)]
    scale = [(maxc, 1.0, 30.0, 10.0), (maxc, 5.0, -45.0, 100.0), (maxc, 1.0, 57.0, -120.0)]
    jobs = [(s, frames[0]) for s in segs]
    sample = list(segs)
    ctx.rng.shuffle(sample)
    for fk in scale:
        jobs += [(s, fk) for s in sample[: (1500 if ctx.quick else 8000)]]
    ctx.log(f'gridding {len(jobs)} segments, {len(chains)} trajectories, {len(dls)} antimeridian cases')
    others = {}

    def report(devs, case):
        seen = set()
        for prop, key, desc in devs:
            if prop == 'machinery':
                raise MachineryError('gridding worker failed: ' + desc)
            if prop != pid:
                others[prop] = others.get(prop, 0) + 1
            elif key not in seen:
                seen.add(key)
                ctx.violation(key, desc, case)

    for (case, fk), devs in zip(jobs, pmap(run_segment, jobs)):
        ctx.case_done(('seg', case['s'], fk), nontrivial=len(case['p']) > 1 or (case['s'][0] == case['s'][2] and case['s'][1] == case['s'][3]))
        ctx.sample({'segment': case['s'], 'pieces': case['p'], 'frame': fk}, limit=2)
        report(devs, {'seg': case, 'frame': fk})
    cj = [(c, frames[0]) for c in chains]
    for (case, fk), devs in zip(cj, pmap(run_chain, cj)):
        ctx.case_done(('chain', case['pts']), nontrivial=True)
        ctx.sample({'trajectory': case['pts'], 'gridded': case['g'][:3]}, limit=3)
        report(devs, {'chain': case, 'frame': fk})
    for case, devs in zip(alongs, pmap(run_along, alongs)):
        ctx.case_done(('along', case['c']), nontrivial=True)
        ctx.sample({'along_antimeridian': case['c'], 'rows': case['rows']}, limit=2)
        report(devs, {'along': case})
    for case, devs in zip(dls, pmap(run_dateline, dls)):
        ctx.case_done(('dateline', case['c']), nontrivial=True)
        ctx.sample({'antimeridian': case['c'], 'leg1': case['leg1'], 'leg2': case['leg2']}, limit=4)
        report(devs, {'dateline': case})
    if others:
        ctx.extra['deviations_belonging_to_other_properties'] = others
