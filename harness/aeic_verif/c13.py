"""C13 — schedule import creates exactly the flight instances the schedule row implies.

spec:    specs/missions/Schedule.tla (day numbers of 2019, weekday rule, open
         ranges, zone rules incl. DST switch days, arrival day offset, dropped
         misordered instances, row validity, distance plausibility rule;
         InstancesInRange, NeverDropPlausible).
binding: every TLC-enumerated row is rendered as a CSV dict row, parsed by
         CSVEntry.from_csv_row and imported by OAGDatabase.add; the produced
         schedules / flights rows and warnings are read back from SQLite and
         compared with the specification (UTC instants exact to the second).
"""

from __future__ import annotations

import atexit
import datetime as dt
import json
import shutil
import tempfile
import warnings
from pathlib import Path

from . import tlc
from .core import Ctx, MachineryError
from .store_replay import pmap

BASE = 1546300800          # 2019-01-01T00:00:00Z
BASE_DAY = 17897           # days from 1970-01-01 to 2019-01-01
_st = {}
PAIR_KM = {}


def db():
    if 'db' not in _st:
        from AEIC.missions.oag import OAGDatabase

        from .traj_common import load_config

        load_config()
        d = Path(tempfile.mkdtemp(prefix='c13-'))
        atexit.register(shutil.rmtree, d, True)
        _st['db'] = OAGDatabase(str(d / 'm.sqlite'), 2019)
        _st['line'] = 10
        # what a row "records" is what ANOTHER connection to the database file finds once the call has returned
        import sqlite3

        _st['ro'] = sqlite3.connect(str(d / 'm.sqlite'))
    return _st['db']


def ymd(day):
    return (dt.date(2019, 1, 1) + dt.timedelta(days=day)).strftime('%Y%m%d')


def csv_row(r):
    miles = 0 if r['pct'] == 0 else round((r['gc'] * r['pct'] // 100) / 1.609344)
    row = {
        'carrier': 'XX', 'fltno': '123', 'depapt': r['o'], 'depctry': 'US', 'arrapt': r['d'], 'arrctry': 'US',
        'deptim': f'{r["dep"] // 60:02d}{r["dep"] % 60:02d}', 'arrtim': f'{r["arr"] // 60:02d}{r["arr"] % 60:02d}',
        'arrday': {-1: 'P', 0: '', 1: '1', 2: '2'}[r['arrday']],
        'days': ''.join(str(k) if k in r['days'] else ' ' for k in range(1, 8)),
        'stops': '00', 'genacft': '737', 'inpacft': '738', 'service': 'J', 'seats': '0166', 'operating': '',
        'efffrom': '00000000' if r['from'] == 400 else ymd(r['from']), 'effto': '99999999' if r['to'] == 400 else ymd(r['to']),
        'longest': 'L', 'distance': f'{miles:07d}',
    }  # fmt: skip
    sk = r['skip']
    if sk == 'service_V':
        row['service'] = 'V'
    elif sk == 'service_U':
        row['service'] = 'U'
    elif sk == 'stops':
        row['stops'] = '01'
    elif sk == 'non_operating':
        row['operating'] = 'N'
    elif sk == 'equipment_BUS':
        row['genacft'] = 'BUS'
    elif sk == 'service_blank':
        row['service'] = ''
    elif sk == 'specific_code_BUS':
        row['inpacft'] = 'BUS'
    elif sk == 'unknown_airport':
        row['depapt'] = 'QQQ'
    return row


def run_case(case):
    warnings.simplefilter('ignore')
    try:
        import logging

        logging.disable(logging.CRITICAL)
        from AEIC.missions.oag import CSVEntry
        from AEIC.utils import GEOD
        from AEIC.utils.airports import airport

        r = case['row']
        d = db()
        key = (r['o'], r['d'])
        if key not in PAIR_KM:
            a, b = airport(r['o']), airport(r['d'])
            PAIR_KM[key] = GEOD.inv(a.longitude, a.latitude, b.longitude, b.latitude)[2] / 1000.0
        gc = PAIR_KM[key]
        if abs(gc - r['gc']) > 1.0:
            raise MachineryError(f'distance table of Schedule.tla is stale: {key} is {gc:.1f} km, table says {r["gc"]}')
        # the distance rule must not be decided by rounding: skip rows within 2 % of a threshold
        if r['pct']:
            given = round((r['gc'] * r['pct'] // 100) / 1.609344) * 1.609344
            diff = abs(given - gc)
            if abs(diff - 50.0) < 2.0 or abs(100 * diff / gc - 10.0) < 0.5:
                return 'skipped-tie'
        _st['line'] += 1
        line = _st['line']
        label = f'row {r["o"]}-{r["d"]} eff {r["from"]}..{r["to"]} (400 = open) days {r["days"]} dep {r["dep"]} arr {r["arr"]} (+{r["arrday"]}d) stated distance {r["pct"]}% of {r["gc"]} km, {r["skip"]}'
        devs = []
        cur = _st['ro'].cursor()
        before = cur.execute('SELECT COALESCE(MAX(id), 0) FROM flights').fetchone()[0]
        try:
            e = CSVEntry.from_csv_row(csv_row(r), line)
            # Schedule.tla ImportForms: a row is added on its own (add commits) or as part of a batch (add without
            # commit, then commit) - rows take the two forms in turn
            if line % 2 == 0:
                ok = e is not None and d.add(e)
            else:
                ok = e is not None and d.add(e, commit=False)
                d.commit()
        except Exception as ex:
            d._conn.rollback()
            return [(f'import-raised-{type(ex).__name__}:{"open-range" if 400 in (r["from"], r["to"]) else "closed-range"}', f'{label}: import raised {type(ex).__name__}: {ex}')]
        # Schedule.tla RowsAreValues: the parsed row handed to the database is the caller's - after the import it still says
        # what the schedule line says (an open end stays open: the same row put to the database of another year means
        # THAT year's start / end)
        if e is not None:
            import dataclasses

            e2 = CSVEntry.from_csv_row(csv_row(r), line)
            changed = [f.name for f in dataclasses.fields(e) if getattr(e, f.name) != getattr(e2, f.name)]
            if changed:
                return [('row-modified', f'{label}: after the import the parsed row differs from the schedule line in {changed} ({[(getattr(e2, n), getattr(e, n)) for n in changed][:3]})')]
        after = cur.execute('SELECT COALESCE(MAX(id), 0) FROM flights').fetchone()[0]
        imported = bool(ok) and after > before
        if imported != bool(case['imported']):
            if r['skip'] in ('none', 'service_blank', 'specific_code_BUS') and r['pct']:
                # is the decision the one the rule makes with latitude and longitude exchanged?
                a, b = airport(r['o']), airport(r['d'])
                sw = GEOD.inv(a.latitude, a.longitude, b.latitude, b.longitude)[2] / 1000.0
                given = round((r['gc'] * r['pct'] // 100) / 1.609344) * 1.609344
                sw_ok = not (abs(given - sw) > 50.0 and 100 * abs(given - sw) / sw > 10.0) and not sw < 1.0
                if sw_ok == imported:
                    return [('distance-rule:latlon-swapped', f'{label}: {"imported" if imported else "dropped"}; specification: {"imported" if case["imported"] else "skipped"}; the decision is the one the rule makes with the geodesic evaluated on (lat, lon) instead of (lon, lat): {sw:.1f} km instead of {gc:.1f} km')]
            if imported:
                why = 'implausible distance' if r['skip'] in ('none', 'service_blank', 'specific_code_BUS') else r['skip']
                devs.append((f'row-not-skipped:{why.replace(" ", "-")}', f'{label}: imported; specification: skipped ({why})'))
            else:
                w = d.warnings.get(line)
                devs.append(('plausible-row-dropped', f'{label}: dropped ({w}); specification: imported with {len(case["inst"])} instances'))
            return devs
        if not imported:
            return devs
        fid = after
        got = cur.execute('SELECT departure_timestamp, arrival_timestamp, day FROM schedules WHERE flight_id = ? ORDER BY departure_timestamp', (fid,)).fetchall()
        want = [(BASE + a * 60, BASE + b * 60, BASE_DAY + a // 1440) for a, b in case['inst']]
        if [g[:2] for g in got] != [w[:2] for w in want]:
            gs, ws = {g[:2] for g in got}, {w[:2] for w in want}
            if len(got) != len(want):
                what = f'instance-count:{"open-range" if 400 in (r["from"], r["to"]) else "closed-range"}'
                detail = f'{len(got)} instances; specification: {len(want)}'
            else:
                what = 'instance-times'
                x = sorted(gs - ws)[:1]
                y = sorted(ws - gs)[:1]
                detail = f'instance {x} (UTC s) not implied; specification has {y}'
            devs.append((what, f'{label}: {detail}'))
        elif [g[2] for g in got] != [w[2] for w in want]:
            devs.append(('instance-day-number', f'{label}: day numbers {[g[2] for g in got][:3]}...; specification: {[w[2] for w in want][:3]}...'))
        fl = cur.execute('SELECT number_of_flights, od_pair, day_of_week_mask, departure_time, arrival_time, arrival_day_offset, effective_from, effective_to FROM flights WHERE id = ?', (fid,)).fetchone()
        if fl[0] != len(got) or fl[0] != len(want):
            devs.append(('flight-count-field', f'{label}: number_of_flights = {fl[0]}, {len(got)} instances stored; specification: {len(want)}'))
        if fl[1] != min(r['o'], r['d']) + max(r['o'], r['d']):
            devs.append(('od-pair', f'{label}: od_pair = {fl[1]}'))
        if fl[2] != sum(1 << (k - 1) for k in r['days']) or fl[3] != r['dep'] or fl[4] != r['arr'] or fl[5] != r['arrday']:
            devs.append(('flight-fields', f'{label}: stored mask/times/offset {fl[2:6]}'))
        wf = dt.date(2019, 1, 1) + dt.timedelta(days=0 if r['from'] == 400 else r['from'])
        wt = dt.date(2019, 1, 1) + dt.timedelta(days=364 if r['to'] == 400 else r['to'])
        if (fl[6], fl[7]) != (wf.isoformat(), wt.isoformat()):
            devs.append(('effective-range-fields', f'{label}: stored effective range {fl[6]}..{fl[7]}; specification: {wf}..{wt}'))
        w = d.warnings.get(line)
        warned = w is not None and 'arrival time before departure' in str(w.warn_type.value)
        if warned != (case['dropped'] > 0):
            devs.append(('misordering-warning', f'{label}: warning recorded = {warned}; specification: {case["dropped"]} instances dropped for arriving before departing'))
        return devs
    except MachineryError as e:
        return [('machinery', str(e))]
    except Exception as e:
        import traceback

        return [('machinery', f'{type(e).__name__}: {e}\n{traceback.format_exc()}')]


def run(ctx: Ctx):
    ctx.rule = (
        'rows (TLC-enumerated, 1 165): 9 airport pairs over 7 time zones (incl. Phoenix without DST, London, Paris; one pair of airports whose cities share a name but not a zone) x 3 local departure x 3 arrival times x arrival '
        'day offsets -1..2 over a range spanning both spring DST switches; 4 short ranges x all 128 weekday sets and 3 open-ended ranges x 5 weekday sets; '
        '6 stated-distance ratios x 7 skip reasons x 8 pairs; non-trivial = range spans a DST switch, open-ended, or row must be skipped'
    )
    ctx.assumptions += [
        'zone rules of 2019 for the zones of the shipped test airports are constants of Schedule.tla; local times inside the DST switch hours are not generated',
        'great-circle distances of the 8 pairs are constants of Schedule.tla, checked against pyproj at run time (1 km); rows within 2 % of a distance-rule threshold are skipped',
    ]
    ctx.not_covered += ['local times inside the two DST switch hours (zoneinfo fold/gap semantics)', 'airports outside the test airport file']
    if ctx.replay:
        case = json.loads(Path(ctx.replay).read_text())['case']
        res = run_case(case)
        for key, desc in res if isinstance(res, list) else []:
            ctx.violation(key, desc, case)
        return
    tlc.check(ctx, 'missions/Schedule', 'missions/MC_Schedule.cfg', workers=8)
    cases = tlc.check(ctx, 'missions/ScheduleGen', 'missions/Gen_Schedule.cfg', workers=8)['emitted']
    ctx.exhaustive = True
    ctx.log(f'importing {len(cases)} schedule rows')
    skipped = 0
    for case, devs in zip(cases, pmap(run_case, cases)):
        if devs == 'skipped-tie':
            skipped += 1
            continue
        r = case['row']
        ctx.case_done(r, nontrivial=(not case['imported']) or 400 in (r['from'], r['to']) or (r['from'] <= 68 <= r['to']) or (r['from'] <= 306 <= r['to']))
        ctx.sample({'row': r, 'imported': case['imported'], 'instances': case['inst'][:3], 'dropped': case['dropped']}, limit=3)
        seen = set()
        for key, desc in devs:
            if key == 'machinery':
                raise MachineryError('schedule worker failed: ' + desc)
            if key not in seen:
                seen.add(key)
                ctx.violation(key, desc, case)
    ctx.extra['rows_skipped_as_threshold_ties'] = skipped
