"""pytest plugin that records executions of the repository's own tests as
event traces (code -> spec direction).  Active only when AEIC_VERIF_TRACE=1;
nothing in /repo is modified: recorders wrap public entry points from outside.

  AEIC_VERIF_TRACE_DIR   directory receiving <kind>.ndjson (one line per test)
  AEIC_VERIF_RECORDERS   comma-separated recorder kinds (config, store, ...)
"""

from __future__ import annotations

import importlib
import json
import os

import pytest

_cur = None
_kinds: list[str] = []


def emit(kind: str, event: dict):
    if _cur is not None:
        _cur.setdefault(kind, []).append(event)


def start(name: str):
    global _cur
    _cur = {'__name__': name}
    for k in _kinds:
        mod = importlib.import_module(f'aeic_verif.rec_{k}')
        if hasattr(mod, 'on_start'):
            mod.on_start()


def stop() -> dict:
    global _cur
    cur, _cur = _cur, None
    return cur or {}


def install(kinds):
    global _kinds
    _kinds = list(kinds)
    for k in _kinds:
        importlib.import_module(f'aeic_verif.rec_{k}').install(emit)


def pytest_configure(config):
    if os.environ.get('AEIC_VERIF_TRACE') != '1':
        return
    install([k for k in os.environ.get('AEIC_VERIF_RECORDERS', '').split(',') if k])


@pytest.hookimpl(tryfirst=True)
def pytest_runtest_setup(item):
    if os.environ.get('AEIC_VERIF_TRACE') == '1':
        start(item.nodeid)


@pytest.hookimpl(trylast=True)
def pytest_runtest_teardown(item):
    if os.environ.get('AEIC_VERIF_TRACE') != '1':
        return
    cur = stop()
    out = os.environ.get('AEIC_VERIF_TRACE_DIR')
    if not out:
        return
    name = cur.pop('__name__', item.nodeid)
    for kind, evs in cur.items():
        with open(os.path.join(out, f'{kind}.ndjson'), 'a') as f:
            f.write(json.dumps({'t': name, 'ev': evs}, default=str) + '\n')
