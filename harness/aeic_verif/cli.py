"""./check <Cxx> [--tier quick|thorough] [--replay <path>] | setup | selftest | all | extras"""

from __future__ import annotations

import argparse
import importlib
import os
import sys

from . import tlc
from .core import SPECS, run_check

PROPS = [f'C{i:02d}' for i in range(1, 21)]


def setup() -> int:
    bad = 0
    for p in sorted(SPECS.rglob('*.tla')):
        ok, out = tlc.sany(p)
        print(('ok   ' if ok else 'FAIL ') + str(p.relative_to(SPECS)))
        if not ok:
            bad += 1
            print(out[-1500:])
    return 1 if bad else 0


def main(argv=None) -> int:
    ap = argparse.ArgumentParser(prog='check')
    ap.add_argument('what')
    ap.add_argument('--tier', default=os.environ.get('VERIF_TIER', 'quick'), choices=['quick', 'thorough'])
    ap.add_argument('--replay', default=None)
    ap.add_argument('--seed', type=int, default=int(os.environ.get('VERIF_SEED', '0') or 0))
    a = ap.parse_args(argv)
    if a.what == 'setup':
        return setup()
    if a.what == 'selftest':
        from . import selftest

        return selftest.main()
    if a.what == 'all':
        rc = 0
        for p in PROPS:
            try:
                mod = importlib.import_module(f'aeic_verif.{p.lower()}')
            except ModuleNotFoundError:
                continue
            rc = max(rc, run_check(p, a.tier, a.seed, mod.run))
        return rc
    if a.what.lower() == 'extras' or a.what.upper() in ('X01', 'X02', 'X03', 'X04', 'X05', 'X06', 'X07', 'X08', 'X09'):
        from .extras import EXTRAS

        rc = 0
        for xid, fn in EXTRAS.items():
            if a.what.lower() == 'extras' or a.what.upper() == xid:
                rc = max(rc, run_check(xid, a.tier, a.seed, fn, a.replay))
        return rc
    pid = a.what.upper()
    if pid not in PROPS:
        print(f'unknown property {a.what}', file=sys.stderr)
        return 2
    mod = importlib.import_module(f'aeic_verif.{pid.lower()}')
    return run_check(pid, a.tier, a.seed, mod.run, a.replay)


if __name__ == '__main__':
    sys.exit(main())
