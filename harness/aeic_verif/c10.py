"""C10 — rejected or interrupted store operations lose and corrupt nothing.

spec:    specs/store/Store.tla (AddRejected: UNCHANGED state;
         RefusalsChangeNothing), specs/store/Merge.tla (fault at every
         file-system step; NothingLost, MetaImpliesComplete, RefusalIsClean).
binding: TLC-generated histories with rejected additions of each kind at
         every position (create, append and in-memory sessions) replayed on
         real files; a deviation that disappears when the rejected additions
         are left out of the history is attributed to the rejection.
"""

from . import c07
from .store_checks import run_store


def run(ctx):
    ctx.rule = c07.RULE + '; C10 reports accepted invalid additions and deviations caused by a rejected addition; plus merge faults'
    run_store(ctx, 'C10', seed_offset=10)
    from . import merge_checks

    merge_checks.run_merge(ctx, 'C10')
