"""C10 — rejected or interrupted store operations lose and corrupt nothing.

spec:    specs/store/Store.tla (AddRejected: UNCHANGED state;
         RefusalsChangeNothing), specs/store/Merge.tla (fault at every
         file-system step; NothingLost, MetaImpliesComplete, RefusalIsClean).
binding: TLC-generated histories with rejected additions of each kind at
         every position (create, append and in-memory sessions) replayed on
         real files; a deviation that disappears when the rejected additions
         are left out of the history is attributed to the rejection.
"""

from . import c07
from .store_checks import run_store


def run(ctx):
    ctx.rule = c07.RULE + '; C10 reports accepted invalid additions and deviations caused by a rejected addition; plus merge faults'
    if ctx.replay:
        import json
        from pathlib import Path

        case = json.loads(Path(ctx.replay).read_text())['case']
        if 'codec' in case:
            from . import c03

            for f, what, detail in c03.run_case(case['codec']):
                if f == 'refused-add':
                    ctx.violation(f'{f}:{what}', detail, case)
            return
    run_store(ctx, 'C10', seed_offset=10)
    if not ctx.replay:
        # a further kind of rejected addition - a species the file has no position for - lives in the codec family
        from . import c03

        c03.run_refused(ctx)
    from . import merge_checks

    merge_checks.run_merge(ctx, 'C10')
