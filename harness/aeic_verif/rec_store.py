"""Recorder for TrajectoryStore (StoreTrace.tla events), one trace per store file.

Only the outermost public call is recorded (nested internal calls such as the
__getitem__ inside get_flight are skipped).  Payloads are content digests."""

from __future__ import annotations

import hashlib
import os

import numpy as np

_emit = None
_installed = False
_depth = 0
import weakref

_keys = weakref.WeakKeyDictionary()   # store object -> trace key (ids are re-used after garbage collection)
BASE_ONLY = None


def digest(traj) -> str:
    h = hashlib.sha1()
    try:
        global BASE_ONLY
        if BASE_ONLY is None:
            from AEIC.trajectories.trajectory import BASE_FIELDS

            BASE_ONLY = set(BASE_FIELDS)
        # only the base field set: the same trajectory is seen with and without
        # associated field sets depending on how the store was opened
        for name in sorted(BASE_ONLY):
            v = traj._data.get(name)
            h.update(name.encode())
            if name == 'flight_id':
                continue
            if isinstance(v, np.ndarray):
                h.update(np.ascontiguousarray(v[: traj._size]).tobytes())
            elif v is None or (name == 'name' and v == ''):
                h.update(b'<none>')
            elif hasattr(v, 'items'):
                for k, x in sorted(v.items(), key=lambda kv: str(kv[0])):
                    h.update(str(k).encode())
                    if hasattr(x, 'items'):
                        for k2, x2 in sorted(x.items(), key=lambda kv: str(kv[0])):
                            h.update(str(k2).encode() + np.asarray(x2, float).tobytes())
                    else:
                        h.update(np.asarray(x, float).tobytes())
            else:
                h.update(repr(float(v) if isinstance(v, (int, float, np.floating, np.integer)) else v).encode())
    except Exception as e:  # unreadable object
        h.update(f'!{type(e).__name__}'.encode())
    return h.hexdigest()[:12]


def fid(traj) -> int:
    v = getattr(traj, 'flight_id', None) if traj is not None else None
    try:
        return 0 if v is None else int(v) + 1   # 0 = no identifier; real identifiers (which may be 0) are shifted by one
    except Exception:
        return 0


def key_of(store) -> str | None:
    return _keys.get(store)


def _ev(store, event):
    k = key_of(store)
    if k is not None and _emit is not None:
        _emit('store', dict(event, key=k))


def install(emit):
    global _emit, _installed
    _emit = emit
    if _installed:
        return
    _installed = True
    from AEIC.trajectories.store import TrajectoryStore as TS

    def outer(fn):
        def w(self, *a, **kw):
            global _depth
            _depth += 1
            try:
                return fn(self, *a, **kw)
            finally:
                _depth -= 1

        return w

    orig_init = TS.__init__

    def init(self, *a, **kw):
        global _depth
        base = kw.get('base_file')
        mode = kw.get('mode', TS.FileMode.READ)
        m = {'w': 'create', 'a': 'append', 'r': 'read'}.get(str(getattr(mode, 'value', mode)), 'read')
        merged = base is not None and os.path.isdir(str(base))
        if base is None:
            key, m = f'mem:{id(self)}', 'mem'
        else:
            key = 'file:' + os.path.realpath(str(base))
        ok = False
        _depth += 1
        try:
            orig_init(self, *a, **kw)
            ok = True
        finally:
            _depth -= 1
            if _depth == 0 and not merged:
                _keys[self] = key
                n = 0
                ix = 'undecided'
                if ok and m in ('read', 'append'):
                    try:
                        _depth += 1
                        n = len(self)
                    finally:
                        _depth -= 1
                    ix = 'yes' if self.indexable else 'no'
                _ev(self, {'op': 'open', 'mode': m, 'ok': 'yes' if ok else 'no', 'n': n, 'ix': ix})
                if not ok:
                    _keys.pop(self, None)

    TS.__init__ = init

    orig_add = TS.add

    def add(self, traj):
        global _depth
        top = _depth == 0
        p, i = (digest(traj), fid(traj)) if top else (None, 0)
        ok, ret = False, -1
        _depth += 1
        try:
            ret = orig_add(self, traj)
            ok = True
            return ret
        finally:
            _depth -= 1
            if top:
                _ev(self, {'op': 'add', 'p': p, 'id': i, 'ok': 'yes' if ok else 'no', 'ret': int(ret)})

    TS.add = add

    orig_get = TS.__getitem__

    def getitem(self, idx):
        global _depth
        top = _depth == 0
        ok, t = False, None
        _depth += 1
        try:
            t = orig_get(self, idx)
            ok = True
            return t
        finally:
            _depth -= 1
            if top and isinstance(idx, (int, np.integer)) and idx >= 0:
                _ev(self, {'op': 'get', 'i': int(idx), 'ok': 'yes' if ok else 'no', 'p': digest(t) if ok else '-', 'id': fid(t) if ok else 0})

    TS.__getitem__ = getitem

    orig_len = TS.__len__

    def length(self):
        global _depth
        top = _depth == 0
        _depth += 1
        try:
            n = orig_len(self)
        finally:
            _depth -= 1
        if top:
            _ev(self, {'op': 'len', 'n': int(n)})
        return n

    TS.__len__ = length

    def simple(name, opname):
        orig = getattr(TS, name)

        def w(self, *a, **kw):
            global _depth
            top = _depth == 0
            ok = False
            _depth += 1
            try:
                r = orig(self, *a, **kw)
                ok = True
                return r
            finally:
                _depth -= 1
                if top:
                    _ev(self, {'op': opname, 'ok': 'yes' if ok else 'no'})
                    if opname == 'save' and ok and a:
                        pass

        setattr(TS, name, w)

    simple('close', 'close')
    simple('sync', 'sync')

    orig_save = TS.save

    def save(self, base_file, *a, **kw):
        global _depth
        top = _depth == 0
        ok = False
        _depth += 1
        try:
            r = orig_save(self, base_file, *a, **kw)
            ok = True
            return r
        finally:
            _depth -= 1
            if top:
                _ev(self, {'op': 'save', 'ok': 'yes' if ok else 'no'})

    TS.save = save

    orig_gf = TS.get_flight

    def get_flight(self, flight_id):
        global _depth
        top = _depth == 0
        ok, t = False, None
        _depth += 1
        try:
            t = orig_gf(self, flight_id)
            ok = True
            return t
        finally:
            _depth -= 1
            if top:
                _ev(self, {'op': 'getflight', 'id': int(flight_id) + 1, 'ok': 'yes' if ok else 'no', 'p': ('none' if t is None else digest(t)) if ok else '-'})

    TS.get_flight = get_flight

    # iteration and context-manager exit go through the wrapped methods; the
    # iterator's len()/[] calls are public calls of the iterator's client
    for name in ('create_associated',):
        setattr(TS, name, outer(getattr(TS, name)))
