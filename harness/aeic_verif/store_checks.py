"""Common driver for the Store.tla-based checks (C07, C08, C10a)."""

from __future__ import annotations

import json
from pathlib import Path

from . import tlc
from .core import Ctx
from .store_replay import replay_store, run_behaviour

KINDS_FOCUS = {
    # weights of call kinds in the random walk, per property focus
    'C07': None,  # the module's default mix
}


def model_check(ctx: Ctx):
    tlc.check(ctx, 'store/MC_Store', 'store/MC_Store.cfg', coverage=True)
    if not ctx.quick:
        tlc.check(ctx, 'store/MC_Store', 'store/MC_Store.cfg', sub={'Cap = 1': 'Cap = 2', 'MaxItems = 3': 'MaxItems = 4'})
        tlc.check(ctx, 'store/MC_Store', 'store/MC_Store.cfg', sub={'Cap = 1': 'Cap = 99', 'Payloads = {1, 2}': 'Payloads = {1, 2, 3}'})


def generate(ctx: Ctx, seed_offset=0):
    d = 3 if ctx.quick else 4
    if ctx.quick and ctx.pid != 'C07':
        d = 2  # the depth-3 exhaustive set is replayed by C07's quick check
    gen = tlc.check(ctx, 'store/StoreGen', 'store/Gen_Store.cfg', sub={'D = 3': f'D = {d}'})
    n = (250 if ctx.pid == 'C07' else 500) if ctx.quick else 4000
    sim = tlc.check(ctx, 'store/StoreGen', 'store/Sim_Store.cfg', workers=1, simulate=f'num={n}', depth=18, seed=ctx.seed + seed_offset)
    nb = 40 if ctx.quick else 400
    simcap = tlc.check(
        ctx, 'store/StoreGen', 'store/Sim_Store.cfg', workers=1, simulate=f'num={nb}', depth=18, seed=ctx.seed + 1000 + seed_offset,
        sub={'Cap = 99': 'Cap = 2', 'MaxItems = 5': 'MaxItems = 4'},
    )
    # families with a forced prologue: an in-memory store filled to the capacity of its cache (C07), an identified
    # file opened for appending followed by every sequence of look-ups / identified additions / syncs (C08)
    fam_mem, fam_lookup = [], []
    if ctx.pid in ('C07', 'C10'):
        fam_mem = tlc.check(ctx, 'store/StoreGen', 'store/Gen_StoreMem.cfg', sub=None if ctx.quick else {'D = 3': 'D = 4'})['emitted']
    if ctx.pid == 'C08':
        fam_lookup = tlc.check(ctx, 'store/StoreGen', 'store/Gen_StoreLookup.cfg', sub=None if ctx.quick else {'D = 4': 'D = 5'})['emitted']
        # the lookup family under every identifier rendering (StoreGen.tla IdRenderings)
        fam_lookup = [dict(b, idr=r) for b in fam_lookup for r in ('small', 'wide', 'zero_based', 'signed')]
    fam_rej = []
    if ctx.pid == 'C10':
        fam_rej = tlc.check(ctx, 'store/StoreGen', 'store/Gen_StoreRej.cfg', sub=None if ctx.quick else {'D = 3': 'D = 4'})['emitted']
        # a history with an inconsistent-identifier addition also under the renderings that have the identifier 0
        # (StoreGen.tla IdRenderings: 0 is an identifier, an unidentified store refuses it like any other)
        more = []
        for i, b in enumerate(fam_rej):
            if any(s['ev']['op'] == 'addbad' and s['ev']['arg'] == 'id_inconsistent' for s in b['h']):
                r = ('zero_based', 'signed')[i % 2]
                if b.get('idr') != r:
                    more.append(dict(b, idr=r))
        fam_rej = fam_rej + more
    fam_lookup = fam_lookup + fam_rej
    ctx.extra['family_histories'] = {'in_memory_at_capacity': len(fam_mem), 'lookup_after_open_append': len(fam_lookup) - len(fam_rej), 'rejections_on_a_new_file': len(fam_rej)}
    return gen['emitted'] + fam_lookup, sim['emitted'], simcap['emitted'] + fam_mem


def run_store(ctx: Ctx, pid: str, seed_offset=0):
    if ctx.replay:
        case = json.loads(Path(ctx.replay).read_text())['case']
        replay_store(ctx, [case['behaviour']], pid, big=case.get('big', False), cache_mb=case.get('cache_mb'))
        return
    model_check(ctx)
    gen, sim, simcap = generate(ctx, seed_offset)
    ctx.log(f'replaying {len(gen)} exhaustive + {len(sim)} random-walk behaviours (unbounded cache) and {len(simcap)} under real cache pressure (capacity 2)')
    replay_store(ctx, gen + sim, pid)
    # real cache pressure: 1 MB cache, ~450 kB trajectories => capacity 2 items (spec Cap = 2)
    replay_store(ctx, simcap, pid, big=True, cache_mb=1)
    # the smallest cache that works: its capacity in bytes EQUALS the size of the larger payload (spec Cap = 1) - one
    # trajectory fits exactly, nothing is oversized
    if pid in ('C07', 'C10'):
        from .store_replay import make_payload

        simcap1 = tlc.check(
            ctx, 'store/StoreGen', 'store/Sim_Store.cfg', workers=1, simulate=f'num={60 if ctx.quick else 600}', depth=18, seed=ctx.seed + 2000 + seed_offset,
            sub={'Cap = 99': 'Cap = 1', 'MaxItems = 5': 'MaxItems = 3'},
        )['emitted']  # fmt: skip
        simcap1 = [b for b in simcap1 if not any(s['ev']['op'] == 'addbad' and s['ev']['arg'] == 'oversized' for s in b['h'])]
        groups = {}
        for b in simcap1:
            ps = [s['ev']['arg'][0] for s in b['h'] if s['ev']['op'] == 'add' and isinstance(s['ev']['arg'], list)] + [it['p'] for it in b['added'] if isinstance(it.get('p'), int)]
            groups.setdefault((b.get('flavour') == 'extras', max(ps + [2])), []).append(b)
        for (extras, maxp), bs in sorted(groups.items()):
            replay_store(ctx, bs, pid, big=False, cache_mb=make_payload(maxp, 0, extras=extras).nbytes / 2**20)
    validate_repo_store_traces(ctx, pid)


def validate_repo_store_traces(ctx: Ctx, pid: str):
    """code -> spec: the repository's own storage tests, recorded per store file by
    rec_store and validated by TLC against StoreTrace.tla."""
    from .c18 import record_repo_tests

    tests = ['tests/test_storage.py', 'tests/test_emissions_storage.py']
    if not ctx.quick:
        tests += ['tests/test_trajectory_simulation.py::test_trajectory_simulation_basic', 'tests/test_golden.py']
    got = record_repo_tests(tests, 'store')
    traces = []
    for t in got.get('store', []):
        by = {}
        for e in t['ev']:
            by.setdefault(e['key'], []).append({k: v for k, v in e.items() if k != 'key'})
        for k, evs in by.items():
            if k.startswith('file:') and k.endswith('.aeic-store'):
                continue
            traces.append({'t': f"{t['t']}|{k.split('/')[-1]}#{len(traces)}", 'ev': evs})
    rej = tlc.validate_traces(ctx, 'store/StoreTrace', 'store/StoreTrace.cfg', traces, timeout=1800)
    by = {t['t']: t for t in traces}
    for r in rej:
        t = by[r['t']]
        k = r['matched']
        nxt = t['ev'][k] if k < len(t['ev']) else {}
        op = nxt.get('op')
        prop = 'C08' if op == 'getflight' else ('C10' if (op == 'add' and nxt.get('ok') == 'no') else 'C07')
        if prop == pid:
            ctx.violation(
                f'repo-trace:{op}:{nxt.get("ok")}',
                f'recorded execution {r["t"]} is not a behaviour of Store.tla: event {k + 1} of {r["total"]} ({nxt}) cannot happen after {t["ev"][max(0, k - 3):k]}',
                {'trace': t, 'matched': k},
            )
    for t in traces:
        ctx.case_done({'repo-trace': t['t'], 'n': len(t['ev'])})
    ctx.traces_validated += len(traces)
    ctx.extra['repo_store_traces'] = len(traces)
    ctx.extra['repo_store_trace_events'] = sum(len(t['ev']) for t in traces)
