"""C03 — what is stored in a trajectory store is what is read back.

spec:    specs/codec/Codec.tla (file species list = sorted union of the first
         trajectory's species; value of species sp at the position of sp in
         that list; unwritten cells are not reported; RoundTrip, SpeciesExact,
         negative controls for the enum-position and read-all variants).
binding: every TLC-generated case (species subsets per field with gaps, second
         trajectory with fewer species, unset patterns of optional scalars, 5
         file layouts) is written through the public API with distinguishable
         values and read back - after reopen, after eviction, from associated
         files chosen at create, from create_associated, after save of an
         in-memory store - and compared field by field by an independent
         comparator.
"""

from __future__ import annotations

import gc
import json
import shutil
import tempfile
import warnings
from pathlib import Path

import numpy as np

from . import tlc
from .core import Ctx, MachineryError
from .store_replay import _aeic, ident, make_payload, pmap

SFIELDS = ['ts1', 'ts2', 'tsp', 'tsm']
FNUM = {'ts1': 1, 'ts2': 2, 'tsp': 3, 'tsm': 4}
_registered = False


def fieldset():
    global _registered
    _, _, FieldSet, FM, Dimensions, Dimension = _aeic()
    if not _registered:
        T = Dimensions(Dimension.TRAJECTORY)
        FieldSet(
            'vc_codec',
            t_f=FM(dimensions=T, description='opt float', units='u', required=False),
            t_i=FM(dimensions=T, field_type=np.int32, description='opt int', units='u', required=False),
            t_s=FM(dimensions=T, field_type=str, description='opt str', units='u', required=False),
            t_fd=FM(dimensions=T, description='opt float with default', units='u', required=False, default=2.5),
            t_id=FM(dimensions=T, field_type=np.int32, description='opt int with default', units='u', required=False, default=0),
            t_req=FM(dimensions=T, description='req float', units='u'),
            tp_f=FM(description='pointwise float', units='u'),
            tp_i=FM(field_type=np.int32, description='pointwise int', units='u'),
            ts1=FM(dimensions=Dimensions.from_abbrev('TS'), description='species scalar 1', units='u'),
            ts2=FM(dimensions=Dimensions.from_abbrev('TS'), description='species scalar 2', units='u'),
            tsp=FM(dimensions=Dimensions.from_abbrev('TSP'), description='species pointwise', units='u'),
            tm=FM(dimensions=Dimensions.from_abbrev('TM'), description='thrust mode', units='u'),
            # 64-bit integers (Codec.tla DataTypes): scalar, per thrust mode and per point; values beyond 2**53 are not floats
            t_l=FM(dimensions=T, field_type=np.int64, description='long int', units='u'),
            tm_l=FM(dimensions=Dimensions.from_abbrev('TM'), field_type=np.int64, description='thrust mode long int', units='u'),
            tp_l=FM(field_type=np.int64, description='pointwise long int', units='u'),
            tsm=FM(dimensions=Dimensions.from_abbrev('TSM'), description='species x thrust mode', units='u'),
        )
        # the same fields as two field sets, for the layout that keeps ts2 / tsm in an associated file
        FieldSet(
            'vc_codec_a',
            t_f=FM(dimensions=T, description='opt float', units='u', required=False),
            t_i=FM(dimensions=T, field_type=np.int32, description='opt int', units='u', required=False),
            t_s=FM(dimensions=T, field_type=str, description='opt str', units='u', required=False),
            t_fd=FM(dimensions=T, description='opt float with default', units='u', required=False, default=2.5),
            t_id=FM(dimensions=T, field_type=np.int32, description='opt int with default', units='u', required=False, default=0),
            t_req=FM(dimensions=T, description='req float', units='u'),
            tp_f=FM(description='pointwise float', units='u'),
            tp_i=FM(field_type=np.int32, description='pointwise int', units='u'),
            ts1=FM(dimensions=Dimensions.from_abbrev('TS'), description='species scalar 1', units='u'),
            tsp=FM(dimensions=Dimensions.from_abbrev('TSP'), description='species pointwise', units='u'),
            tm=FM(dimensions=Dimensions.from_abbrev('TM'), description='thrust mode', units='u'),
            # 64-bit integers (Codec.tla DataTypes): scalar, per thrust mode and per point; values beyond 2**53 are not floats
            t_l=FM(dimensions=T, field_type=np.int64, description='long int', units='u'),
            tm_l=FM(dimensions=Dimensions.from_abbrev('TM'), field_type=np.int64, description='thrust mode long int', units='u'),
            tp_l=FM(field_type=np.int64, description='pointwise long int', units='u'),
        )
        FieldSet(
            'vc_codec_b',
            ts2=FM(dimensions=Dimensions.from_abbrev('TS'), description='species scalar 2', units='u'),
            tsm=FM(dimensions=Dimensions.from_abbrev('TSM'), description='species x thrust mode', units='u'),
        )
        _registered = True
    return FieldSet.from_registry('vc_codec')


UNTOUCHED = object()  # never assigned: the container holds the declared default
DEFAULTS = {'t_fd': 2.5, 't_id': 0}


def val(f, t, sp):
    return float(FNUM[f] * 1000 + t * 100 + sp)


def supplied(arr, form, small):
    """The array as the caller hands it over (Codec.tla ArrForms); `small` is a narrower type holding the same values."""
    arr = np.asarray(arr)
    if form == 'strided':
        buf = np.full(2 * len(arr) + 1, -7, dtype=arr.dtype)
        buf[1::2] = arr
        return buf[1::2]
    if form == 'cast':
        return arr.astype(small)
    return arr


BIG = 2**53 + 1   # the first integer a float64 cannot hold


def modes(vals):
    """Per-mode values (idle, approach, climb, take-off) as a ThrustModeValues built positionally, from a dict in
    that order, or from a dict in take-off..idle order - chosen deterministically from the values; the object is a
    mapping keyed by mode, so the form carries no meaning."""
    from AEIC.performance.types import ThrustMode, ThrustModeValues

    v = [float(x) for x in vals]
    form = hash(tuple(v)) % 3
    if form == 0:
        return ThrustModeValues(*v)
    pairs = list(zip([ThrustMode.IDLE, ThrustMode.APPROACH, ThrustMode.CLIMB, ThrustMode.TAKEOFF], v))
    if form == 2:
        pairs.reverse()
    return ThrustModeValues(dict(pairs))


def values_for(case, t, n):
    """The values trajectory t carries in the vc_codec field set."""
    from AEIC.performance.types import ThrustModeValues
    from AEIC.types import Species, SpeciesValues

    sets = case['s'] if t == 1 else case['s2']
    form = case.get('arr', 'contiguous')
    v = {
        't_f': None if 't_f' in case['unset'] else 0.5 + t,
        't_i': None if 't_i' in case['unset'] else 7 + t,
        't_s': None if 't_s' in case['unset'] else f's{t}',
        't_fd': {'set': 3.5 + t, 'none': None, 'untouched': UNTOUCHED}[case['dflt'][t - 1]],
        't_id': {'set': 11 + t, 'none': None, 'untouched': UNTOUCHED}[case['dflt'][t - 1]],
        't_req': 9.25 * t,
        'tp_f': supplied(np.arange(n, dtype=float) * 0.5 + t, form, np.float32),
        'tp_i': supplied(np.arange(n, dtype=np.int32) + t, form, np.int16),
        'ts1': SpeciesValues({Species(sp): val('ts1', t, sp) for sp in sets['ts1']}),
        'ts2': SpeciesValues({Species(sp): val('ts2', t, sp) for sp in sets['ts2']}),
        'tsp': SpeciesValues({Species(sp): supplied(np.arange(n, dtype=float) + val('tsp', t, sp), form, np.float32) for sp in sets['tsp']}),
        'tm': modes((t + 0.1, t + 0.2, t + 0.3, t + 0.4)),
        't_l': BIG + 10 * t,
        'tm_l': ThrustModeValues(BIG + 4 * t + 1, BIG + 4 * t + 2, BIG + 4 * t + 3, BIG + 4 * t + 4),
        'tp_l': np.arange(n, dtype=np.int64) + BIG + t,
        'tsm': SpeciesValues({Species(sp): modes(val('tsm', t, sp) + k / 8 for k in range(4)) for sp in sets['tsm']}),
    }
    # Codec.tla DataTypes "extremes": every value of a field's type other than the container's own marker for "never
    # written" is a value - in every second case the second trajectory carries the far ends of the types (a float
    # beyond 1e37 or +inf, the smallest 32-bit and 64-bit integers, a species value of 1e300)
    import zlib

    h = zlib.crc32(repr((case['layout'], sorted(case['unset']), case.get('arr'), case['dflt'])).encode())
    if t == 2 and h % 2 == 0:
        if v['t_f'] is not None:
            v['t_f'] = 1e300 if h % 4 == 0 else float('inf')
        if v['t_i'] is not None:
            v['t_i'] = -(2**31)
        v['t_l'] = -(2**63)
        v['t_req'] = 1e300
        if len(v['ts1']):
            sp0 = sorted(v['ts1'].keys(), key=int)[0]
            v['ts1'] = SpeciesValues({sp: (1e300 if sp == sp0 else x) for sp, x in v['ts1'].items()})
    return v


def build(case, t):
    traj = make_payload(t, 0)
    fs = fieldset()
    if case['layout'] in ('split', 'split_assoc'):
        FieldSet = _aeic()[2]
        traj.add_fields(FieldSet.from_registry('vc_codec_a'))
        if case['layout'] == 'split':
            traj.add_fields(FieldSet.from_registry('vc_codec_b'))
    else:
        traj.add_fields(fs)
    for k, x in values_for(case, t, len(traj)).items():
        if x is UNTOUCHED or (case['layout'] == 'split_assoc' and k in ('ts2', 'tsm')):
            continue
        if x is not None or k in DEFAULTS:
            setattr(traj, k, x)  # default-bearing fields are explicitly given None
    return traj


def compare(case, t, got):
    """Independent field-by-field comparison -> list of (field, what, detail)."""
    from AEIC.performance.types import ThrustMode
    from AEIC.types import Species

    out = []
    base = ident(got, False)
    if base != {'p': t, 'id': 0}:
        out.append(('base', 'differs', str(base)))
    want = values_for(case, t, len(got))
    for k, w in want.items():
        if w is UNTOUCHED:
            w = DEFAULTS[k]
        try:
            g = getattr(got, k)
        except Exception as e:
            out.append((k, 'missing', f'{type(e).__name__}: {e}'))
            continue
        if k in SFIELDS:
            try:
                gk = {int(s) for s in g.keys()}
            except Exception as e:
                out.append((k, 'unreadable', f'{type(e).__name__}: {e}'))
                continue
            wk = {int(s) for s in w.keys()}
            if gk - wk:
                out.append((k, 'species-invented', f'read {sorted(gk)}; written {sorted(wk)}'))
            if wk - gk:
                out.append((k, 'species-lost', f'read {sorted(gk)}; written {sorted(wk)}'))
            for sp in sorted(gk & wk):
                a, b = g[Species(sp)], w[Species(sp)]
                if k == 'tsm':
                    same = all(float(a[m]) == float(b[m]) for m in ThrustMode)
                elif k == 'tsp':
                    same = np.array_equal(np.asarray(a), np.asarray(b))
                else:
                    same = float(a) == float(b)
                if not same:
                    out.append((k, 'value', f'species {sp}: read {a}; written {b}'))
        elif k == 'tm':
            if not all(float(g[m]) == float(w[m]) for m in ThrustMode):
                out.append((k, 'value', f'read {g}; written {w}'))
        elif k == 'tm_l':
            if not all(int(g[m]) == int(w[m]) for m in ThrustMode):
                out.append((k, 'value', f'64-bit integers per thrust mode: read {[int(g[m]) for m in ThrustMode]}; written {[int(w[m]) for m in ThrustMode]}'))
        elif k == 't_l':
            if g is None or int(g) != int(w):
                out.append((k, 'value', f'64-bit integer: read {g!r}; written {w!r}'))
        elif k == 'tp_l':
            ga = np.asarray(g)
            if not (np.issubdtype(ga.dtype, np.integer) and np.array_equal(ga.astype(np.int64), w)):
                out.append((k, 'value', f'64-bit integers per point: read {ga[:3]}... ({ga.dtype}); written {w[:3]}...'))
        elif k in ('tp_f', 'tp_i'):
            ga = np.asarray(g)
            if not np.array_equal(ga, w):
                out.append((k, 'value', f'read {ga[:4]}...; written {w[:4]}...'))
            if k == 'tp_i' and not np.issubdtype(ga.dtype, np.integer):
                out.append((k, 'dtype', f'integer field read back as {ga.dtype}'))
        elif w is None:
            if not (g is None or (k == 't_s' and g == '')):
                out.append((k, 'unset-invented', f'unset optional field read back as {g!r}'))
        else:
            if g is None:
                out.append((k, 'lost', f'read None; written {w!r}'))
            elif k == 't_s':
                if g != w:
                    out.append((k, 'value', f'read {g!r}; written {w!r}'))
            else:
                if float(g) != float(w):
                    out.append((k, 'value', f'read {g!r}; written {w!r}'))
                if k in ('t_i', 't_id') and not isinstance(g, (int, np.integer)):
                    out.append((k, 'dtype', f'integer field read back as {type(g).__name__}'))
    return out


class Assoc:
    """HasFieldSets value object for create_associated."""

    FIELD_SETS: list = []

    def __init__(self, vals):
        for k, v in vals.items():
            setattr(self, k, v)


def run_case(case):
    warnings.simplefilter('ignore')
    TS = _aeic()[0]
    # Codec.tla PointCounts: every third case gives its second trajectory exactly ONE point (the per-point fields are
    # arrays of length 1: still arrays, and a species present at that one point is present)
    from .store_replay import _idr

    _idr['onepoint'] = (len(case['unset']) + len(case['layout']) + sum(len(v) for v in case['s'].values())) % 3 == 0
    d = Path(tempfile.mkdtemp(prefix='c03-'))
    devs = []
    ts = None
    stage = 'write'
    try:
        fs = fieldset()
        base, assoc = d / 'b.nc', d / 'a.nc'
        layout = case['layout']
        ntraj = 2
        open_kw = {}
        try:
            refused2 = False
            after_refusal = False
            override_case = None
            if layout in ('single', 'evicted'):
                ts = TS.create(base_file=base)
                for t in range(1, ntraj + 1):
                    if t == 2 and not case.get('fits', True):
                        # a trajectory with a species the file has no position for: refused, or stored completely
                        try:
                            ts.add(build(case, t))
                        except Exception:
                            refused2 = True
                        if refused2 and layout == 'single':
                            # Codec.tla AfterRefusal: the refused addition leaves the store as it was (C10: keys refused-add:*)
                            # and a further addition - a SPARSE trajectory: no species values, every optional scalar unset -
                            # gets the next index and reads back as given, without anything the refused one carried (C03)
                            after_refusal = True
                            sparse = dict(case, s2={f: [] for f in case['s2']}, unset=['t_f', 't_i', 't_s'], dflt=[case['dflt'][0], 'none'])
                            try:
                                if len(ts) != 1:
                                    devs.append(('refused-add', 'len', f'after the refused addition (a species the file has no position for) len() = {len(ts)}; before it: 1'))
                                try:
                                    ts[1]
                                    devs.append(('refused-add', 'visible', 'after the refused addition store[1] returns a trajectory'))
                                except IndexError:
                                    pass
                                except Exception as e:
                                    devs.append(('refused-add', 'visible', f'after the refused addition store[1] raises {type(e).__name__} (not IndexError): something is there'))
                                ix = ts.add(build(sparse, 2))
                                if ix != 1:
                                    devs.append(('refused-add', 'next-index', f'the addition after the refused one got index {ix}; specification: 1'))
                            except Exception as e:
                                devs.append(('refused-add', f'raised-{type(e).__name__}', f'after the refused addition: {type(e).__name__}: {str(e)[:120]}'))
                                after_refusal = False
                    else:
                        ts.add(build(case, t))
            elif layout == 'split':
                ts = TS.create(base_file=base, associated_files=[(assoc, ['vc_codec_b'])])
                for t in range(1, ntraj + 1):
                    ts.add(build(case, t))
                open_kw = {'associated_files': [assoc]}
            elif layout == 'split_assoc':
                ts = TS.create(base_file=base)
                for t in range(1, ntraj + 1):
                    ts.add(build(case, t))
                ts.close()
                ts = TS.open(base_file=base)
                Assoc.FIELD_SETS = [_aeic()[2].from_registry('vc_codec_b')]

                # (the mapping function takes extra positional and keyword arguments, handed through by create_associated
                # for EVERY trajectory: left at their defaults the values would be another trajectory's)
                def mapping_b(traj, pos=40, *, shift=7):
                    t = ident(traj, False)['p'] + pos + shift
                    v = values_for(case, t, len(traj))
                    return Assoc({'ts2': v['ts2'], 'tsm': v['tsm']})

                ts.create_associated(assoc, ['vc_codec_b'], mapping_b, 0, shift=0)
                open_kw = {'associated_files': [assoc]}
            elif layout == 'assoc_at_create':
                ts = TS.create(base_file=base, associated_files=[(assoc, ['vc_codec'])])
                for t in range(1, ntraj + 1):
                    ts.add(build(case, t))
                open_kw = {'associated_files': [assoc]}
            elif layout == 'save_from_memory':
                ts = TS.create()
                for t in range(1, ntraj + 1):
                    ts.add(build(case, t))
                ts.save(base_file=base)
            elif layout == 'save_retry':
                ts = TS.create()
                for t in range(1, ntraj + 1):
                    ts.add(build(case, t))
                try:
                    ts.save(base_file=base, associated_files=[(d / 'no-such-dir' / 'a.nc', ['vc_codec'])])
                    devs.append(('save-retry:first-save-accepted', 'save with an associated file in a directory that does not exist was accepted'))
                except ValueError:
                    pass
                ts.save(base_file=base)
            elif layout == 'override_in_session':
                ts = TS.create(base_file=base)
                for t in range(1, ntraj + 1):
                    ts.add(build(case, t))
                Assoc.FIELD_SETS = [fs]
                # (the other version: the same species, the optional scalars unset where the base has them set and vice versa)
                other = dict(case, unset=([] if case['unset'] else ['t_f', 't_i', 't_s']))

                def mapping_o(traj):
                    t = ident(traj, False)['p']
                    return Assoc({k: (DEFAULTS[k] if x is UNTOUCHED else x) for k, x in values_for(other, t, len(traj)).items()})

                ts.create_associated(assoc, ['vc_codec'], mapping_o)
                override_case = other
            elif layout == 'create_associated':
                ts = TS.create(base_file=base)
                for t in range(1, ntraj + 1):
                    ts.add(make_payload(t, 0))
                ts.close()
                ts = TS.open(base_file=base)
                Assoc.FIELD_SETS = [fs]

                def mapping(traj, pos=40, *, shift=7):
                    t = ident(traj, False)['p'] + pos + shift
                    return Assoc({k: (DEFAULTS[k] if x is UNTOUCHED else x) for k, x in values_for(case, t, len(traj)).items()})

                try:
                    ts.create_associated(assoc, ['vc_codec'], mapping, 0, shift=0)
                except ValueError:
                    if case.get('fits', True):
                        raise
                    # the mapped values of trajectory 2 name a species the associated file has no position for: refused
                    # (Codec.tla AllOrNothing - refused as a whole or stored completely; a refusal is judged no further)
                    return devs
                open_kw = {'associated_files': [assoc]}
            else:
                raise MachineryError(f'unknown layout {layout}')
            if layout == 'evicted':
                c = getattr(ts, '_trajectories', None)
                if c is not None:
                    for i in list(c.keys()):
                        c.pop(i, None)
            else:
                try:
                    ts.close()
                except Exception:
                    if not refused2:
                        raise
                    return devs   # the refused addition left the session unusable: C10's clause, not judged here
                ts = None
                gc.collect()
                stage = 'reopen'
                try:
                    ts = TS.open(base_file=base, **open_kw)
                except Exception:
                    if not refused2:
                        raise
                    return devs
            stage = 'read'
            if refused2 and after_refusal:
                if len(ts) != 2:
                    devs.append(('refused-add', 'len-after-reopen', f'len() = {len(ts)} after reopening; successful additions: 2 (one refused in between)'))
                for i in range(min(2, len(ts))):
                    try:
                        got = ts[i]
                    except Exception as e:
                        devs.append(('refused-add', f'read-raised-{type(e).__name__}', f'store[{i}] after reopening raised {type(e).__name__}: {str(e)[:100]}'))
                        continue
                    for f, what, detail in (compare(sparse, 2, got) if i else compare(case, 1, got)):
                        devs.append((f, what, f'trajectory at index {i} ({"the sparse trajectory added after the refused addition" if i else "trajectory 1"}): {detail}'))
                ntraj = 0
            elif refused2:
                ntraj = 1   # what the refused addition may have left behind is C10's business, not judged here
            elif len(ts) != ntraj:
                devs.append(('store', 'len', f'len() = {len(ts)} after adding {ntraj}'))
            for t in range(1, ntraj + 1):
                got = ts[t - 1]
                for f, what, detail in compare(case, t, got):
                    devs.append((f, what, f'trajectory {t}: {detail}'))
            if override_case is not None:
                # the other version of the field set, from the associated file made inside the writing session
                stage = 'reopen-with-override'
                ts.close()
                ts = None
                gc.collect()
                ts = TS.open(base_file=base, associated_files=[assoc], override=True)
                stage = 'read-override'
                for t in range(1, ntraj + 1):
                    for f, what, detail in compare(override_case, t, ts[t - 1]):
                        if f != 'base':
                            devs.append((f, f'override-{what}', f'trajectory {t} read with the associated file of the other version: {detail}'))
        except MachineryError:
            raise
        except Exception as e:
            msg = str(e)[:160]
            devs.append(('store', f'{stage}-raised-{type(e).__name__}', f'{stage} raised {type(e).__name__}: {msg}'))
        return devs
    except MachineryError as e:
        return [('machinery', 'machinery', str(e))]
    except Exception as e:
        import traceback

        return [('machinery', 'machinery', f'{type(e).__name__}: {e}\n{traceback.format_exc()}')]
    finally:
        if ts is not None:
            try:
                ts.close()
            except Exception:
                for nc in list(getattr(ts, '_nc_files', [])):
                    for ds in nc.dataset:
                        try:
                            ds.close()
                        except Exception:
                            pass
        gc.collect()
        shutil.rmtree(d, ignore_errors=True)
        _idr['onepoint'] = False


def run_refused(ctx: Ctx):
    """C10's share of the codec family: the cases whose second trajectory does not fit the file (Codec.tla Fits), in
    the single-file layout - the refused addition must leave the store as it was."""
    gen = tlc.check(ctx, 'codec/CodecGen', 'codec/Gen_Codec.cfg', workers=8, sub={'UnsetSpace <- AllUnset': 'UnsetSpace <- SomeUnset'})
    cases = [c for c in gen['emitted'] if not c.get('fits', True) and c['layout'] == 'single']
    if ctx.quick:
        ctx.rng.shuffle(cases)
        cases = cases[:300]
    ctx.log(f'{len(cases)} additions refused for a species the file has no position for')
    for case, devs in zip(cases, pmap(run_case, cases)):
        ctx.case_done(('refused-add', case['s'], case['unset']), nontrivial=True)
        seen = set()
        for f, what, detail in devs:
            if f == 'machinery':
                raise MachineryError('codec worker failed: ' + detail)
            if f != 'refused-add' or (f, what) in seen:
                continue
            seen.add((f, what))
            ctx.violation(f'{f}:{what}', f'layout {case["layout"]}: {detail}', {'codec': case})
    ctx.extra['refused_for_unknown_species'] = len(cases)


def neg_control(ctx, sub, expect):
    sub = dict(sub, **{'U = {1, 3, 5}': 'U = {1, 5}'})  # the defective variants show on the smallest universe with a gap
    res = tlc.run('codec/Codec', 'codec/MC_Codec.cfg', sub=sub)
    if expect not in res['out']:
        raise MachineryError(f'negative control {sub} did not produce "{expect}"')


def run(ctx: Ctx):
    ctx.rule = (
        'cases = species subsets for 4 species-indexed fields (TS, TS, TSP, TSM) x second-trajectory selector x unset pattern of 3 optional '
        'scalars x set/None/never-assigned pattern of 2 default-bearing optional scalars x 8 file layouts (incl. a species-carrying base file with an associated file of its own species list made by create_associated); exhaustive over the 2-species universe {CO2, NOx} (gap in the enum), seeded random over {CO2, HC, NOx, SO4}; '
        'non-trivial = file species list has a gap w.r.t. the Species enumeration or fields carry different species sets'
    )
    ctx.assumptions += [
        'all trajectories of one store carry species within the species list fixed by the first trajectory (what "fits the file" means)',
        'an unset optional string may read back as the empty string (pinned by tests/test_storage.py::test_read_nulls)',
    ]
    if ctx.replay:
        cases = [json.loads(Path(ctx.replay).read_text())['case']]
    else:
        tlc.check(ctx, 'codec/Codec', 'codec/MC_Codec.cfg')
        neg_control(ctx, {'Design = "filepos"': 'Design = "enumpos"'}, 'Invariant NoWriteError is violated')
        neg_control(ctx, {'ReadRule = "written"': 'ReadRule = "all"'}, 'Invariant RoundTrip is violated')
        neg_control(ctx, {'ScalarRule = "fill_is_unset"': 'ScalarRule = "fill_is_default"', 'DfltSpace <- PlainDflt': 'DfltSpace <- SomeDflt', 'LayoutSpace <- TwoLayouts': 'LayoutSpace <- OneLayout'}, 'Invariant ScalarRoundTrip is violated')
        neg_control(ctx, {'ListRule = "own_file"': 'ListRule = "first_file"'}, 'Invariant RoundTrip is violated')
        ctx.extra['negative_controls'] = 'Design=enumpos violates NoWriteError; ReadRule=all violates RoundTrip; ScalarRule=fill_is_default violates ScalarRoundTrip; ListRule=first_file violates RoundTrip (as expected)'
        gen = tlc.check(ctx, 'codec/CodecGen', 'codec/Gen_Codec.cfg', workers=8, sub={'UnsetSpace <- AllUnset': 'UnsetSpace <- SomeUnset'} if ctx.quick else None)
        cases = gen['emitted']
        n = 300 if ctx.quick else 6000
        sim = tlc.check(ctx, 'codec/CodecGen', 'codec/Sim_Codec.cfg', workers=1, simulate='num=1', depth=n + 5, seed=ctx.seed, sub={'D = 100': f'D = {n}'})
        if ctx.quick:
            ctx.rng.shuffle(cases)
            # (the cases with a refused addition in the single-file layout - Codec.tla AfterRefusal - are few: up to 60 always take part)
            refusals = [c for c in cases if not c.get('fits', True) and c['layout'] == 'single'][:60]
            refusals += [c for c in cases if not c.get('fits', True) and c['layout'] == 'create_associated'][:40]
            cases = cases[:700] + [c for c in refusals if c not in cases[:700]]
        else:
            ctx.exhaustive = True
        cases = cases + sim['emitted']
    ctx.log(f'round-tripping {len(cases)} cases through real NetCDF files')
    results = pmap(run_case, cases)
    for case, devs in zip(cases, results):
        fsq = case['filespecies']
        gap = fsq != list(range(1, len(fsq) + 1))
        differing = len({tuple(v) for v in case['s'].values()}) > 1
        ctx.case_done(case, nontrivial=gap or differing)
        ctx.sample(case, limit=3)
        seen = set()
        for f, what, detail in devs:
            if f == 'machinery':
                raise MachineryError('codec worker failed: ' + detail)
            if (f == 'refused-add') != (ctx.pid == 'C10'):
                continue   # what a refused addition leaves behind is C10's clause; everything read back is C03's
            key = f'{f}:{what}'
            if key in seen:
                continue
            seen.add(key)
            ctx.violation(key, f'layout {case["layout"]}: {detail}', case)
