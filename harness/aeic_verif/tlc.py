"""Running TLC: exhaustive checks, case emission, simulation, batched trace validation."""

from __future__ import annotations

import json
import os
import re
import shutil
import subprocess
import tempfile
import time
from pathlib import Path

from .core import SPECS, Ctx, MachineryError

JAR = '/opt/veriftools/tla/tla2tools.jar:/opt/veriftools/tla/CommunityModules-deps.jar'
EMIT_PREFIX = '@@'

_re_counts = re.compile(r'(\d+) states generated, (\d+) distinct states found, (\d+) states left on queue')
_re_depth = re.compile(r'The depth of the complete state graph search is (\d+)')
_re_sim = re.compile(r'The number of states generated: (\d+)')


def _java(extra_jvm=()):
    return ['java', '-XX:+UseParallelGC', '-Xss16m', f'-DTLA-Library={SPECS / "common"}', *extra_jvm, '-cp', JAR]


def run(
    module: str,
    cfg: str | None = None,
    *,
    workers: int | str = 16,
    timeout: int = 900,
    simulate: str | None = None,
    depth: int | None = None,
    seed: int | None = None,
    env: dict | None = None,
    coverage: bool = False,
    deadlock: bool = True,
    jvm=(),
    extra=(),
    sub: dict | None = None,
) -> dict:
    """Run TLC on SPECS/<module>.tla with SPECS/<cfg> (paths relative to specs/).
    ``sub`` = textual substitutions applied to a temporary copy of the cfg
    (e.g. {'D = 3': 'D = 4'}) so that bounds are literal constants."""
    mod = SPECS / module
    if mod.suffix != '.tla':
        mod = mod.with_suffix('.tla')
    cfgp = (SPECS / cfg) if cfg else mod.with_suffix('.cfg')
    meta = tempfile.mkdtemp(prefix='tlcmeta-')
    if sub:
        text = cfgp.read_text()
        for a, b in sub.items():
            if a not in text:
                raise MachineryError(f'cfg substitution {a!r} not found in {cfgp}')
            text = text.replace(a, b)
        cfgp = Path(meta) / cfgp.name
        cfgp.write_text(text)
    cmd = _java(jvm) + ['tlc2.TLC', '-workers', str(workers), '-metadir', meta, '-noGenerateSpecTE', '-config', str(cfgp)]
    if not deadlock:
        cmd.append('-deadlock')
    if simulate is not None:
        cmd += ['-simulate', simulate]
    if depth is not None:
        cmd += ['-depth', str(depth)]
    if seed is not None:
        cmd += ['-seed', str(seed)]
    if coverage:
        cmd += ['-coverage', '1']
    cmd += list(extra)
    cmd.append(str(mod))
    e = dict(os.environ)
    if env:
        e.update({k: str(v) for k, v in env.items()})
    t0 = time.time()
    try:
        p = subprocess.run(cmd, cwd=mod.parent, env=e, capture_output=True, text=True, timeout=timeout)
        out, rc = p.stdout + p.stderr, p.returncode
    except subprocess.TimeoutExpired as ex:
        out = (ex.stdout or b'').decode(errors='replace') if isinstance(ex.stdout, bytes) else (ex.stdout or '')
        rc = -9
    finally:
        shutil.rmtree(meta, ignore_errors=True)
    res = {
        'module': module,
        'cfg': str(cfg or cfgp.name),
        'mode': 'simulate' if simulate is not None else 'exhaustive',
        'rc': rc,
        'out': out,
        'wall_s': round(time.time() - t0, 2),
        'generated': 0,
        'distinct': 0,
    }
    ms = _re_counts.findall(out)
    if ms:
        g, d, q = ms[-1]
        res.update(generated=int(g), distinct=int(d), queue=int(q))
    m = _re_depth.search(out)
    if m:
        res['depth'] = int(m.group(1))
    m = _re_sim.search(out)
    if m and not ms:
        res.update(generated=int(m.group(1)), distinct=int(m.group(1)))
    res['emitted'] = parse_emitted(out)
    res['ok'] = rc == 0 and 'Error:' not in out
    return res


def parse_emitted(out: str) -> list:
    """Lines printed by PrintT("@@" \\o ToJson(x)) arrive as a quoted, escaped
    TLA+ string; TLC prints a state once when generated and again when found
    distinct, so de-duplicate while keeping order."""
    seen = set()
    res = []
    for line in out.splitlines():
        line = line.strip()
        if not line.startswith('"' + EMIT_PREFIX):
            continue
        try:
            s = json.loads(line)
        except json.JSONDecodeError:
            # TLC escapes only \" and \\ ; fall back to manual unescape
            s = line[1:-1].replace('\\"', '"').replace('\\\\', '\\')
        body = s[len(EMIT_PREFIX):]
        if body in seen:
            continue
        seen.add(body)
        try:
            res.append(json.loads(body))
        except json.JSONDecodeError as e:
            raise MachineryError(f'cannot parse emitted line: {body[:200]}') from e
    return res


def _tail(out: str, n=40) -> str:
    skip = ('Parsing file', 'Semantic processing', 'Linting of module')
    return '\n'.join([ln for ln in out.splitlines() if not ln.startswith(skip)][-n:])


def _nonull(x):
    """Json!ndJsonDeserialize cannot read JSON null: encode as the string "-"."""
    if x is None:
        return '-'
    if isinstance(x, dict):
        return {k: _nonull(v) for k, v in x.items()}
    if isinstance(x, (list, tuple)):
        return [_nonull(v) for v in x]
    return x


def check(ctx: Ctx, module: str, cfg: str | None = None, **kw) -> dict:
    """Model-check; an error (invariant violated, deadlock, parse error) in the
    specification itself is a machinery failure, not an implementation
    violation."""
    res = run(module, cfg, **kw)
    if not res['ok']:
        raise MachineryError(f'TLC failed on {module} / {cfg} (rc={res["rc"]}):\n{_tail(res["out"])}')
    if kw.get('coverage'):
        res['coverage'] = parse_coverage(res['out'])
    ctx.add_tlc(res)
    ctx.log(
        f'TLC {module} [{res["cfg"]}] {res["mode"]}: {res["generated"]} generated, '
        f'{res["distinct"]} distinct, depth {res.get("depth")}, {len(res["emitted"])} emitted, {res["wall_s"]}s'
    )
    return res


_re_cov = re.compile(r'^<(\w+) line (\d+), col (\d+) to line (\d+), col (\d+) of module (\w+)>: (\d+):(\d+)')


def parse_coverage(out: str) -> dict:
    cov = {}
    for line in out.splitlines():
        m = _re_cov.match(line.strip())
        if m:
            cov[m.group(1)] = {'distinct': int(m.group(7)), 'taken': int(m.group(8))}
    return cov


def validate_traces(ctx: Ctx, module: str, cfg: str, traces: list[dict], *, timeout=900, env=None, jvm=()) -> list[dict]:
    """Batched trace validation.  ``traces`` is a list of {"t": name, "ev": [...]}.
    The trace module reads IOEnv.TRACE_FILE (ndjson, one trace per line), picks a
    trace id in Init, consumes events with the actions of the base spec, records
    the furthest line reached per id in a TLC register and prints
    <<"REJECTED", name, matched, total>> from its POSTCONDITION.
    Returns the list of rejections."""
    if not traces:
        return []
    pending = list(traces)
    rejected: list[dict] = []
    for attempt in range(6):
        d = tempfile.mkdtemp(prefix='tlctrace-')
        try:
            tf = Path(d) / 'traces.ndjson'
            with open(tf, 'w') as f:
                for t in pending:
                    f.write(json.dumps(_nonull(t)) + '\n')
            e = {'TRACE_FILE': str(tf)}
            if env:
                e.update(env)
            res = run(module, cfg, workers=1, timeout=timeout, env=e, deadlock=False, jvm=jvm)
        finally:
            shutil.rmtree(d, ignore_errors=True)
        out = res['out']
        ctx.add_tlc(res)
        # TLC stops at the first error (an invariant of the trace specification violated by one trace, or an
        # expression it cannot evaluate on one trace): the registers of the traces it had not reached yet
        # say nothing.  That trace is reported, taken out, and the others are validated again.
        err = re.search(r'^Error: (.*)$', out, re.M)
        if err and not re.search(r'(Invariant|property) \S+ is violated', err.group(1)):
            # TLC could not evaluate the trace specification on the recorded data: that is our machinery, not the code
            raise MachineryError(f'TLC failed while validating traces against {module} ({err.group(1)[:200]}):\n{_tail(out)}')
        if err:
            m = re.search(r'/\\ tid = (\d+)(?![\s\S]*/\\ tid = )', out)
            if not m:
                raise MachineryError(f'TLC reported an error during trace validation of {module} that cannot be attributed to a trace:\n{_tail(out)}')
            bad = pending[int(m.group(1)) - 1]
            lm = re.search(r'/\\ l = (\d+)(?![\s\S]*/\\ l = )', out)
            rejected.append({'t': bad['t'], 'matched': max(0, int(lm.group(1)) - 1) if lm else 0, 'total': len(bad['ev']), 'tlc_error': err.group(1)[:300]})
            ctx.log(f'TLC trace validation {module}: trace {bad["t"]} stopped TLC ({err.group(1)[:120]}); validating the remaining {len(pending) - 1} again')
            pending = [t for t in pending if t is not bad]
            if not pending:
                break
            continue
        if 'TRACEVALIDATION-DONE' not in out:
            raise MachineryError(f'trace validation did not complete for {module}:\n{_tail(out)}')
        for m in re.finditer(r'<<"REJECTED", "([^"]*)", (\d+), (\d+)>>', out):
            rejected.append({'t': m.group(1), 'matched': int(m.group(2)), 'total': int(m.group(3))})
        break
    else:
        raise MachineryError(f'trace validation of {module}: TLC kept stopping on errors after 6 rounds')
    ctx.log(
        f'TLC trace validation {module}: {len(traces)} traces, {len(rejected)} rejected, '
        f'{res["generated"]} states, {res["wall_s"]}s'
    )
    return rejected


def sany(path: Path) -> tuple[bool, str]:
    p = subprocess.run(_java() + ['tla2sany.SANY', str(path.name)], cwd=path.parent, capture_output=True, text=True)
    out = p.stdout + p.stderr
    ok = p.returncode == 0 and 'Semantic errors' not in out and 'Parsing or semantic analysis failed' not in out and '*** Errors' not in out and 'Fatal errors' not in out
    return ok, out
