"""Recorder for the dataset / time-slice cache of Weather (WeatherTrace.tla events).

One event per public `get_ground_speed` call, logged after the call returns or raises: the instant asked for
(day as a small integer, hour) and the projected cache state the object is left in (which day's file is open,
which hour is sliced).  Days are numbered per trace in the order they are first seen: odd numbers for files
with a time axis, even numbers for files without, 100 and up for days that have no file.
"""

from __future__ import annotations

import functools

_installed = False
_emit = None
_days: dict = {}
_objs: dict = {}
_next = {'timed': 1, 'flat': 2, 'missing': 100}


def on_start():
    _days.clear()
    _objs.clear()
    _next.update(timed=1, flat=2, missing=100)


def _day(date, kind):
    if date not in _days:
        _days[date] = _next[kind]
        _next[kind] += 2 if kind != 'missing' else 1
    return _days[date]


def install(emit):
    global _installed, _emit
    _emit = emit
    if _installed:
        return
    _installed = True
    from AEIC.weather import Weather

    orig = Weather.get_ground_speed

    @functools.wraps(orig)
    def get_ground_speed(self, *a, **kw):
        time = kw.get('time', a[0] if a else None)
        ok = True
        try:
            return orig(self, *a, **kw)
        except FileNotFoundError:
            ok = False
            raise
        except Exception:
            ok = None   # refused for another reason (outside the data domain ...): not an event of the cache machine
            raise
        finally:
            try:
                if ok is not None and time is not None:
                    date = time.strftime('%Y%m%d')
                    main = getattr(self, '_main_ds', None)
                    if ok:
                        d = _day(date, 'timed' if 'valid_time' in main.dims else 'flat')
                    else:
                        d = _day(date, 'missing')
                    opened = getattr(self, '_ds_date', None)
                    ud = _days.get(opened.strftime('%Y%m%d'), -1) if (main is not None and opened is not None) else 0
                    uh = getattr(self, '_ds_time_idx', None)
                    k = _objs.setdefault(id(self), len(_objs) + 1)
                    _emit('weather', {'op': 'query', 'obj': k, 'd': d, 'h': int(time.hour), 'ok': 'yes' if ok else 'no', 'ud': ud, 'uh': 99 if uh is None else int(uh)})
            except Exception as e:  # the recorder must never change what the test sees
                _emit('weather', {'op': 'recorder-error', 'obj': 0, 'msg': f'{type(e).__name__}: {e}'})

    Weather.get_ground_speed = get_ground_speed
