"""C15 — ground tracks and mission distances are true WGS-84 great circles (partial).

spec:    specs/geo/GroundTrack.tla (arc-length model: Location, Step with the
         waypoint-crossing rule and overstep continuation; Additive,
         RefuseOutOfRange, OverstepOnlyWhenAllowed); GroundTrackHist.tla (one
         object answering a sequence of queries: HistoryIndependent; negative
         control Design = "resume").
binding: each TLC-enumerated abstract track is realised on real geodesics from
         a list of start points / headings (equatorial, antimeridian, near
         polar, meridional, near-antipodal scale); the returned location is
         projected back to (leg, offset) with pyproj.Geod (trusted base) and
         compared with the specification; azimuths must be in [0, 360) and point
         along the leg; Mission.gc_distance must equal the ground-track length
         and be symmetric for every airport pair of the test file.
"""

from __future__ import annotations

import json
import math

import numpy as np
import warnings
from pathlib import Path

from . import tlc
from .core import Ctx, MachineryError
from .store_replay import pmap

# (lon, lat, first azimuth, unit length in metres of one doubled lattice unit)
STARTS = [
    (10.0, 0.0, 90.0, 50e3),        # along the equator
    (179.2, 10.0, 80.0, 50e3),      # across the antimeridian
    (20.0, 87.5, 20.0, 50e3),       # near the pole
    (-30.0, -40.0, 0.0, 50e3),      # along a meridian
    (5.0, 5.0, 60.0, 900e3),        # long legs: up to 18 000 km (near-antipodal scale)
    (-75.0, 40.0, 250.0, 50e3),
]
TURNS = [0.0, 35.0, -50.0, 20.0]


def build_track(legs, start, over):
    from AEIC.trajectories.ground_track import GroundTrack
    from AEIC.types import Location
    from AEIC.utils import GEOD

    lon, lat, az, unit = start
    wps = [(lon, lat)]
    for k, L in enumerate(legs):
        lon2, lat2, back = GEOD.fwd(lon, lat, az, L * unit)
        wps.append((lon2, lat2))
        az = (back + 180.0 + TURNS[(k + 1) % len(TURNS)]) % 360.0
        lon, lat = lon2, lat2
    if list(legs) == [2, 2]:
        wps[2] = wps[0]   # GroundTrack.tla: the out-and-back track returns to the exact position it started from
    gt = GroundTrack([Location(longitude=a, latitude=b) for a, b in wps], allow_overstep=over)
    return gt, wps


def query_devs(gt, wps, c, o, start):
    """One query on a ground-track object against the specification's answer."""
    from AEIC.utils import GEOD

    unit = start[3]
    devs = []
    # lattice distances that coincide with a waypoint (or the end) use the track's own
    # cumulative distance, so that "exactly at the waypoint" is bit-equal on both sides
    cum = [0]
    for L in c['legs']:
        cum.append(cum[-1] + L)

    def real(d):
        if d in cum:
            return gt.waypoint_distance(cum.index(d))
        if d > cum[-1]:
            return gt.total_distance + (d - cum[-1]) * unit
        return d * unit

    try:
        if c['op'] == 'location':
            p = gt.location(real(c['a']))
        else:
            ra = real(c['a'])
            p = gt.step(ra, (real(c['a'] + c['b']) - ra) if c['b'] >= 0 else c['b'] * unit)
        refused = False
    except Exception as e:
        refused, err = True, f'{type(e).__name__}: {e}'
    what = f'{c["op"]}({c["a"]}{"" if c["op"] == "location" else ", " + str(c["b"])}) [half units of {unit / 1000:.0f} km] on legs {c["legs"]} from {start[:3]}, overstep {"allowed" if c["over"] else "not allowed"}'
    if refused != bool(o['refused']):
        if refused:
            devs.append((f'{c["op"]}:refused', f'{what}: refused ({err}); specification: leg {o["leg"]} offset {o["off"]}'))
        else:
            devs.append((f'{c["op"]}:not-refused', f'{what}: returned {p}; specification: refused'))
        return devs
    if refused:
        return devs
    k = o['leg']
    w0, w1 = wps[k - 1], wps[k]
    az_leg, _, _ = GEOD.inv(w0[0], w0[1], w1[0], w1[1])
    elon, elat, _ = GEOD.fwd(w0[0], w0[1], az_leg, o['off'] * unit)
    _, _, miss = GEOD.inv(elon, elat, p.location.longitude, p.location.latitude)
    if not (math.isfinite(miss) and miss <= 1.0):
        kind = 'overstep' if (c['op'] == 'step' and c['a'] + c['b'] > sum(c['legs'])) else c['op']
        devs.append((f'{kind}:position', f'{what}: returned ({p.location.longitude:.6f}, {p.location.latitude:.6f}), {miss:.1f} m from the point {o["off"] * unit / 1000:.1f} km along leg {k} ({elon:.6f}, {elat:.6f})'))
    if not (0.0 <= p.azimuth < 360.0):
        devs.append(('azimuth-range', f'{what}: azimuth {p.azimuth} is outside [0, 360)'))
    elif 0 < o['off'] < c['legs'][k - 1]:
        az_here, _, _ = GEOD.inv(p.location.longitude, p.location.latitude, w1[0], w1[1])
        d = abs(((p.azimuth - az_here) + 180.0) % 360.0 - 180.0)
        if d > 1e-6:
            devs.append(('azimuth-direction', f'{what}: azimuth {p.azimuth}; direction to the next waypoint {az_here % 360.0}'))
    elif o['off'] > c['legs'][k - 1]:
        # GroundTrack.tla Direction: beyond the last way point the track goes on along the same great circle, AWAY from the
        # last way point.  The direction of that great circle is admitted as seen from the position itself or as seen
        # from the last way point (what the code reports; the two differ by the convergence over the overstep, < 1 deg here)
        fwd, back, _ = GEOD.inv(w1[0], w1[1], p.location.longitude, p.location.latitude)
        d = min(abs(((p.azimuth - (back + 180.0)) + 180.0) % 360.0 - 180.0), abs(((p.azimuth - fwd) + 180.0) % 360.0 - 180.0))
        if d > 1e-6:
            devs.append(('overstep:azimuth', f'{what}: azimuth {p.azimuth} beyond the end of the track; the great circle goes on in direction {(back + 180.0) % 360.0} there ({fwd % 360.0} at the last way point)'))
    return devs


WHOLE_TRACKS = [[(0, 0), (3, 4), (10, 4)], [(-75, 40), (-70, 45)], [(179, 10), (-179, 12), (-170, 12)], [(10, 0), (10, 7)], [(2, 48), (2, 49), (3, 49), (3, 48)]]


def run_whole(job):
    """GroundTrack.tla CoordForms: way points at whole degrees, the coordinates given as Python ints or as floats."""
    warnings.simplefilter('ignore')
    ti, form = job
    try:
        from AEIC.trajectories.ground_track import GroundTrack
        from AEIC.types import Location
        from AEIC.utils import GEOD

        conv = {'whole': int, 'float': float, 'numpy_whole': np.int64}[form]
        wps = WHOLE_TRACKS[ti]
        what = f'track through {wps} (coordinates given as {form})'
        try:
            if len(wps) == 2 and ti % 2 == 1:
                gt = GroundTrack.great_circle(Location(longitude=conv(wps[0][0]), latitude=conv(wps[0][1])), Location(longitude=conv(wps[1][0]), latitude=conv(wps[1][1])))
            else:
                gt = GroundTrack([Location(longitude=conv(a), latitude=conv(b)) for a, b in wps])
        except Exception as e:
            return [(f'whole-degree:raised-{type(e).__name__}', f'{what}: raised {type(e).__name__}: {e}')]
        legs = [GEOD.inv(a[0], a[1], b[0], b[1]) for a, b in zip(wps, wps[1:])]
        cum = [0.0]
        for _, _, d in legs:
            cum.append(cum[-1] + d)
        devs = []
        if abs(float(gt.total_distance) - cum[-1]) > 1e-3:
            devs.append(('whole-degree:total-distance', f'{what}: total_distance = {gt.total_distance}; sum of the leg geodesics = {cum[-1]}'))
        for i in range(len(wps)):
            if abs(float(gt.waypoint_distance(i)) - cum[i]) > 1e-3:
                devs.append(('whole-degree:waypoint-distance', f'{what}: waypoint_distance({i}) = {gt.waypoint_distance(i)}; specification: {cum[i]}'))
                break
        for k, (az, _, d) in enumerate(legs):
            for frac in (0.5, 0.999):
                try:
                    p = gt.location(cum[k] + frac * d)
                except Exception as e:
                    devs.append((f'whole-degree:location-raised-{type(e).__name__}', f'{what}: location({cum[k] + frac * d}) raised {type(e).__name__}: {e}'))
                    break
                elon, elat, _ = GEOD.fwd(wps[k][0], wps[k][1], az, frac * d)
                _, _, miss = GEOD.inv(elon, elat, p.location.longitude, p.location.latitude)
                if not (math.isfinite(miss) and miss <= 1.0):
                    devs.append(('whole-degree:position', f'{what}: location at {frac} of leg {k + 1} is {miss:.1f} m from the geodesic point ({elon:.6f}, {elat:.6f})'))
                    break
        return devs
    except Exception as e:
        import traceback

        return [('machinery', f'{type(e).__name__}: {e}\n{traceback.format_exc()}')]


def run_case(job):
    warnings.simplefilter('ignore')
    case, si = job
    try:
        c, o = case['c'], case['o']
        start = STARTS[si]
        unit = start[3]
        if unit > 100e3 and sum(c['legs']) * unit > 19.0e6:
            return []
        gt, wps = build_track(c['legs'], start, c['over'])
        devs = []
        total = sum(c['legs']) * unit
        if abs(gt.total_distance - total) > 1e-3:
            devs.append(('total-distance', f'track {c["legs"]} from {start[:3]}: total_distance = {gt.total_distance}; sum of leg geodesics = {total}'))
        return devs + query_devs(gt, wps, c, o, start)
    except Exception as e:
        import traceback

        return [('machinery', f'{type(e).__name__}: {e}\n{traceback.format_exc()}')]


def run_history(job):
    """A sequence of queries on ONE ground-track object (GroundTrackHist.tla)."""
    warnings.simplefilter('ignore')
    h, si = job
    try:
        start = STARTS[si]
        trk = h['trk']
        if start[3] > 100e3 and sum(trk['legs']) * start[3] > 19.0e6:
            return []
        gt, wps = build_track(trk['legs'], start, trk['over'])
        for i, e in enumerate(h['hist']):
            c = dict(e['q'], legs=trk['legs'], over=trk['over'])
            devs = query_devs(gt, wps, c, e['o'], start)
            if devs:
                prev = [(x['q']['op'], x['q']['a'], x['q']['b']) for x in h['hist'][:i]]
                fresh = query_devs(build_track(trk['legs'], start, trk['over'])[0], wps, c, e['o'], start)
                tag = 'history' if not fresh else 'fresh-too'
                return [(f'{tag}:{k}', f'query {i} after {prev} on the same object: {d}') for k, d in devs]
        return []
    except Exception as e:
        import traceback

        return [('machinery', f'{type(e).__name__}: {e}\n{traceback.format_exc()}')]


def run_objects(job):
    """GroundTrackObjs.tla behaviour: objects for the same end points created through
    GroundTrack.great_circle with different overstep flags, queried in turn."""
    warnings.simplefilter('ignore')
    h, si = job
    try:
        from AEIC.trajectories.ground_track import GroundTrack
        from AEIC.types import Location
        from AEIC.utils import GEOD

        start = STARTS[si]
        lon, lat, az, unit = start
        legs = [10]
        lon2, lat2, _ = GEOD.fwd(lon, lat, az, legs[0] * unit)
        wps = [(lon, lat), (lon2, lat2)]
        objs = {}
        done = []
        for k, e in enumerate(h):
            if e['op'] == 'create':
                objs[e['obj']] = GroundTrack.great_circle(Location(longitude=lon, latitude=lat), Location(longitude=lon2, latitude=lat2), allow_overstep=e['over'])
                done.append(('create', e['obj'], e['over']))
                continue
            c = dict(op=e['op'], a=e['a'], b=e['b'], legs=legs, over=e['over'])
            devs = query_devs(objs[e['obj']], wps, c, e['o'], start)
            done.append((e['op'], e['obj'], e['a'], e['b']))
            if devs:
                return [(f'objects:{key}', f'operation {k} on object {e["obj"]} (created with allow_overstep={e["over"]}) after {done[:-1]}: {d}') for key, d in devs]
        return []
    except Exception as e:
        import traceback

        return [('machinery', f'{type(e).__name__}: {e}\n{traceback.format_exc()}')]


def _mission_via(entry, a, b):
    from AEIC.missions import Mission

    from .traj_common import mission

    if entry == 'from_toml':
        return Mission.from_toml({'flight': [{'origin': a, 'destination': b, 'departure': '2024-09-01T12:00:00', 'arrival': '2024-09-01T18:00:00', 'load_factor': 1.0, 'aircraft_type': '738'}]})[0]
    if entry == 'from_query_result':
        from AEIC.missions.mission import iso_to_timestamp
        from AEIC.missions.query import QueryResult

        qr = QueryResult(departure=iso_to_timestamp('2024-09-01T12:00:00'), arrival=iso_to_timestamp('2024-09-01T18:00:00'), carrier='VF', flight_number='1',
                         origin=a, origin_country='US', destination=b, destination_country='US', service_type='J', aircraft_type='738', engine_type=None,
                         distance=17, seat_capacity=100, id=1, flight_id=1)  # fmt: skip
        return Mission.from_query_result(qr)
    return mission(a, b)


def mission_distances():
    """Mission.gc_distance against the ground track between the airports."""
    import csv

    from AEIC.trajectories.ground_track import GroundTrack
    from AEIC.utils import GEOD

    from .traj_common import SYNTHETIC_AIRPORTS, TEST_DATA, load_config, mission

    load_config()
    codes = [r['iata_code'] for r in csv.DictReader(open(TEST_DATA / 'airports' / 'airports.csv')) if r['iata_code']]
    codes += [a[0] for a in SYNTHETIC_AIRPORTS]
    out, n = [], 0
    for a in codes:
        for b in codes:
            if a >= b:
                continue
            # GroundTrack.tla MissionEntries: a mission made by the constructor, from a TOML-like dictionary or from a
            # database query result (whose STATED schedule distance - here deliberately 17 km - is a datum of the
            # schedule, not the great-circle distance) is the same mission; one entry point per pair in turn
            entry = ('constructor', 'from_toml', 'from_query_result')[n % 3]
            m1, m2 = _mission_via(entry, a, b), mission(b, a)
            n += 1
            try:
                d1, d2 = float(m1.gc_distance), float(m2.gc_distance)
            except Exception as e:
                out.append(('mission-distance:raised', f'{a}-{b}: gc_distance raised {type(e).__name__}: {e}', (a, b)))
                continue
            gt = GroundTrack.great_circle(m1.origin_position.location, m1.destination_position.location).total_distance
            _, _, ref = GEOD.inv(m1.origin_position.longitude, m1.origin_position.latitude, m1.destination_position.longitude, m1.destination_position.latitude)
            if not (math.isfinite(d1) and abs(d1 - gt) <= 1e-3 and abs(d1 - ref) <= 1e-3):
                out.append(('mission-distance:not-ground-track-length', f'{a}-{b} (mission made by {entry}): Mission.gc_distance = {d1}; ground track between the airports = {gt} m', (a, b)))
            elif abs(d1 - d2) > 1e-3:
                out.append(('mission-distance:not-symmetric', f'{a}-{b}: {d1} vs {b}-{a}: {d2}', (a, b)))
    return out, n


def run(ctx: Ctx):
    ctx.rule = (
        'abstract tracks = 5 leg-length sequences (1-4 legs) x overstep allowed/not x location(d) for every half-unit d from -1 to total+3 and step(a, b) '
        'for every a and b in {-1,0,1,2,3,5,11} half units (1 092 cases, TLC-enumerated), each realised from 6 start points/headings; '
        'object histories: every sequence of 4 (5 thorough) creations (great_circle, overstep allowed / not, same end points) and queries on up to two objects; query histories on one object: every ordered pair of location queries on the 3 multi-leg tracks and random walks of 8 location/step queries; '
        'mission distances for every airport pair of the test file + synthetic airports; non-trivial = at a waypoint, beyond the end, or refused'
    )
    ctx.not_covered += ['"is the true WGS-84 geodesic" as a statement about geodesy: decided only relative to pyproj.Geod (trusted base); what is verified is GroundTrack\'s composition of geodesic primitives']
    ctx.assumptions += ['pyproj.Geod (WGS84) is the trusted base for positions (1 m) and azimuths (1e-6 deg)', 'azimuth is not compared exactly at waypoints']
    if ctx.replay:
        c = json.loads(Path(ctx.replay).read_text())['case']
        if 'case' in c:
            for key, desc in run_case((c['case'], c['start'])):
                ctx.violation(key, desc, c)
        if 'objects' in c:
            for key, desc in run_objects((c['objects'], c['start'])):
                ctx.violation(key, desc, c)
        if 'history' in c:
            for key, desc in run_history((c['history'], c['start'])):
                ctx.violation(key, desc, c)
        if 'whole' in c:
            for key, desc in run_whole(tuple(c['whole'])):
                ctx.violation(key, desc, c)
        if 'pair' in c:
            for key, desc, pair in mission_distances()[0]:
                if list(pair) == list(c['pair']):
                    ctx.violation(key, desc, c)
        return
    tlc.check(ctx, 'geo/GroundTrack', 'geo/MC_GroundTrack.cfg', workers=8)
    cases = tlc.check(ctx, 'geo/GroundTrackGen', 'geo/Gen_GroundTrack.cfg', workers=8)['emitted']
    ctx.exhaustive = True
    jobs = [(c, si) for c in cases for si in range(len(STARTS))]
    ctx.log(f'{len(jobs)} ground-track queries on real geodesics')
    for (case, si), devs in zip(jobs, pmap(run_case, jobs)):
        c, o = case['c'], case['o']
        ctx.case_done((c, si), nontrivial=bool(o['refused']) or c['a'] + c['b'] >= sum(c['legs']) or len(c['legs']) > 1)
        ctx.sample({'case': c, 'expect': o, 'start': STARTS[si][:3]}, limit=3)
        seen = set()
        for key, desc in devs:
            if key == 'machinery':
                raise MachineryError('ground-track worker failed: ' + desc)
            if key not in seen:
                seen.add(key)
                ctx.violation(key, desc, {'case': case, 'start': si})
    # GroundTrack.tla CoordForms: whole-degree way points given as ints / numpy ints / floats
    wjobs = [(ti, form) for ti in range(len(WHOLE_TRACKS)) for form in ('float', 'whole', 'numpy_whole')]
    for job, devs in zip(wjobs, pmap(run_whole, wjobs)):
        ctx.case_done(('whole', job), nontrivial=job[1] != 'float')
        for key, desc in devs:
            if key == 'machinery':
                raise MachineryError('ground-track worker failed: ' + desc)
            ctx.violation(key, desc, {'whole': list(job)})
    # histories on one object: exhaustive pairs of location queries on the multi-leg tracks, random walks of 8 mixed queries
    tlc.check(ctx, 'geo/GroundTrackHist', 'geo/MC_GroundTrackHist.cfg', workers=8)
    neg = tlc.run('geo/GroundTrackHist', 'geo/MC_GroundTrackHist.cfg', sub={'Design = "stateless"': 'Design = "resume"'})
    if 'Invariant HistoryIndependent is violated' not in neg['out']:
        raise MachineryError('negative control failed: a resuming waypoint search should violate HistoryIndependent')
    ctx.extra['negative_control'] = 'GroundTrackHist with Design=resume violates HistoryIndependent (location(3) then an earlier-leg query) as expected'
    hs = tlc.check(ctx, 'geo/GroundTrackHist', 'geo/Gen_GroundTrackHist.cfg', workers=8)['emitted']
    # a refused request repeated (the refusal must not leave anything behind that answers the repeat)
    hs += tlc.check(ctx, 'geo/GroundTrackHist', 'geo/Gen_GroundTrackRepeat.cfg', workers=8, sub=None if ctx.quick else {'D = 3': 'D = 4'})['emitted']
    nw = 150 if ctx.quick else 3000
    hs += tlc.check(ctx, 'geo/GroundTrackHist', 'geo/Sim_GroundTrackHist.cfg', workers=1, simulate=f'num={nw}', depth=12, seed=ctx.seed)['emitted']
    hjobs = [(h, si) for i, h in enumerate(hs) for si in ([i % len(STARTS)] if ctx.quick else range(len(STARTS)))]
    ctx.log(f'{len(hjobs)} query histories on single ground-track objects')
    for (h, si), devs in zip(hjobs, pmap(run_history, hjobs)):
        ctx.case_done(('hist', h['trk'], [(e['q']['op'], e['q']['a'], e['q']['b']) for e in h['hist']], si), nontrivial=True)
        if len(h['hist']) > 2:
            ctx.sample({'track': h['trk'], 'queries': [(e['q']['op'], e['q']['a'], e['q']['b']) for e in h['hist']], 'start': STARTS[si][:3]}, limit=2)
        seen = set()
        for key, desc in devs:
            if key.endswith('machinery'):
                raise MachineryError('ground-track worker failed: ' + desc)
            if key not in seen:
                seen.add(key)
                ctx.violation(key, desc, {'history': h, 'start': si})
    # several objects for the same end points (great_circle with different overstep flags)
    tlc.check(ctx, 'geo/GroundTrackObjs', 'geo/MC_GroundTrackObjs.cfg', workers=4)
    neg = tlc.run('geo/GroundTrackObjs', 'geo/MC_GroundTrackObjs.cfg', sub={'Design = "own_object"': 'Design = "shared_instance"'})
    if 'Invariant OwnFlag is violated' not in neg['out']:
        raise MachineryError('negative control failed: one shared instance per pair of end points should violate OwnFlag')
    ctx.extra['negative_control_objects'] = 'GroundTrackObjs with Design=shared_instance violates OwnFlag as expected'
    ob = tlc.check(ctx, 'geo/GroundTrackObjs', 'geo/Gen_GroundTrackObjs.cfg', workers=4, sub=None if ctx.quick else {'D = 4': 'D = 5'})['emitted']
    ojobs = [(h, i % len(STARTS)) for i, h in enumerate(ob)]
    for (h, si), devs in zip(ojobs, pmap(run_objects, ojobs)):
        ctx.case_done(('objects', [(e['op'], e['obj'], e['over'], e['a'], e['b']) for e in h], si), nontrivial=sum(1 for e in h if e['op'] == 'create') > 1)
        seen = set()
        for key, desc in devs:
            if key.endswith('machinery'):
                raise MachineryError('ground-track worker failed: ' + desc)
            if key not in seen:
                seen.add(key)
                ctx.violation(key, desc, {'objects': h, 'start': si})
    md, n = mission_distances()
    for _ in range(n):
        ctx.evaluations += 1
    ctx.extra['mission_pairs_checked'] = n
    seen = {}
    for key, desc, pair in md:
        seen[key] = seen.get(key, 0) + 1
        ctx.violation(key, desc, {'pair': pair})
