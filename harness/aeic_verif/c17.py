"""C17 — each simulated flight is independent of the builder's history and failures.

spec:    specs/builder/Builder.tla (context life cycle per flight, Outcome as a
         function of mission kind and options; NoContextBetweenFlights,
         HistoryIndependent, ErrorIsOriginal), MassIter.tla
         (ReturnedImpliesSmall).
binding: every TLC-enumerated sequence of flights (8 mission kinds x 4 option
         sets) is flown on ONE builder; each result must be bit-identical to a
         fresh builder's, each refusal must carry the reason the failing stage
         raises when run directly, no context may remain attached; the
         per-iteration residuals of mass-iterating flights are recorded and
         validated by TLC against MassIterTrace.tla, and the returned
         trajectory's leftover trip fuel is re-computed from its own fields.
"""

from __future__ import annotations

import json
import warnings
from pathlib import Path

import numpy as np

from . import tlc
from .core import Ctx, MachineryError
from .store_replay import pmap
from .traj_common import load_config, mission, sample_model

OPTS = {
    'plain': dict(iterate_mass=False),
    'iter': dict(iterate_mass=True),
    'iter_tight': dict(iterate_mass=True, max_mass_iters=2, mass_iter_reltol=1e-9),
    'weather': dict(iterate_mass=False, use_weather=True),
}
REASON_PATTERNS = {
    # reason -> (admissible exception classes, substring of the original message)
    'unknown_airport': (('ValueError',), 'Unknown airport'),
    'airport_above_cruise': (('ValueError',), 'cruise'),
    'missing_weather': (('FileNotFoundError', 'ValueError'), ''),
    'outside_weather_domain': (('ValueError',), 'weather'),
    'out_of_envelope': (('ValueError',), 'out of bounds'),
    'non_convergence': (('RuntimeError',), 'converge'),
}
POINT_FIELDS = ['fuel_flow', 'aircraft_mass', 'fuel_mass', 'ground_distance', 'altitude', 'flight_level', 'rate_of_climb',
                'flight_time', 'latitude', 'longitude', 'azimuth', 'heading', 'true_airspeed', 'ground_speed']  # fmt: skip


def concrete(kind, opt):
    """(mission, fly kwargs) for an abstract mission kind under an option set."""
    w = opt == 'weather'
    a, b = ('BOS', 'JFK') if w else ('BOS', 'LAX')
    if kind in ('ok1', 'ok_other_model'):
        return mission(a, b), {}
    if kind == 'ok_given_mass':
        return mission(a, b), {'starting_mass': 75000.0}
    if kind == 'ok2':
        return (mission('JFK', 'BOS') if w else mission('SFO', 'ORD', load_factor=0.7)), {}
    if kind == 'unknown_origin':
        return mission('ZZZ', b), {}
    if kind == 'unknown_dest':
        return mission(a, 'QQQ'), {}
    if kind == 'dest_above_cruise':
        return mission(a, 'HIG'), {}
    if kind == 'overweight':
        return mission(a, b), {'starting_mass': 200000.0}
    if kind == 'no_weather_file':
        return mission(a, b, departure='2030-01-01T12:00:00'), {}
    if kind == 'outside_weather':
        return mission('BOS', 'LAX'), {}
    raise MachineryError(f'unknown mission kind {kind}')


def digest(traj):
    return {f: np.asarray(getattr(traj, f)).copy() for f in POINT_FIELDS} | {
        '_meta': (float(traj.starting_mass), float(traj.total_fuel_mass), int(traj.n_climb), int(traj.n_cruise), int(traj.n_descent), len(traj))
    }


def same(a, b):
    if a['_meta'] != b['_meta']:
        return f'metadata {a["_meta"]} != {b["_meta"]}'
    for f in POINT_FIELDS:
        if not np.array_equal(a[f], b[f], equal_nan=True):
            return f'field {f} differs'
    return None


_rec = []
_pm = None


def install_iter_recorder():
    from AEIC.trajectories.builders.base import Builder

    if getattr(Builder, '_verif_wrapped', False):
        return
    orig = Builder._fly_iteration

    def wrapped(self):
        traj, res = orig(self)
        tol = self.options.mass_iter_reltol
        _rec.append({'op': 'iter', 'res': 'small' if abs(res) < tol else ('over' if res > 0 else 'under')})
        return traj, res

    Builder._fly_iteration = wrapped
    Builder._verif_wrapped = True


def new_builder(opt):
    import AEIC.trajectories.builders as tb
    from AEIC.trajectories.builders.legacy import LegacyOptions

    if opt == 'weather':
        # every step of a flight with weather interpolates the wind field: coarser steps keep triples affordable
        return tb.LegacyBuilder(options=tb.Options(**OPTS[opt]), legacy_options=LegacyOptions(frac_step_clm=0.05, frac_step_crz=0.05, frac_step_des=0.05))
    return tb.LegacyBuilder(options=tb.Options(**OPTS[opt]))


def other_model():
    """A second valid performance model: the sample table with every fuel flow scaled
    by 1.25 and a lower ceiling (so cruise altitude, cruise reference and burn all differ)."""
    global _pm_other
    if _pm_other is None:
        import tomllib

        from AEIC.config import config
        from AEIC.performance.models import PerformanceModel

        with open(config.file_location('performance/sample_performance_model.toml'), 'rb') as fp:
            d = tomllib.load(fp)
        fk = next(k for k in d if k.lower() == 'flight_performance')
        iff = [c.lower() for c in d[fk]['cols']].index('fuel_flow')
        d[fk]['data'] = [[(v * 1.25 if j == iff else v) for j, v in enumerate(r)] for r in d[fk]['data']]
        ck = next(k for k in d if k.lower() == 'maximum_altitude_ft')
        d[ck] = d[ck] - 4000
        _pm_other = PerformanceModel.from_data(d)
    return _pm_other


_pm_other = None


def fly(builder, pm, kind, opt):
    import AEIC.trajectories.builders as tb

    m, kw = concrete(kind, opt)
    if kind == 'ok_other_model':
        pm = other_model()
    del _rec[:]
    try:
        t = builder.fly(pm, m, **kw)
        out = ('traj', digest(t), None, None)
    except Exception as e:
        out = ('err', None, type(e).__name__, str(e))
    iters = list(_rec)
    leftover = None
    if out[0] == 'traj' and OPTS[opt].get('iterate_mass'):
        d = out[1]
        leftover = abs(float(d['fuel_mass'][-1])) / d['_meta'][1]
    return out, iters, leftover, ('ctx' in vars(builder))


def run_seq(job):
    warnings.simplefilter('ignore')
    import AEIC.trajectories.builders as tb

    seq = job
    opt = seq['opt']
    try:
        global _pm
        if _pm is None:
            load_config()
            _pm = sample_model()
        pm = _pm
        install_iter_recorder()
        devs, traces = [], []
        used = new_builder(opt)
        fresh_cache = {}
        for i, fl in enumerate(seq['flights']):
            kind, want = fl['k'], fl['out']
            if kind not in fresh_cache:
                fb = new_builder(opt)
                fresh_cache[kind] = fly(fb, pm, kind, opt)[0]
            (tag, dig, ecls, emsg), iters, leftover, ctx_left = fly(used, pm, kind, opt)
            ftag, fdig, fcls, fmsg = fresh_cache[kind]
            where = f'flight {i + 1} ({kind}) after {[f["k"] for f in seq["flights"][:i]]} with options {opt}'
            if ctx_left:
                devs.append(('context-left-attached', f'{where}: builder.ctx still present after the call'))
            if want == 'traj':
                if tag != 'traj':
                    devs.append((f'valid-mission-raised-{ecls}', f'{where}: raised {ecls}: {emsg}; specification: a trajectory'))
                elif ftag == 'traj':
                    why = same(dig, fdig)
                    if why:
                        devs.append(('differs-from-fresh-builder', f'{where}: result is not bit-identical to a fresh builder ({why})'))
            else:
                classes, frag = REASON_PATTERNS[want]
                if tag == 'traj':
                    devs.append((f'{want}:not-rejected', f'{where}: returned a trajectory; specification: rejected ({want})'))
                elif ecls not in classes or frag not in (emsg or ''):
                    devs.append((f'{want}:masked-by-{ecls}', f'{where}: raised {ecls}: {emsg[:120]}; specification: the original reason ({want}: {"/".join(classes)} ...{frag}...)'))
                elif ftag == 'err' and (fcls, fmsg) != (ecls, emsg):
                    devs.append((f'{want}:differs-from-fresh-builder', f'{where}: raised {ecls}: {emsg[:80]} but a fresh builder raises {fcls}: {fmsg[:80]}'))
            if OPTS[opt].get('iterate_mass') and iters:
                outcome = 'returned' if tag == 'traj' else ('nonconv' if ecls == 'RuntimeError' and 'converge' in (emsg or '') else 'error')
                if outcome != 'error':
                    traces.append([{'op': 'begin', 'maxit': OPTS[opt].get('max_mass_iters', 5)}] + iters + [{'op': 'end', 'outcome': outcome}])
                if tag == 'traj':
                    tol = OPTS[opt].get('mass_iter_reltol', 1e-2)
                    if not (leftover < tol):
                        devs.append(('returned-not-converged', f'{where}: returned trajectory leaves {leftover:.3e} of the trip fuel, tolerance {tol:.1e}'))
        return devs, traces
    except MachineryError as e:
        return [('machinery', str(e))], []
    except Exception as e:
        import traceback

        return [('machinery', f'{type(e).__name__}: {e}\n{traceback.format_exc()}')], []


def run_massiter(job):
    """One mass-iterating flight with given (max_iters, tolerance, route): the
    recorded residual sequence and the re-computed leftover trip fuel."""
    warnings.simplefilter('ignore')
    import AEIC.trajectories.builders as tb

    maxit, tol, (a, b, lf), *more = job
    lhv = more[0] if more else None   # MassIter.tla "under": a fuel of low heating value makes the first guess an under-estimate
    try:
        global _pm
        if _pm is None:
            load_config()
            _pm = sample_model()
        install_iter_recorder()
        kw = {} if lhv is None else {'legacy_options': tb.LegacyOptions(fuel_LHV=lhv)}
        bld = tb.LegacyBuilder(options=tb.Options(iterate_mass=True, max_mass_iters=maxit, mass_iter_reltol=tol), **kw)
        del _rec[:]
        devs = []
        try:
            t = bld.fly(_pm, mission(a, b, load_factor=lf))
            outcome = 'returned'
            leftover = abs(float(t.fuel_mass[-1])) / float(t.total_fuel_mass)
            if not (leftover < tol):
                devs.append(('returned-not-converged', f'max_mass_iters={maxit} tol={tol} {a}-{b}{"" if lhv is None else f" fuel LHV {lhv:g} J/kg"}: returned trajectory leaves {leftover:.3e} of the trip fuel'))
        except RuntimeError as e:
            outcome = 'nonconv' if 'converge' in str(e) else 'error'
            if outcome == 'error':
                devs.append(('massiter-raised-RuntimeError', f'max_mass_iters={maxit} tol={tol} {a}-{b}: {e}'))
        except Exception as e:
            outcome = 'error'
            devs.append((f'massiter-raised-{type(e).__name__}', f'max_mass_iters={maxit} tol={tol} {a}-{b}: {type(e).__name__}: {e}'))
        tr = [{'op': 'begin', 'maxit': maxit}] + list(_rec) + [{'op': 'end', 'outcome': outcome}]
        return devs, ([tr] if outcome != 'error' else [])
    except Exception as e:
        import traceback

        return [('machinery', f'{type(e).__name__}: {e}\n{traceback.format_exc()}')], []


def run(ctx: Ctx):
    ctx.rule = (
        'sequences = every sequence of N flights (N = 2 quick / 3 thorough; mass-iterating option sets one shorter) over 10 mission kinds '
        '(2 valid, 1 valid flown with a second performance model, 1 valid with an explicit starting mass, unknown origin/destination, destination above cruise level, overweight start, missing weather file, outside weather domain) '
        'for 4 option sets, TLC-enumerated; with weather additionally every triple flown / any / flown; non-trivial = contains a failing flight followed by another flight'
    )
    ctx.assumptions += [
        'missions use the sample B738 table and the repository test airports plus synthetic airports written by the harness',
        'the original reason is identified by exception class and a fragment of the message the failing stage itself raises',
    ]
    replay_jobs = []
    if ctx.replay:
        case = json.loads(Path(ctx.replay).read_text())['case']
        mi = case.get('massiter') or (case.get('seq') or {}).get('massiter')
        if mi:
            seqs, replay_jobs = [], [(mi[0], mi[1], tuple(mi[2]), *mi[3:])]
        else:
            seqs = [case['seq']]
    else:
        tlc.check(ctx, 'builder/Builder', 'builder/MC_Builder.cfg')
        tlc.check(ctx, 'builder/MassIter', 'builder/MC_MassIter.cfg')
        n = 2 if ctx.quick else 3
        gen = tlc.check(ctx, 'builder/BuilderGen', 'builder/Gen_Builder.cfg', sub={'MaxFlights = 3': f'MaxFlights = {n}'}, workers=8)
        seqs = gen['emitted']
        short = tlc.check(ctx, 'builder/BuilderGen', 'builder/Gen_Builder.cfg', sub={'MaxFlights = 3': f'MaxFlights = {n - 1}'}, workers=8)['emitted']
        # mass iteration multiplies the cost of a flight and a flight with weather costs ~5 s:
        # plain options get the longest sequences, the others shorter ones
        two = short if n == 3 else seqs
        wsel = [s for s in two if s['opt'] == 'weather' and s['flights'][0]['out'] != 'traj']
        if ctx.quick:
            ctx.rng.shuffle(wsel)
            wsel = wsel[:12]
        one = tlc.check(ctx, 'builder/BuilderGen', 'builder/Gen_Builder.cfg', sub={'MaxFlights = 3': 'MaxFlights = 1'}, workers=8)['emitted']
        # weather: a flown flight, then any flight (failing or not), then a flown flight again on the same builder -
        # state kept by the weather reader across flights shows only in the third
        three = seqs if n == 3 else tlc.check(ctx, 'builder/BuilderGen', 'builder/Gen_Builder.cfg', workers=8)['emitted']
        wtri = [s for s in three if s['opt'] == 'weather' and len(s['flights']) == 3 and s['flights'][0]['out'] == 'traj' and s['flights'][2]['out'] == 'traj']
        if ctx.quick:
            wtri = [s for s in wtri if s['flights'][0]['k'] == s['flights'][2]['k']]
        # mass iteration: quick flies single flights plus every pair whose first flight passes an explicit starting mass
        # (accepted or out of envelope) and whose second is flown without one
        pairs = seqs if n == 2 else short
        ipairs = [s for s in pairs if s['opt'] in ('iter', 'iter_tight') and len(s['flights']) == 2 and s['flights'][0]['k'] in ('ok_given_mass', 'overweight')
                  and s['flights'][1]['k'] in ('ok1', 'ok2', 'ok_other_model')]
        seqs = (
            wtri
            + [s for s in seqs if s['opt'] == 'plain']
            + (ipairs if ctx.quick else [])
            + [s for s in short if s['opt'] in ('iter', 'iter_tight')]
            + [s for s in one if s['opt'] == 'weather']
            + wsel
        )
        ctx.exhaustive = True
    ctx.log(f'flying {len(seqs)} flight sequences')
    results = pmap(run_seq, seqs)
    traces = []
    jobs = replay_jobs
    if not ctx.replay:
        routes = [('BOS', 'LAX', 1.0), ('SFO', 'ORD', 0.6), ('DEN', 'JFK', 0.9)]
        jobs = [(m, t, r) for m in (1, 2, 3, 5, 8) for t in (0.2, 1e-2, 1e-3, 1e-4, 1e-5, 1e-6) for r in routes]
        # under-estimated first guesses (negative residuals): fuels of low heating value on short routes
        low = [(m, t, r, lhv) for m in (1, 2, 4, 8) for t in (1e-2, 1e-3) for r in (('BOS', 'JFK', 1.0), ('DEN', 'ABQ', 0.8)) for lhv in (10.0e6, 18.6e6)]
        if ctx.quick:
            low = [j for j in low if j[0] in (2, 8)]
        if ctx.quick:
            # tight tolerances with enough iterations to reach them are always flown: a returned trajectory must be within them
            tight = [j for j in jobs if j[0] >= 5 and j[1] in (1e-4, 1e-5)]
            rest = [j for j in jobs if j not in tight]
            ctx.rng.shuffle(rest)
            jobs = tight + rest[:14]
        # a tolerance nothing can meet (NaN: every comparison with it is false): the iteration budget runs out and
        # non-convergence is reported - MassIter.tla with every residual outside the tolerance
        jobs = jobs + low + [(m, float('nan'), ('BOS', 'LAX', 1.0)) for m in (2, 3)]
    for job, (devs, trs) in zip(jobs, pmap(run_massiter, jobs)):
        ctx.case_done({'massiter': job})
        for key, desc in devs:
            if key == 'machinery':
                raise MachineryError('builder worker failed: ' + desc)
            ctx.violation(key, desc, {'massiter': job})
        for t in trs:
            traces.append({'t': f'massiter-{len(traces)}', 'ev': t, 'seq': {'massiter': job}})
    for seq, (devs, trs) in zip(seqs, results):
        ks = [f['k'] for f in seq['flights']]
        outs = [f['out'] for f in seq['flights']]
        ctx.case_done(seq, nontrivial=any(o != 'traj' for o in outs[:-1]))
        ctx.sample({'opt': seq['opt'], 'flights': ks}, limit=3)
        seen = set()
        for key, desc in devs:
            if key == 'machinery':
                raise MachineryError('builder worker failed: ' + desc)
            if key not in seen:
                seen.add(key)
                ctx.violation(key, desc, {'seq': seq})
        for t in trs:
            traces.append({'t': f'massiter-{len(traces)}', 'ev': t, 'seq': seq})
    # de-duplicate identical residual traces before handing them to TLC
    uniq = {}
    for t in traces:
        uniq.setdefault(json.dumps(t['ev']), t)
    tl = [{'t': t['t'], 'ev': t['ev']} for t in uniq.values()]
    rej = tlc.validate_traces(ctx, 'builder/MassIterTrace', 'builder/MassIterTrace.cfg', tl)
    by = {t['t']: t for t in uniq.values()}
    for r in rej:
        t = by[r['t']]
        ctx.violation('mass-iteration:trace-rejected', f'mass-iteration run {t["ev"]} is not a behaviour of MassIter.tla (matched {r["matched"]} of {r["total"]} events)', {'seq': t['seq'], 'trace': t['ev']})
    ctx.traces_validated += len(tl)
    ctx.extra['mass_iteration_traces'] = len(tl)
