"""Replay of Store.tla behaviours on real NetCDF-backed TrajectoryStore objects.

Shared by C07 (indices/insertion order), C08 (flight-id lookup) and C10
(rejected additions).  Every deviation is classified to the property it
belongs to; each check reports only its own class.
"""

from __future__ import annotations

import gc
import shutil
import tempfile
import warnings
from pathlib import Path

import numpy as np

from .core import MachineryError

POINT_FIELDS = [
    'fuel_flow', 'aircraft_mass', 'fuel_mass', 'ground_distance', 'altitude', 'flight_level',
    'rate_of_climb', 'flight_time', 'latitude', 'longitude', 'azimuth', 'heading',
    'true_airspeed', 'ground_speed',
]  # fmt: skip

DELIBERATE = ('ValueError', 'RuntimeError', 'IndexError', 'EvictionOccurred')


def _aeic():
    from AEIC.storage import Dimension, Dimensions, FieldMetadata, FieldSet
    from AEIC.trajectories import TrajectoryStore
    from AEIC.trajectories.trajectory import Trajectory

    return TrajectoryStore, Trajectory, FieldSet, FieldMetadata, Dimensions, Dimension


_extras_registered = False


def _register_extras():
    global _extras_registered
    if _extras_registered:
        return
    _, _, FieldSet, FieldMetadata, Dimensions, Dimension = _aeic()
    FieldSet(
        'vf_extras',
        vx=FieldMetadata(description='verif extra pointwise', units='u'),
        vm=FieldMetadata(dimensions=Dimensions(Dimension.TRAJECTORY), field_type=np.int32, description='verif extra scalar', units='u'),
    )
    # same field names as vf_extras, another definition (scalar of another type, other units)
    FieldSet(
        'vf_extras_alt',
        vx=FieldMetadata(description='verif extra pointwise', units='other'),
        vm=FieldMetadata(dimensions=Dimensions(Dimension.TRAJECTORY), field_type=np.float64, description='verif extra scalar', units='u'),
    )
    _extras_registered = True


# StoreGen.tla IdRenderings: how the abstract identifiers 1, 2, 3 ... of the specification are rendered as int64
# flight identifiers - as themselves ("small") or as neighbours around a 19-digit composite key ("wide":
# date + serial, consecutive integers that no float64 can tell apart).  Set per behaviour by run_behaviour.
WIDE_BASE = 2026011500000000000
_idr = {'wide': False, 'zero': False, 'nan': False, 'signed': 0}


def cid(k: int) -> int:
    """abstract identifier -> flight identifier handed to the store (rendering "zero_based": 1, 2, 3 ... are 0, 1, 2 ...
    - the flight identifier 0 is an identifier like any other)"""
    if _idr['zero'] and k:
        return int(k) - 1
    if _idr.get('signed') and k:
        # rendering "signed": 1, 2, 3 ... are -1, 0, 1 ... - an int64 identifier may be negative
        return int(k) - int(_idr['signed'])
    return (WIDE_BASE + int(k)) if (_idr['wide'] and k) else int(k)


def aid(c: int) -> int:
    """flight identifier read from the store -> abstract identifier (unknown values are kept, they never match)"""
    c = int(c)
    if _idr['zero']:
        return c + 1
    if _idr.get('signed'):
        return c + int(_idr['signed'])
    return c - WIDE_BASE if (_idr['wide'] and 0 < c - WIDE_BASE < 100000) else c


def npoints_of(p: int, big: bool) -> int:
    # (Codec.tla PointCounts "one": in the codec family payload 2 may be a trajectory of exactly ONE point)
    if _idr.get('onepoint') and int(p) == 2 and not big:
        return 1
    return (4000 if big else 6) + int(p)


def make_payload(p: int, fid: int, big: bool = False, missing: str | None = None, extras: bool | str = False, oversize: bool = False):
    """Deterministic trajectory for payload id p; every field distinct per p."""
    _, Trajectory, *_ = _aeic()
    n = npoints_of(p, big) * (3 if oversize else 1)   # 3 x 450 kB: larger than the whole 1 MB cache of the pressure tier
    fieldsets = None
    if extras:
        _register_extras()
        fieldsets = ['vf_extras_alt' if extras == 'alt' else 'vf_extras']
    if fieldsets and _idr.get('late'):
        # StoreGen.tla PayloadForms "late_fields": the trajectory is made with the base fields only, used as one (hashed, as
        # any set or store does), and gets its second field set attached afterwards - the same trajectory in the end
        t = Trajectory(n, name=f'p{p}')
        hash(t)
        t.add_fields(_aeic()[2].from_registry(fieldsets[0]))
    else:
        t = Trajectory(n, name=f'p{p}', fieldsets=fieldsets)
    for k, f in enumerate(POINT_FIELDS):
        setattr(t, f, p * 1000.0 + k * 10 + np.arange(n, dtype=float) / 8.0)
    if missing != 'starting_mass':
        t.starting_mass = p * 1000.0 + 0.5
    if missing != 'total_fuel_mass':
        # StoreGen.tla PayloadForms "nan_scalar": NaN is a value a float scalar may hold (stored and read back as NaN);
        # payload 2 carries it in that form (also in the files of the start states)
        t.total_fuel_mass = float('nan') if (_idr.get('nan') and p == 2) else p * 100.0 + 0.25
    t.n_climb = 1
    t.n_cruise = max(n - 2, 0)
    t.n_descent = 1 if n >= 2 else 0
    if fid:
        t.flight_id = cid(fid)   # (an abstract 0 means: no identifier)
    if extras:
        t.vx = np.arange(n, dtype=float)
        if missing != 'vm':
            t.vm = 5.0 if extras == "alt" else 5
    return t


def ident(traj, big: bool) -> dict:
    """Project a returned trajectory to its abstract item {p, id}; any field
    that differs from the canonical payload makes it 'corrupt'."""
    try:
        p = int(round(float(traj.fuel_flow[0]))) // 1000
        fid_raw = getattr(traj, 'flight_id', None)
        fid = 0 if fid_raw is None else aid(fid_raw)
        ref = make_payload(p, fid, big)
        if len(traj) != len(ref):
            return {'p': 'corrupt', 'id': fid, 'why': f'length {len(traj)} != {len(ref)}'}
        for f in POINT_FIELDS:
            if not np.array_equal(np.asarray(getattr(traj, f)), np.asarray(getattr(ref, f))):
                return {'p': 'corrupt', 'id': fid, 'why': f'field {f}'}
        for f in ('starting_mass', 'total_fuel_mass', 'n_climb', 'n_cruise', 'n_descent'):
            a, b = getattr(traj, f), getattr(ref, f)
            if a != b and not (isinstance(a, float | np.floating) and isinstance(b, float | np.floating) and np.isnan(a) and np.isnan(b)):
                return {'p': 'corrupt', 'id': fid, 'why': f'field {f}'}
        if traj.name not in (ref.name,):
            return {'p': 'corrupt', 'id': fid, 'why': 'name'}
        return {'p': p, 'id': fid}
    except Exception as e:  # unreadable object
        return {'p': 'corrupt', 'id': -1, 'why': f'{type(e).__name__}: {e}'}


class Deviation(Exception):
    def __init__(self, prop, key, desc):
        self.prop, self.key, self.desc = prop, key, desc


class StoreRunner:
    def __init__(self, big=False, cache_mb=None):
        self.TS = _aeic()[0]
        self.big = big
        self.cache_mb = cache_mb
        self.dir = Path(tempfile.mkdtemp(prefix='c07-'))
        self.path = self.dir / 'F.nc'
        self.ts = None
        self.ids_present = None  # last known indexability for classification

    def cleanup(self):
        self.force_close()
        shutil.rmtree(self.dir, ignore_errors=True)

    def force_close(self):
        ts, self.ts = self.ts, None
        if ts is None:
            return
        try:
            ts.close()
        except Exception:
            for nc in list(getattr(ts, '_nc_files', [])):
                for ds in nc.dataset:
                    try:
                        ds.close()
                    except Exception:
                        pass
            ids = getattr(ts, 'index_dataset', None)
            if ids is not None:
                try:
                    ids.close()
                except Exception:
                    pass
        gc.collect()

    def _make(self, how, **kw):
        """StoreGen.tla EntryForms: a session is started through the factory methods create / open / append, or through the
        public constructor with the mode given as FileMode member or as its plain string value - the same thing."""
        TS = self.TS
        entry = getattr(self, 'entry', 'factory')
        if entry == 'factory':
            return getattr(TS, how)(**kw)
        member = {'create': TS.FileMode.CREATE, 'open': TS.FileMode.READ, 'append': TS.FileMode.APPEND}[how]
        return TS(mode=member if entry == 'constructor' else str(member.value), **kw)

    def _kw(self):
        return {} if self.cache_mb is None else {'cache_size_mb': self.cache_mb}

    def prepare(self, start: int, flavour: str | None = None):
        self.extras = (flavour == 'extras') if flavour is not None else start == 3  # StoreGen.tla Flavour
        if start == 0:
            return
        ids = (3, 1) if start == 2 else (0, 0)
        with self.TS.create(base_file=self.path) as ts:
            ts.add(make_payload(1, ids[0], self.big, extras=self.extras))
            ts.add(make_payload(2, ids[1], self.big, extras=self.extras))

    # -- one spec event on the real store -> (ok, val, errclass, errmsg)
    def apply(self, ev):
        op, arg = ev['op'], ev['arg']
        TS = self.TS
        try:
            if op == 'create':
                self.ts = self._make('create', base_file=self.path, **self._kw())
                return 'yes', '-', None, None
            if op == 'createmem':
                self.ts = self._make('create', **self._kw())
                return 'yes', '-', None, None
            if op == 'open':
                self.ts = self._make('open' if arg == 'read' else 'append', base_file=self.path, **self._kw())
                return 'yes', len(self.ts), None, None
            ts = self.ts
            if op == 'close':
                self.ts = None
                try:
                    # (EntryForms: a session made through the constructor is left the way a `with` block leaves it)
                    if getattr(self, 'entry', 'factory') == 'constructor':
                        # ... every second time the way a block is left that an exception of the CALLER's code ends
                        # (Store.tla Close: a session ends; why it ends is not the store's business)
                        self._nclose = getattr(self, '_nclose', 0) + 1
                        if self._nclose % 2 == 0:
                            boom = KeyError('an error in the code around the store')
                            ts.__exit__(KeyError, boom, None)
                        else:
                            ts.__exit__(None, None, None)
                    else:
                        ts.close()
                finally:
                    self._after_close(ts)
                return 'yes', '-', None, None
            if op == 'sync':
                ts.sync()
                return 'yes', '-', None, None
            if op == 'save':
                ts.save(base_file=self.path)
                return 'yes', '-', None, None
            if op == 'add':
                if arg == '-':  # read-only session
                    ts.add(make_payload(1, 0, self.big, extras=self.extras))
                    return 'yes', '-', None, None
                p, fid = arg
                return 'yes', int(ts.add(make_payload(p, fid, self.big, extras=self.extras))), None, None
            if op == 'addbad':
                has_ids = self.spec_indexable
                if arg == 'missing_required':
                    t = make_payload(9, 99 if has_ids else 0, self.big, missing='starting_mass', extras=self.extras)
                elif arg == 'missing_required_other':
                    # the required scalar of the second field set where the store has one, else another base value
                    t = make_payload(9, 99 if has_ids else 0, self.big, missing='vm' if self.extras else 'total_fuel_mass', extras=self.extras)
                elif arg == 'missing_required_foreign':
                    t = make_payload(9, 99 if has_ids else 0, self.big, missing='starting_mass', extras=not self.extras)
                elif arg == 'oversized':
                    t = make_payload(9, 99 if has_ids else 0, self.big, extras=self.extras, oversize=True)
                elif arg == 'fieldset_mismatch':
                    t = make_payload(9, 99 if has_ids else 0, self.big, extras=not self.extras)
                elif arg == 'fieldset_redefined':
                    # realisable where the store's trajectories carry vf_extras; elsewhere it is the plain mismatch
                    t = make_payload(9, 99 if has_ids else 0, self.big, extras='alt' if self.extras else True)
                elif arg == 'id_inconsistent':
                    # (an identified trajectory offered to an unidentified store: with the identifier 0 where the
                    # rendering of the behaviour has one - 0 is an identifier, not the absence of one)
                    zero_id = 1 if _idr['zero'] else 2 if _idr.get('signed') else 99
                    t = make_payload(9, 0 if self.spec_indexable else zero_id, self.big, extras=self.extras)
                else:
                    raise MachineryError(f'unknown reject kind {arg}')
                ts.add(t)
                return 'yes', '-', None, None
            if op == 'get':
                # (EntryForms: an index / identifier is a whole number - Python int, or numpy integer in the third form)
                return 'yes', ident(ts[np.int64(arg) if getattr(self, 'entry', 'factory') == 'constructor_str' else arg], self.big), None, None
            if op == 'len':
                return 'yes', len(ts), None, None
            if op == 'iter':
                items = [ident(t, self.big) for t in ts]
                # Store.tla Iterate: every iteration of a store runs over all of it in insertion order - also two
                # iterations that overlap (zip(store, store), a nested loop)
                pairs = [(ident(a, self.big), ident(b, self.big)) for a, b in zip(ts, ts)]
                if pairs != [(x, x) for x in items]:
                    return 'yes', {'two overlapping iterations gave the pairs': pairs, 'a single iteration': items}, None, None
                return 'yes', items, None, None
            if op == 'evict':
                c = getattr(ts, '_trajectories', None)
                if c is not None:
                    c.pop(arg, None)
                return 'yes', '-', None, None
            if op == 'getflight':
                r = ts.get_flight(np.int64(cid(arg)) if getattr(self, 'entry', 'factory') == 'constructor_str' else cid(arg))
                return 'yes', ({'p': 'none', 'id': 0} if r is None else ident(r, self.big)), None, None
            raise MachineryError(f'unknown op {op}')
        except MachineryError:
            raise
        except Exception as e:
            return 'no', '-', type(e).__name__, str(e)[:200]

    def _after_close(self, ts):
        gc.collect()

    spec_indexable = False


def classify(op, arg, has_bad_before: bool, ids_in_play: bool, internal: bool) -> str:
    """Which property a deviation at this op belongs to (before the
    addbad-removal rerun that may re-attribute it to C10)."""
    if op == 'getflight':
        return 'C08'
    if op == 'addbad':
        return 'C08' if arg == 'id_inconsistent' else 'C10'
    if op in ('close', 'sync') and ids_in_play and internal:
        return 'C08'
    return 'C07'


def run_behaviour(beh: dict, big=False, cache_mb=None, skip_bad=False, want=None):
    """Replay one behaviour. Returns None if it conforms, else a dict
    describing the first deviation."""
    warnings.simplefilter('ignore')
    _idr['wide'] = beh.get('idr') == 'wide'
    _idr['zero'] = beh.get('idr') == 'zero_based'
    _idr['signed'] = 2 if beh.get('idr') == 'signed' else 0
    _idr['nan'] = beh.get('payload') == 'nan_scalar'
    _idr['late'] = beh.get('payload') == 'late_fields'
    r = StoreRunner(big=big, cache_mb=cache_mb)
    r.entry = beh.get('entry', 'factory')
    universe_ids = sorted({it['id'] for it in beh['added'] if it['id']} | {1, 2, 3, 7})
    # With `want` (a property id) the replay does not stop at a deviation that belongs to another property: it is
    # remembered, the step is left and the behaviour goes on, so that what the SAME history does to the wanted
    # property's operations is still seen (e.g. an addition that gets the wrong index, then a lookup that fails).
    others = []

    def keep(d):
        if want is None or d['prop'] == want or d.get('also') == want or (want == 'C10' and d.get('after_bad')):
            if others:
                d['desc'] += f' [after an earlier deviation of {others[0]["prop"]}: {others[0]["what"]}]'
            return True
        others.append(d)
        return False

    try:
        try:
            r.prepare(beh['start'], beh.get('flavour'))
        except MachineryError:
            raise
        except Exception as e:
            # the start state is made through the public API as well (create, two additions, close)
            return {'prop': 'C10' if want == 'C10' else 'C07', 'also': 'C10', 'step': -1, 'op': 'add', 'arg': 'start-state', 'what': f'start-state-raised-{type(e).__name__}',
                    'desc': f'writing the start state (create, add payloads 1 and 2, close; payload form {beh.get("payload")}) raised {type(e).__name__}: {e}', 'after_bad': False, 'got': {}}
        has_bad = False
        spec_items = None
        ids_in_play = False
        prev_ix = 'undecided'
        for si, step in enumerate(beh['h']):
            ev = step['ev']
            if ev['op'] == 'addbad':
                if skip_bad:
                    continue
            r.spec_indexable = prev_ix == 'yes'
            ids_in_play = step['ix'] == 'yes' or prev_ix == 'yes'
            prev_ix = step['ix']
            ok, val, err, msg = r.apply(ev)
            internal = err is not None and err not in DELIBERATE or (err == 'RuntimeError' and (msg or '').startswith('NetCDF'))

            def dev(what, desc, _ev=ev, _si=si, _internal=internal):
                # an addition the specification has the store refuse (a valid trajectory an in-memory store at the
                # capacity of its cache cannot take) is a rejected addition: what it leaves behind is C10's clause,
                # and at the same time a violation of C07's (length, order)
                refused_add = _ev['op'] == 'add' and _ev['ok'] == 'no'
                return {
                    # (an inconsistent-identifier addition that is not refused: C08's "fully identified or not at all"
                    # and C10's "an addition the store rejects leaves the store as it was")
                    **({'also': 'C07'} if refused_add else {'also': 'C10'} if (_ev['op'] == 'addbad' and _ev['arg'] == 'id_inconsistent') else {}),
                    'prop': 'C10' if refused_add else classify(_ev['op'], _ev['arg'], has_bad, ids_in_play, _internal),
                    'step': _si,
                    'op': _ev['op'],
                    'arg': _ev['arg'],
                    'what': what,
                    'desc': desc,
                    'after_bad': has_bad,
                    'got': {'ok': ok, 'val': val, 'err': err, 'msg': msg},
                }

            if ev['op'] == 'addbad':
                has_bad = True
            if ok != ev['ok']:
                if ok == 'no':
                    _d = dev(f'raised-{err}', f'{ev["op"]}({ev["arg"]}) raised {err}: {msg}; specification: succeeds with {ev["val"]}')
                    if keep(_d):
                        return _d
                    continue
                _d = dev('accepted', f'{ev["op"]}({ev["arg"]}) was accepted (returned {val}); specification: refused ({ev["val"]})')
                if keep(_d):
                    return _d
                continue
            if ok == 'no' and internal:
                _d = dev(f'internal-{err}', f'{ev["op"]}({ev["arg"]}) refused with internal error {err}: {msg}')
                if keep(_d):
                    return _d
                continue
            if ok == 'no' and ev['op'] == 'get' and err != 'IndexError':
                _d = dev(f'raised-{err}', f'out-of-range get({ev["arg"]}) raised {err}, not IndexError')
                if keep(_d):
                    return _d
                continue
            if ok == 'yes' and ev['op'] in ('get', 'getflight', 'iter', 'len') and val != ev['val']:
                _d = dev('wrong-result', f'{ev["op"]}({ev["arg"]}) returned {val}; specification: {ev["val"]}')
                if keep(_d):
                    return _d
                continue
            if ok == 'yes' and ev['op'] == 'add' and ev['arg'] != '-' and val != ev['val']:
                _d = dev('wrong-index', f'add returned index {val}; specification: {ev["val"]}')
                if keep(_d):
                    return _d
                continue
            if ok == 'yes' and ev['op'] == 'open' and val != ev['val']:
                _d = dev('wrong-len', f'open: length {val}; specification: {ev["val"]}')
                if keep(_d):
                    return _d
                continue
            if r.ts is not None and ev['op'] not in ('close',):
                try:
                    n = len(r.ts)
                except Exception as e:
                    _d = dev('len-raised', f'len() raised {type(e).__name__}: {e}')
                    if keep(_d):
                        return _d
                    continue
                if n != step['n']:
                    _d = dev('len-after', f'after {ev["op"]}({ev["arg"]}) len() = {n}; specification: {step["n"]}')
                    if keep(_d):
                        return _d
                    continue
        # epilogue: close, reopen for reading, compare with the reference list
        final = {'op': 'epilogue', 'arg': '-'}

        def fdev(prop, what, desc):
            return {'prop': prop, 'step': len(beh['h']), 'op': 'epilogue', 'arg': '-', 'what': what, 'desc': desc, 'after_bad': has_bad, 'got': {}}

        was_mem = beh['open'] and r.ts is not None and not getattr(r.ts, 'nc_linked', True)
        if r.ts is not None:
            ts = r.ts
            r.ts = None
            try:
                ts.close()
            except Exception as e:
                r.ts = ts
                r.force_close()
                return fdev('C08' if (ids_in_play and not was_mem) else 'C07', f'close-raised-{type(e).__name__}', f'final close() raised {type(e).__name__}: {e}')
        if beh['exists']:
            expect = beh['disk']
            try:
                r.ts = r.TS.open(base_file=r.path)
            except Exception as e:
                return fdev('C07', f'reopen-raised-{type(e).__name__}', f'reopen for reading raised {type(e).__name__}: {e}')
            ts = r.ts
            if len(ts) != len(expect):
                return fdev('C07', 'reopen-len', f'after reopen len() = {len(ts)}; specification: {len(expect)} successful additions')
            for i, it in enumerate(expect):
                try:
                    got = ident(ts[i], big)
                except Exception as e:
                    return fdev('C07', f'reopen-get-raised-{type(e).__name__}', f'after reopen ts[{i}] raised {type(e).__name__}: {e}')
                if got != it:
                    return fdev('C07', 'reopen-item', f'after reopen ts[{i}] = {got}; specification: {it}')
            try:
                ts[len(expect)]
                return fdev('C07', 'reopen-oob', f'after reopen ts[{len(expect)}] did not raise')
            except IndexError:
                pass
            except Exception as e:
                return fdev('C07', f'reopen-oob-{type(e).__name__}', f'after reopen ts[{len(expect)}] raised {type(e).__name__}, not IndexError')
            if expect and expect[0]['id']:
                byid = {it['id']: it for it in expect}
                for fid in universe_ids:
                    try:
                        g = ts.get_flight(cid(fid))
                    except Exception as e:
                        return fdev('C08', f'reopen-getflight-raised-{type(e).__name__}', f'after reopen get_flight({fid}) raised {type(e).__name__}: {e}')
                    got = {'p': 'none', 'id': 0} if g is None else ident(g, big)
                    want = byid.get(fid, {'p': 'none', 'id': 0})
                    if got != want:
                        return fdev('C08', 'reopen-getflight', f'after reopen get_flight({fid}) = {got}; specification: {want}')
            r.force_close()
        return others[0] if others else None
    finally:
        r.cleanup()


def _work(job):
    beh, big, cache_mb, *rest = job
    want = rest[0] if rest else None
    try:
        d = run_behaviour(beh, big=big, cache_mb=cache_mb, want=want)
        if d is not None and d['after_bad'] and d['op'] != 'addbad':
            # does the deviation disappear when the rejected additions are left out?
            d2 = run_behaviour(beh, big=big, cache_mb=cache_mb, skip_bad=True, want=want)
            if d2 is None:
                # a rejected addition that leaves a trace is C10's clause; what then goes wrong (length, index,
                # iteration, lookup) is at the same time a violation of the property the operation belongs to
                d['also'] = d['prop']
                d['prop'] = 'C10'
                d['desc'] += ' [only when preceded by a rejected addition]'
                d['what'] = 'after-rejected-add:' + d['what']
        return d
    except MachineryError as e:
        return {'machinery': str(e)}
    except Exception as e:  # harness failure inside the worker
        import traceback

        return {'machinery': f'{type(e).__name__}: {e}\n{traceback.format_exc()}'}


def _chunk(args):
    fn, jobs = args
    return [fn(j) for j in jobs]


def pmap(fn, jobs, procs=14):
    """Parallel map over forked worker processes; a worker that dies (e.g. a
    crash inside the HDF5 library) is a machinery failure, never a hang."""
    import concurrent.futures as cf
    import multiprocessing as mp

    if len(jobs) < 8:
        return [fn(j) for j in jobs]
    size = max(1, min(25, len(jobs) // (procs * 4) or 1))
    chunks = [jobs[i : i + size] for i in range(0, len(jobs), size)]
    out = []
    import gc

    # objects that exist before the fork (tens of thousands of parsed cases)
    # would be traversed by every gc.collect() the store performs in the workers
    gc.collect()
    gc.freeze()
    try:
        with cf.ProcessPoolExecutor(procs, mp_context=mp.get_context('fork')) as ex:
            for res in ex.map(_chunk, [(fn, c) for c in chunks]):
                out.extend(res)
    except cf.process.BrokenProcessPool as e:
        raise MachineryError(f'a replay worker process died ({e}); {len(out)} of {len(jobs)} jobs had completed') from e
    finally:
        gc.unfreeze()
    return out


def fresh_map(fn, jobs, procs=14, timeout=600):
    """Run fn(job) for every job, each in a freshly forked child of THIS process,
    so that whatever a job leaves behind in process-wide state (module caches,
    singletons, class attributes) cannot reach another job: histories are
    self-contained and their replay files reproduce.  Results come back pickled
    over a pipe; a child that dies is a machinery failure."""
    import os
    import pickle
    import select
    import time

    out = [None] * len(jobs)
    running = {}  # fd -> (idx, pid, chunks, started)
    nxt = 0
    gc.collect()
    while nxt < len(jobs) or running:
        while nxt < len(jobs) and len(running) < procs:
            r, w = os.pipe()
            pid = os.fork()
            if pid == 0:
                code = 0
                try:
                    os.close(r)
                    data = pickle.dumps(fn(jobs[nxt]))
                    with os.fdopen(w, 'wb') as f:
                        f.write(data)
                except BaseException:
                    code = 3
                finally:
                    os._exit(code)
            os.close(w)
            running[r] = (nxt, pid, [], time.time())
            nxt += 1
        ready, _, _ = select.select(list(running), [], [], 1.0)
        for fd in ready:
            b = os.read(fd, 1 << 16)
            idx, pid, chunks, t0 = running[fd]
            if b:
                chunks.append(b)
                continue
            os.close(fd)
            del running[fd]
            _, status = os.waitpid(pid, 0)
            if status != 0 or not chunks:
                raise MachineryError(f'a fresh-process worker died (status {status}) on job {idx}')
            out[idx] = pickle.loads(b''.join(chunks))
        for fd, (idx, pid, chunks, t0) in list(running.items()):
            if time.time() - t0 > timeout:
                os.kill(pid, 9)
                raise MachineryError(f'a fresh-process worker exceeded {timeout} s on job {idx}')
    return out


def replay_store(ctx, behaviours, pid: str, big=False, cache_mb=None):
    """Replay behaviours (in parallel worker processes); report deviations
    belonging to property pid."""
    others = dict(ctx.extra.get('deviations_belonging_to_other_properties', {}))
    results = pmap(_work, [(b, big, cache_mb, pid) for b in behaviours])
    for beh, d in zip(behaviours, results):
        ops = [s['ev']['op'] for s in beh['h']]
        ctx.case_done(beh['h'], nontrivial=('open' in ops or 'evict' in ops or 'addbad' in ops))
        ctx.sample({'start': beh['start'], 'ops': [(s['ev']['op'], s['ev']['arg'], s['ev']['ok']) for s in beh['h']]}, limit=2)
        if d is None:
            continue
        if 'machinery' in d:
            raise MachineryError('replay worker failed: ' + d['machinery'])
        if d['prop'] == pid or d.get('also') == pid:
            key = f'{d["op"]}:{d["what"]}' if d['op'] != 'addbad' else f'addbad:{d["arg"]}:{d["what"]}'
            ctx.violation(key, d['desc'], {'behaviour': beh, 'deviation': d, 'big': big, 'cache_mb': cache_mb})
        else:
            others[d['prop']] = others.get(d['prop'], 0) + 1
    if others:
        ctx.extra['deviations_belonging_to_other_properties'] = others
