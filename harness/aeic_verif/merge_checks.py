"""Merge.tla conformance: C09 (merged store = concatenation), C08 (lookup in
merged stores), C10 (refused / interrupted merges)."""

from __future__ import annotations

import gc
import json
import os
import shutil
import tempfile
import warnings
from pathlib import Path
from unittest import mock

import numpy as np

from . import tlc
from .core import Ctx, MachineryError
from .store_replay import POINT_FIELDS, _aeic, _idr, cid, ident, make_payload, pmap

_assoc_registered = False


def _register_assoc():
    global _assoc_registered
    if _assoc_registered:
        return
    _, _, FieldSet, FieldMetadata, Dimensions, Dimension = _aeic()
    FieldSet(
        'vf_assoc',
        ax=FieldMetadata(description='verif associated pointwise', units='u'),
        am=FieldMetadata(dimensions=Dimensions(Dimension.TRAJECTORY), field_type=np.int32, description='verif associated scalar', units='u'),
    )
    _assoc_registered = True


def payload_id(k: int, j: int) -> int:
    return 10 * k + j


# MergeGen.tla IdLayouts: how the identifier ranges of the inputs lie to each other - every later input below the earlier
# one ("descending"), above it ("ascending": consecutive slices of a mission database), or the first two swapped and the
# last on top ("mixed": out of order at the first seam, in order at the last).  Set per case by run_case.
_idlayout = {'v': 'descending'}


def flight_id(k: int, j: int, n: int) -> int:
    # descending inside a part: the merged id table is unsorted by position
    block = {'descending': 4 - k, 'ascending': k, 'mixed': {1: 2, 2: 1, 3: 3}.get(k, k)}[_idlayout['v']]
    return 100 * block + (n - j)


def build_item(k, j, shape, assoc):
    t = make_payload(payload_id(k, j), flight_id(k, j, shape['n']) if shape['ids'] else 0, extras=(shape['fs'] == 'B'))
    if assoc:
        _register_assoc()
        _, _, FieldSet, *_ = _aeic()
        t.add_fields(FieldSet.from_registry('vf_assoc'))
        t.ax = np.arange(len(t), dtype=float) + payload_id(k, j)
        t.am = payload_id(k, j) * 3
    return t


def check_item(traj, k, j, shape, assoc):
    it = ident(traj, False)
    want = {'p': payload_id(k, j), 'id': flight_id(k, j, shape['n']) if shape['ids'] else 0}
    if it != want:
        return f'{it} != {want}'
    if assoc:
        if not hasattr(traj, 'ax'):
            return 'associated fields missing'
        if not np.array_equal(traj.ax, np.arange(len(traj), dtype=float) + payload_id(k, j)) or int(traj.am) != payload_id(k, j) * 3:
            return 'associated field values differ'
    return None


class FsObserver:
    """Projects the file system to the abstract state of Merge.tla and turns
    state changes into events, whichever primitive caused them."""

    def __init__(self, out: Path, inputs: list[Path]):
        self.out, self.inputs = out, inputs
        self.state = self.observe()
        self.events: list[dict] = []

    def observe(self):
        out = self.out
        locs = []
        for p in self.inputs:
            if p.exists():
                locs.append('orig')
            elif (out / p.name).exists():
                locs.append('out')
            else:
                locs.append('lost')
        meta = 'absent'
        mf = out / 'metadata.json'
        if mf.exists():
            try:
                d = json.loads(mf.read_text())
                meta = 'complete' if 'stores' in d else 'partial'
            except Exception:
                meta = 'partial'
        return {'outdir': out.exists(), 'locs': locs, 'idx': (out / '_index.nc').exists(), 'meta': meta}

    def delta(self):
        new = self.observe()
        old = self.state
        if new['outdir'] and not old['outdir']:
            self.events.append({'op': 'mkdir'})
        for k, (a, b) in enumerate(zip(old['locs'], new['locs'])):
            if a == 'orig' and b == 'out':
                self.events.append({'op': 'move', 'k': k + 1})
        if new['idx'] and not old['idx']:
            self.events.append({'op': 'index'})
        if new['meta'] == 'complete' and old['meta'] != 'complete':
            self.events.append({'op': 'meta'})
        self.state = new

    def end(self, outcome):
        self.delta()
        self.events.append({'op': 'end', 'outcome': outcome, **self.state})


class Injected(OSError):
    pass


def run_merge_observed(out: Path, inputs: list[Path], merge_kwargs: dict, fault_at: int, obs: FsObserver):
    """Run TrajectoryStore.merge with the file-system primitives wrapped: after
    every primitive the file system is observed (events); the fault_at-th
    primitive touching the case's paths raises instead of running."""
    TS = _aeic()[0]
    import builtins

    import netCDF4 as nc4

    from AEIC.trajectories import store as store_mod

    counter = {'n': 0}
    root = str(out.parent)

    def touches(args):
        return any(isinstance(a, (str, os.PathLike)) and str(a).startswith(root) for a in args)

    def wrap(fn, name, writes=lambda a, kw: True):
        def w(*a, **kw):
            if touches(a) and writes(a, kw):
                obs.delta()
                counter['n'] += 1
                if counter['n'] == fault_at:
                    obs.events.append({'op': 'fault'})
                    raise Injected(f'injected fault at file-system step {fault_at} ({name})')
                r = fn(*a, **kw)
                obs.delta()
                return r
            return fn(*a, **kw)

        return w

    real_dump = json.dump

    def dump(objv, fp, *a, **kw):
        nm = getattr(fp, 'name', '')
        if str(nm).startswith(root):
            counter['n'] += 1
            if counter['n'] == fault_at:
                obs.delta()
                obs.events.append({'op': 'fault'})
                raise Injected(f'injected fault at file-system step {fault_at} (metadata write)')
        return real_dump(objv, fp, *a, **kw)

    real_ds = nc4.Dataset

    class DS(real_ds):  # creation of the merged index file
        def __init__(self, *a, **kw):
            mode = kw.get('mode', a[1] if len(a) > 1 else 'r')
            if mode == 'w' and touches(a[:1]) and str(a[0]).endswith('_index.nc'):
                obs.delta()
                counter['n'] += 1
                if counter['n'] == fault_at:
                    obs.events.append({'op': 'fault'})
                    raise Injected(f'injected fault at file-system step {fault_at} (index file)')
            super().__init__(*a, **kw)

    patches = [
        mock.patch.object(os, 'mkdir', wrap(os.mkdir, 'mkdir')),
        mock.patch.object(os, 'makedirs', wrap(os.makedirs, 'makedirs')),
        mock.patch.object(os, 'rename', wrap(os.rename, 'rename')),
        mock.patch.object(os, 'replace', wrap(os.replace, 'replace')),
        mock.patch.object(shutil, 'move', wrap(shutil.move, 'move')),
        mock.patch.object(store_mod.json, 'dump', dump),
        mock.patch.object(store_mod.nc4, 'Dataset', DS),
    ]
    for p in patches:
        p.start()
    outcome, err = 'ok', None
    try:
        TS.merge(output_store=out, **merge_kwargs)
    except Injected as e:
        outcome, err = 'aborted', f'Injected: {e}'
    except ValueError as e:
        outcome, err = 'refused', f'ValueError: {e}'
    except Exception as e:
        outcome, err = 'crashed', f'{type(e).__name__}: {e}'
    finally:
        for p in patches:
            p.stop()
    # the exception (and with it the frames holding half-open stores) is gone
    # here; finalize whatever the interrupted merge left open before the files
    # are touched again
    gc.collect()
    return outcome, err


LIST_NAMES = ['w', 'e', 'n', 'a']   # given order is deliberately not the alphabetical order of the file names


def input_name(form, k, tag=''):
    """File name of the k-th input (1-based).  Explicit lists use names whose
    alphabetical order differs from the order given; numbered patterns use an
    unpadded index starting at 9, so that 9, 10, 11 do not sort as given."""
    if form == 'list':
        return f'in{tag}_{LIST_NAMES[k - 1]}.nc'
    return f'in{tag}_{8 + k}.nc'


def make_inputs(d: Path, ins, assoc, tag='', form='list'):
    TS = _aeic()[0]
    paths, apaths = [], []
    for k, shape in enumerate(ins, start=1):
        p = d / input_name(form, k, tag)
        kw = {}
        if assoc:
            ap = d / ('as' + input_name(form, k, tag)[2:])
            kw['associated_files'] = [(ap, ['vf_assoc'])]
            apaths.append(ap)
        with TS.create(base_file=p, **kw) as ts:
            for j in range(shape['n']):
                ts.add(build_item(k, j, shape, assoc))
        paths.append(p)
    return paths, apaths


def make_resplit_assoc(d: Path, ins, asizes):
    """The same flights in the same flat order, written into parts of the sizes `asizes` (base + associated file each);
    only the associated files of this second set are used."""
    TS = _aeic()[0]
    flat = [(k, j, shape) for k, shape in enumerate(ins, start=1) for j in range(shape['n'])]
    apaths, pos = [], 0
    for part, n in enumerate(asizes, start=1):
        p = d / f'rs_base_{part}.nc'
        ap = d / f'rs_assoc_{part}.nc'
        with TS.create(base_file=p, associated_files=[(ap, ['vf_assoc'])]) as ts:
            for k, j, shape in flat[pos : pos + n]:
                ts.add(build_item(k, j, shape, True))
        pos += n
        apaths.append(ap)
    return apaths


class _AltExtras:
    """HasFieldSets value for create_associated: other values for the second field set the base parts already hold."""

    FIELD_SETS: list = []

    def __init__(self, n, pid):
        self.vx = np.arange(n, dtype=float) + 0.5 + pid
        self.vm = 77


def make_override_assoc(d: Path, paths, form):
    """MergeGen.tla ovr: for every base input (still at its own path) an associated file that holds the field set
    vf_extras AGAIN, with other values."""
    TS, _, FieldSet, *_ = _aeic()
    _AltExtras.FIELD_SETS = [FieldSet.from_registry('vf_extras')]
    alts = []
    for k, p in enumerate(paths, start=1):
        ap = d / ('ov' + input_name(form, k)[2:])
        ts = TS.open(base_file=p)
        try:
            ts.create_associated(ap, ['vf_extras'], lambda tr: _AltExtras(len(tr), ident(tr, False)['p']))
        finally:
            ts.close()
        alts.append(ap)
    return alts


def check_override(out: Path, alt_out: Path, case):
    """Open the merged base store with the merged overriding store, with and without override."""
    TS = _aeic()[0]
    devs = []
    for override in (False, True):
        try:
            ts = TS.open(base_file=out, associated_files=[alt_out], override=override)
        except Exception as e:
            devs.append(('C09', 'override:open-raised', f'opening the merged store with a merged associated store holding the same field set (override={override}) raised {type(e).__name__}: {e}'))
            continue
        try:
            for i, (k, j) in enumerate(case['expect']):
                t = ts[i]
                pid = payload_id(k, j)
                it = ident(t, False)
                if it['p'] != pid:
                    devs.append(('C09', 'override:item', f'override={override}: merged[{i}] is {it}, should be item {j} of input {k}'))
                    break
                want_vm = 77 if override else 5
                want_vx = np.arange(len(t), dtype=float) + ((0.5 + pid) if override else 0.0)
                if int(t.vm) != want_vm or not np.array_equal(np.asarray(t.vx), want_vx):
                    devs.append(('C09', f'override:{"ignored" if override else "applied-unasked"}', f'merged store opened with override={override}: item {i} shows vm = {int(t.vm)}, vx[0] = {float(t.vx[0])}; '
                                 f'specification: the values of the {"associated" if override else "base"} parts (vm = {want_vm}, vx[0] = {float(want_vx[0])})'))
                    break
        except Exception as e:
            devs.append(('C09', 'override:read-raised', f'override={override}: reading raised {type(e).__name__}: {e}'))
        finally:
            try:
                ts.close()
            except Exception:
                pass
            gc.collect()
    return devs


def readable_everywhere(out: Path, paths, ins):
    """NothingLost at data level: each input's trajectories can be read from
    its original path or from the merged directory."""
    TS = _aeic()[0]
    for k, (p, shape) in enumerate(zip(paths, ins), start=1):
        q = p if p.exists() else out / p.name
        if not q.exists():
            return f'input {k} ({p.name}) is neither at its original path nor in the merged directory'
        try:
            with TS.open(base_file=q) as ts:
                if len(ts) != shape['n']:
                    return f'input {k}: {len(ts)} trajectories readable, {shape["n"]} were stored'
                for j in range(shape['n']):
                    why = check_item(ts[j], k, j, shape, False)
                    if why:
                        return f'input {k} item {j}: {why}'
        except Exception as e:
            return f'input {k} unreadable after the failed merge: {type(e).__name__}: {e}'
    return None


def check_merged(out: Path, case, assoc_out=None):
    """C09 / C08 data-level comparison of the opened merged store with the
    specification's (part, local) map."""
    TS = _aeic()[0]
    devs = []
    ins = case['ins']
    kw = {}
    if assoc_out is not None:
        kw['associated_files'] = [assoc_out]
    try:
        ts = TS.open(base_file=out, **kw)
    except Exception as e:
        return [('C09', 'open-merged-raised', f'opening the merged store raised {type(e).__name__}: {e}')]
    try:
        if len(ts) != case['total']:
            devs.append(('C09', 'len', f'merged len() = {len(ts)}; specification: {case["total"]}'))
        for i, (k, j) in enumerate(case['expect']):
            try:
                why = check_item(ts[i], k, j, ins[k - 1], assoc_out is not None)
            except Exception as e:
                why = f'raised {type(e).__name__}: {e}'
            if why:
                devs.append(('C09', 'item', f'merged[{i}] should be item {j} of input {k}: {why}'))
                break
        try:
            ts[case['total']]
            devs.append(('C09', 'oob', f'merged[{case["total"]}] (one past the end) did not raise'))
        except IndexError:
            pass
        except Exception as e:
            devs.append(('C09', 'oob', f'merged[{case["total"]}] raised {type(e).__name__}, not IndexError'))
        if case['indexed']:
            for k, shape in enumerate(ins, start=1):
                for j in range(shape['n']):
                    fid = flight_id(k, j, shape['n'])
                    try:
                        g = ts.get_flight(cid(fid))
                        why = 'returned None' if g is None else check_item(g, k, j, shape, assoc_out is not None)
                    except Exception as e:
                        why = f'raised {type(e).__name__}: {e}'
                    if why:
                        # lookup across the parts of a merged store is a clause of C08 and of C09
                        for prop in ('C08', 'C09'):
                            devs.append((prop, 'merged-getflight', f'merged get_flight({fid}) should be item {j} of input {k}: {why}'))
            try:
                if ts.get_flight(cid(5)) is not None:
                    for prop in ('C08', 'C09'):
                        devs.append((prop, 'merged-getflight-absent', 'merged get_flight(5) returned a trajectory for an identifier never added'))
            except Exception as e:
                for prop in ('C08', 'C09'):
                    devs.append((prop, 'merged-getflight-absent', f'merged get_flight(5) raised {type(e).__name__}: {e}'))
    finally:
        try:
            ts.close()
        except Exception:
            pass
        gc.collect()
    return devs


def merge_kwargs(form, paths, d: Path, tag=''):
    if form == 'list':
        return {'input_stores': list(paths)}
    return {'input_stores_pattern': d / ('in' + tag + '_{index}.nc'), 'input_stores_index_range': (9, 8 + len(paths))}


def run_case(case):
    """Execute one MergeGen case. Returns (trace, deviations)."""
    warnings.simplefilter('ignore')
    d = Path(tempfile.mkdtemp(prefix='c09-'))
    devs = []
    # MergeGen.tla / StoreGen.tla IdRenderings: every second case renders its identifiers as 19-digit composite keys
    # (beyond 32 bits, not representable as float64) - the merged id table is keyed by the exact 64-bit value
    _k = (len(case['ins']) + case['fault'] + sum(x['n'] for x in case['ins'])) % 3
    _idlayout['v'] = ('descending', 'mixed', 'ascending')[(len(case['ins']) + 2 * case['fault'] + case['ins'][0]['n']) % 3]
    # ... every third one as signed numbers around zero (the identifiers of the first input stay positive, those of
    # the later ones are negative: the merged table has both signs)
    # (offset 201: the LAST item of the input whose block is 2 carries the flight identifier 0 itself - an identifier like
    # any other, not "unset"; round 17)
    _idr['wide'], _idr['zero'], _idr['signed'] = _k == 1, False, 201 if _k == 2 else 0
    try:
        ins = case['ins']
        paths, apaths = make_inputs(d, ins, case['assoc'], form=case['form'])
        out = d / 'merged.aeic-store'
        obs = FsObserver(out, paths)
        ov_alts = make_override_assoc(d, paths, case['form']) if case.get('ovr') else []
        trace = [{'op': 'begin', 'ins': ins}]
        outcome, exc = run_merge_observed(out, paths, merge_kwargs(case['form'], paths, d), case['fault'], obs)
        if outcome == 'crashed':
            devs.append(('C10' if not case['valid'] else 'C09', f'merge-raised-{exc.split(":")[0]}', f'merge raised {exc}'))
            outcome = 'refused' if not case['valid'] else 'aborted'
        obs.end(outcome)
        trace += obs.events
        if case['valid'] and case['fault'] == 0:
            if outcome != 'ok':
                devs.append(('C09', 'valid-merge-refused', f'a valid merge was refused: {exc}'))
            else:
                devs += check_merged(out, case)
                if case['assoc']:
                    aout = d / 'merged_assoc.aeic-store'
                    try:
                        if case.get('asplit') == 'resplit':
                            apaths = make_resplit_assoc(d, ins, case['asizes'])
                        _aeic()[0].merge(output_store=aout, input_stores=list(apaths))
                        devs += check_merged(out, case, assoc_out=aout)
                    except Exception as e:
                        devs.append(('C09', 'assoc-merge-raised', f'merging the associated stores raised {type(e).__name__}: {e}'))
                if ov_alts and not devs:
                    alt_out = d / 'merged_override.aeic-store'
                    try:
                        _aeic()[0].merge(output_store=alt_out, input_stores=list(ov_alts))
                        devs += check_override(out, alt_out, case)
                    except Exception as e:
                        devs.append(('C09', 'override:merge-raised', f'merging the overriding associated stores raised {type(e).__name__}: {e}'))
                if case.get('rebuild') and not devs:
                    # Merge.tla Rebuild: take the merged store apart, merge the same stores in reversed order into the
                    # same output path (same process), read again
                    for p in paths:
                        if not p.exists() and (out / p.name).exists():
                            os.rename(out / p.name, p)
                    shutil.rmtree(out)
                    try:
                        _aeic()[0].merge(output_store=out, input_stores=list(reversed(paths)))
                        devs += [(pr, 'rebuilt:' + key, 'after taking the merged store apart and merging the inputs in reversed order into the same path: ' + desc)
                                 for pr, key, desc in check_merged(out, dict(case, expect=case['expect2']))]
                    except Exception as e:
                        devs.append(('C09', 'rebuilt:merge-raised', f'merging again into the same (removed) output path raised {type(e).__name__}: {e}'))
        elif not case['valid']:
            if outcome == 'ok':
                mixed_ids = len({bool(x['ids']) for x in ins}) > 1
                # "a store must be either fully identified or not at all" is C08's clause as well, also for merged stores
                for prop in (('C09', 'C08') if mixed_ids else ('C09',)):
                    devs.append((prop, 'invalid-merge-accepted', 'inputs with differing field sets / mixed identification were merged' + (' (identified and unidentified inputs)' if mixed_ids else '')))
            else:
                why = readable_everywhere(out, paths, ins)
                if why:
                    devs.append(('C10', 'refused-merge-lost-data', why))
                # correct the cause: make every input conform to the first one, retry to the same output
                fixed = [{'n': s['n'], 'ids': ins[0]['ids'], 'fs': ins[0]['fs']} for s in ins]
                for p in paths:
                    q = p if p.exists() else out / p.name
                    if q.exists():
                        q.unlink()
                paths2, _ = make_inputs(d, fixed, False, form=case['form'])
                obs2 = FsObserver(out, paths2)
                obs2.state = obs.state  # continue from what the refused merge left behind
                oc2, exc2 = run_merge_observed(out, paths2, merge_kwargs(case['form'], paths2, d), 0, obs2)
                if oc2 != 'ok':
                    devs.append(('C10', 'retry-after-refusal-failed', f'after correcting the inputs the merge to the same output failed: {exc2}'))
                    oc2 = 'refused' if oc2 == 'crashed' else oc2
                obs2.end(oc2)
                trace += [{'op': 'correct'}] + obs2.events
                if oc2 == 'ok':
                    c2 = dict(case, ins=fixed, valid=True, indexed=fixed[0]['ids'], total=sum(s['n'] for s in fixed))
                    c2['expect'] = [[k, j] for k, s in enumerate(fixed, start=1) for j in range(s['n'])]
                    devs += check_merged(out, c2)
        else:  # valid case with injected fault
            if outcome == 'ok':
                pass  # fewer file-system steps than the specification assumes: nothing was interrupted
            else:
                why = readable_everywhere(out, paths, ins)
                if why:
                    devs.append(('C10', 'interrupted-merge-lost-data', why))
                if obs.state['meta'] == 'complete':
                    devs.append(('C10', 'metadata-before-complete', 'metadata.json is complete although the merge was interrupted'))
                # operator recovery: move files back, remove the partial directory (file moves only)
                for p in paths:
                    if not p.exists() and (out / p.name).exists():
                        os.rename(out / p.name, p)
                if out.exists():
                    shutil.rmtree(out)
                obs2 = FsObserver(out, paths)
                oc2, exc2 = run_merge_observed(out, paths, merge_kwargs(case['form'], paths, d), 0, obs2)
                if oc2 != 'ok':
                    devs.append(('C10', 'retry-after-fault-failed', f'after recovery the merge failed: {exc2}'))
                    oc2 = 'aborted' if oc2 == 'crashed' else oc2
                obs2.end(oc2)
                trace += [{'op': 'recover'}] + obs2.events
                if oc2 == 'ok':
                    devs += check_merged(out, case)
        return trace, devs
    except MachineryError as e:
        return None, [('machinery', 'machinery', str(e))]
    except Exception as e:
        import traceback

        return None, [('machinery', 'machinery', f'{type(e).__name__}: {e}\n{traceback.format_exc()}')]
    finally:
        gc.collect()
        shutil.rmtree(d, ignore_errors=True)


def run_args_case(case):
    """One MergeArgs.tla case: two conforming inputs, one argument rule violated (or none), then the corrected merge."""
    warnings.simplefilter('ignore')
    d = Path(tempfile.mkdtemp(prefix='c10a-'))
    TS = _aeic()[0]
    devs = []
    try:
        c, o = case['c'], case['o']
        ins = [{'n': 2, 'ids': False, 'fs': 'A'}, {'n': 1, 'ids': False, 'fs': 'A'}]
        form, kind, pos = c['form'], c['kind'], c['pos']
        paths, _ = make_inputs(d, ins, False, form=form)
        out = d / 'merged.aeic-store'
        good_kw = merge_kwargs(form, paths, d)
        kw = dict(good_kw)
        output = out
        moved = None
        if kind == 'both_forms':
            kw['input_stores'] = list(paths)
        elif kind == 'pattern_without_range':
            del kw['input_stores_index_range']
        elif kind == 'missing_input':
            moved = (paths[pos - 1], d / 'elsewhere.nc')
            os.rename(*moved)
        elif kind == 'not_netcdf_input':
            # the same store under a name that is not "*.nc"
            if form == 'list':
                moved = (paths[pos - 1], d / (paths[pos - 1].stem + '.dat'))
                os.rename(*moved)
                kw['input_stores'] = [moved[1] if p == moved[0] else p for p in paths]
            else:
                for p in paths:
                    os.rename(p, p.with_suffix('.dat'))
                kw['input_stores_pattern'] = Path(str(kw['input_stores_pattern'])[: -len('.nc')] + '.dat')
        elif kind == 'bad_output_suffix':
            output = d / 'merged.store'
        elif kind == 'output_exists':
            out.mkdir()
            (out / 'keep.txt').write_text('x')
        before = sorted(str(x.relative_to(d)) for x in d.rglob('*'))
        try:
            TS.merge(output_store=output, **kw)
            got = 'merged'
        except ValueError:
            got = 'refused'
        except Exception as e:
            got = f'raised {type(e).__name__}: {e}'
        what = f'merge with {kind} ({form} form, input {pos})'
        if got != o['verdict']:
            return [('C10', f'args:{kind}:{o["verdict"]}->{got.split(":")[0].split()[0]}', f'{what}: {got}; specification: {o["verdict"]}')]
        if got == 'refused':
            after = sorted(str(x.relative_to(d)) for x in d.rglob('*'))
            if after != before:
                devs.append(('C10', f'args:{kind}:refusal-not-clean', f'{what}: the refused merge changed the directory: {before} -> {after}'))
            # correct the cause, retry
            if moved is not None and kind in ('missing_input', 'not_netcdf_input') and form == 'list':
                os.rename(moved[1], moved[0])
            elif moved is not None:
                os.rename(moved[1], moved[0])
            if kind == 'not_netcdf_input' and form == 'pattern':
                for p in paths:
                    os.rename(p.with_suffix('.dat'), p)
            if kind == 'output_exists':
                shutil.rmtree(out)
            try:
                TS.merge(output_store=out, **good_kw)
            except Exception as e:
                return devs + [('C10', f'args:{kind}:retry-after-refusal-failed', f'{what}: after correcting the cause the merge failed: {type(e).__name__}: {e}')]
        c2 = {'ins': ins, 'total': 3, 'indexed': False, 'expect': [[1, 0], [1, 1], [2, 0]]}
        devs += [(('C10' if pr == 'C09' else pr), 'args:' + key, f'{what}, then the corrected merge: ' + desc) for pr, key, desc in check_merged(out, c2)]
        return devs
    except MachineryError as e:
        return [('machinery', 'machinery', str(e))]
    except Exception as e:
        import traceback

        return [('machinery', 'machinery', f'{type(e).__name__}: {e}\n{traceback.format_exc()}')]
    finally:
        gc.collect()
        shutil.rmtree(d, ignore_errors=True)


def run_merge(ctx: Ctx, pid: str):
    if ctx.replay:
        case = json.loads(Path(ctx.replay).read_text())['case']
        if 'merge_args' in case:
            for prop, what, desc in run_args_case(case['merge_args']):
                if prop == pid:
                    ctx.violation(f'merge:{what}', desc, case)
            return
        if 'merge_case' not in case:
            return
        cases = [case['merge_case']]
    else:
        tlc.check(ctx, 'store/Merge', 'store/MC_Merge.cfg')
        if not ctx.quick:
            tlc.check(ctx, 'store/Merge', 'store/MC_Merge.cfg', sub={'MaxSize = 2': 'MaxSize = 3'})
        gen = tlc.check(ctx, 'store/MergeGen', 'store/Gen_Merge.cfg', workers=4, sub=None if ctx.quick else {'MaxSize = 2': 'MaxSize = 3'})
        cases = gen['emitted']
        if ctx.quick:
            # all fault/refusal cases of up to 3 inputs are few; thin the valid no-fault ones by seed
            keep = [c for c in cases if c['fault'] or not c['valid'] or c['assoc']]
            rest = [c for c in cases if not (c['fault'] or not c['valid'] or c['assoc'])]
            ctx.rng.shuffle(keep)
            ctx.rng.shuffle(rest)
            cases = keep[:500] + rest[:150]
        ctx.exhaustive = not ctx.quick
    if pid == 'C10' and not ctx.replay:
        # the argument rules of merge (MergeArgs.tla): every rule x both ways of naming the inputs
        tlc.check(ctx, 'store/MergeArgs', 'store/MC_MergeArgs.cfg', workers=2)
        acases = tlc.check(ctx, 'store/MergeArgs', 'store/Gen_MergeArgs.cfg', workers=1)['emitted']
        seen = set()
        acases = [a for a in acases if not (json.dumps(a['c'], sort_keys=True) in seen or seen.add(json.dumps(a['c'], sort_keys=True)))]
        for a, devs in zip(acases, pmap(run_args_case, acases, procs=4)):
            ctx.case_done(('merge_args', a['c']), nontrivial=a['c']['kind'] != 'none')
            for prop, what, desc in devs:
                if prop == 'machinery':
                    raise MachineryError('merge worker failed: ' + desc)
                if prop == pid:
                    ctx.violation(f'merge:{what}', desc, {'merge_args': a})
    ctx.log(f'running {len(cases)} merge cases against the real store')
    results = pmap(run_case, cases)
    traces, owner = [], {}
    others = dict(ctx.extra.get('deviations_belonging_to_other_properties', {}))
    for i, (case, (trace, devs)) in enumerate(zip(cases, results)):
        ctx.case_done(case, nontrivial=bool(case['fault'] or not case['valid'] or len(case['ins']) > 1))
        ctx.sample({k: case[k] for k in ('ins', 'fault', 'form', 'assoc', 'valid')}, limit=3)
        for prop, what, desc in devs:
            if prop == 'machinery':
                raise MachineryError('merge worker failed: ' + desc)
            if prop == pid:
                ctx.violation(f'merge:{what}', desc, {'merge_case': case})
            else:
                others[prop] = others.get(prop, 0) + 1
        if trace is not None:
            name = f'merge-{i}'
            traces.append({'t': name, 'ev': trace})
            owner[name] = case
    if pid == 'C10':
        rej = tlc.validate_traces(ctx, 'store/MergeTrace', 'store/MergeTrace.cfg', traces)
        by = {t['t']: t for t in traces}
        for r in rej:
            t = by[r['t']]
            nxt = t['ev'][r['matched']] if r['matched'] < len(t['ev']) else None
            case = owner[r['t']]
            kind = 'refusal-not-clean' if not case['valid'] else ('order' if nxt and nxt['op'] != 'end' else 'end-state')
            ctx.violation(
                f'merge-trace:{kind}:{(nxt or {}).get("op")}',
                f'file-system effects of merge are not a behaviour of Merge.tla: after {r["matched"]} of {r["total"]} events the event {nxt} cannot happen '
                f'(case valid={case["valid"]}, fault at step {case["fault"]})',
                {'merge_case': case, 'trace': t},
            )
        ctx.traces_validated += len(traces)
    if others:
        ctx.extra['deviations_belonging_to_other_properties'] = others
