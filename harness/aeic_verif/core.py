"""Shared machinery: run context, evidence, known findings, verdicts.

Every check is a function ``run(ctx)`` that (1) model-checks its TLA+ module
with TLC, (2) replays TLC-generated cases/behaviours into the real AEIC code
and/or validates traces recorded from the real code against the trace spec,
and (3) reports deviations through ``ctx.violation``.  Exit codes:
0 = held on everything explored, 1 = violation (VIOLATION line printed),
2 = machinery failure (never reported as a violation).
"""

from __future__ import annotations

import fnmatch
import hashlib
import json
import os
import random
import sys
import time
import traceback
from pathlib import Path

VERIF = Path(__file__).resolve().parents[2]
REPO = Path(os.environ.get('VERIF_REPO', '/repo'))
SPECS = VERIF / 'specs'
# seeded-change evaluation runs (tools/seed_eval.py) redirect their output so that the committed evidence is not overwritten
EVIDENCE = Path(os.environ.get('VERIF_EVIDENCE_DIR', VERIF / 'evidence'))
VIOL_DIR = Path(os.environ.get('VERIF_VIOL_DIR', VERIF / 'cases' / 'violations'))
KNOWN_FILE = VERIF / 'known_findings.json'


class MachineryError(Exception):
    """Something in the verification machinery itself failed (exit 2)."""


def jdump(x) -> str:
    return json.dumps(x, sort_keys=True, default=str)


def digest(x) -> str:
    return hashlib.sha1(jdump(x).encode()).hexdigest()[:12]


def load_known() -> list[dict]:
    if not KNOWN_FILE.exists():
        return []
    data = json.loads(KNOWN_FILE.read_text())
    return data.get('findings', [])


class Ctx:
    """State of one check run."""

    def __init__(self, pid: str, tier: str, seed: int, replay: str | None = None):
        self.pid = pid
        self.tier = tier
        self.seed = seed
        self.replay = replay
        self.rng = random.Random(seed)
        self.t0 = time.time()
        self.states = 0
        self.transitions = 0
        self.tlc_runs: list[dict] = []
        self.replayed = 0
        self.traces_validated = 0
        self.evaluations = 0
        self.nontrivial: set[str] = set()
        self.samples: list = []
        self.violations: list[dict] = []
        self.known_hits: dict[str, int] = {}
        self.not_covered: list[str] = []
        self.assumptions: list[str] = []
        self.rule = ''
        self.extra: dict = {}
        self.exhaustive = False
        self._known = [
            k for k in load_known() if k.get('property') == pid and k.get('status') == 'open'
        ]

    # ---- bookkeeping -------------------------------------------------------
    @property
    def quick(self) -> bool:
        return self.tier == 'quick'

    def log(self, *a):
        print(f'[{self.pid} {time.time() - self.t0:6.1f}s]', *a, flush=True)

    def add_tlc(self, res: dict):
        """Account for a finished TLC model-checking run."""
        self.states += res.get('distinct', 0)
        self.transitions += res.get('generated', 0)
        self.tlc_runs.append(
            {
                k: res.get(k)
                for k in ('module', 'cfg', 'mode', 'generated', 'distinct', 'depth', 'wall_s', 'coverage')
                if res.get(k) is not None
            }
        )

    def sample(self, x, limit=4):
        if len(self.samples) < limit:
            self.samples.append(x)

    def case_done(self, case, nontrivial: bool = True, conformance: bool = True):
        """Count one case/behaviour replayed into (or trace validated from)
        the implementation."""
        self.evaluations += 1
        if conformance:
            self.replayed += 1
        if nontrivial:
            self.nontrivial.add(digest(case))

    # ---- verdicts ----------------------------------------------------------
    def violation(self, key: str, desc: str, case=None):
        """Report a deviation between implementation and specification.

        ``key`` identifies the failing input/call site/history shape; it is
        matched against the open entries of known_findings.json."""
        for k in self._known:
            if fnmatch.fnmatchcase(key, k['key']):
                self.known_hits[k['key']] = self.known_hits.get(k['key'], 0) + 1
                return
        nkey = sum(1 for v in self.violations if v['key'] == key)
        if nkey >= 3:  # keep at most three replay files per distinct key
            self.violations.append({'key': key, 'desc': desc, 'path': None})
            return
        VIOL_DIR.mkdir(parents=True, exist_ok=True)
        body = {'property': self.pid, 'key': key, 'description': desc, 'case': case}
        path = VIOL_DIR / f'{self.pid}-{digest(body)}.json'
        path.write_text(json.dumps(body, indent=1, default=str))
        self.violations.append({'key': key, 'desc': desc, 'path': str(path)})
        if nkey == 0:
            self.log(f'deviation [{key}]: {desc}')

    def finish(self) -> int:
        wall = time.time() - self.t0
        for k in self._known:
            if k['key'] in self.known_hits:
                print(
                    f"KNOWN-FINDING: property={self.pid} {k['key']} :: {k['description']}"
                    f" ({self.known_hits[k['key']]} case(s) this run)"
                )
        cov = {
            'states': self.states,
            'transitions': self.transitions,
            'traces_validated_against_impl': self.replayed,
            'evaluations': self.evaluations,
            'distinct_nontrivial': len(self.nontrivial),
            'rule': self.rule,
            'samples': self.samples or ['(no sample recorded)'],
            'exhaustive': self.exhaustive,
            'tlc_runs': self.tlc_runs,
            'not_covered': self.not_covered,
            'known_findings_hit': self.known_hits,
        }
        cov.update(self.extra)
        ev = {
            'property_id': self.pid,
            'tier': self.tier,
            'seed': self.seed,
            'level': 'model_checking',
            'coverage': cov,
            'assumptions': self.assumptions,
            'wall_s': round(wall, 2),
            'violations': len(self.violations),
        }
        EVIDENCE.mkdir(exist_ok=True)
        (EVIDENCE / f'{self.pid}.json').write_text(json.dumps(ev, indent=1, default=str) + '\n')
        seen = set()
        for v in self.violations:
            if v['path'] and v['key'] not in seen:
                seen.add(v['key'])
                print(f"VIOLATION property={self.pid} replay={v['path']}  # {v['key']}: {v['desc']}")
        self.log(
            f'done: tlc states={self.states} transitions={self.transitions} '
            f'replayed={self.replayed} violations={len(self.violations)} '
            f'known={sum(self.known_hits.values())} wall={wall:.1f}s'
        )
        return 1 if self.violations else 0


def run_check(pid: str, tier: str, seed: int, fn, replay: str | None = None) -> int:
    ctx = Ctx(pid, tier, seed, replay)
    try:
        fn(ctx)
        return ctx.finish()
    except MachineryError as e:
        print(f'MACHINERY-ERROR property={pid}: {e}', file=sys.stderr)
        return 2
    except Exception as e:  # harness bug: never a violation
        print(f'MACHINERY-ERROR property={pid}: unexpected {type(e).__name__}: {e}', file=sys.stderr)
        traceback.print_exc()
        return 2


def errclass(e: BaseException | None) -> str | None:
    return None if e is None else type(e).__name__
