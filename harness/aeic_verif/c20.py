"""C20 — trajectory stores confined to one thread under every interleaving.

spec:    specs/guard/StoreGuard.tla (atomic TryCreate, OneOwner),
         GuardImpl.tla (the guard as executed line by line; refines
         StoreGuard iff check-and-set is atomic), GuardSched.tla (all
         interleavings of N+N line events), GuardTrace.tla (linearizability of
         recorded call/return events w.r.t. StoreGuard).
binding: a deterministic line-level scheduler (sys.settrace hand-off) runs two
         real threads constructing their first in-memory store under every
         TLC-generated schedule; the recorded call/return events must be
         accepted by GuardTrace.tla.  Sequential orders (second thread later,
         after close, second store in the owner thread) are validated too.
"""

from __future__ import annotations

import json
import sys
import threading
import time
from pathlib import Path

from . import tlc
from .core import Ctx, MachineryError

GRANT_TIMEOUT = 0.05


_initial = {}


def _store_cls():
    from AEIC.trajectories.store import TrajectoryStore

    if not _initial:
        # the data attributes of the class as they are when the module has just been imported: "a fresh process"
        for k, v in vars(TrajectoryStore).items():
            if not k.startswith('__') and not callable(v) and not isinstance(v, (staticmethod, classmethod, property)):
                _initial[k] = v
        _initial['__snap__'] = True
    return TrajectoryStore


def _reset_guard():
    """Put the class back into the state of a process that has not created a store yet: the owner record and
    whatever else the guard keeps on the class (e.g. a lock object created on first use)."""
    TS = _store_cls()
    for k, v in _initial.items():
        if k != '__snap__' and vars(TS).get(k, v) is not v:
            setattr(TS, k, v)
    if hasattr(TS, 'active_in_thread'):
        TS.active_in_thread = None
    # an owner record that ended up on a subclass (shadowing the class attribute) is removed too
    sub = getattr(globals().get('_constructor'), 'sub', None)
    if sub is not None and 'active_in_thread' in vars(sub):
        delattr(sub, 'active_in_thread')


def in_guard_code(frame, code) -> bool:
    """Is this frame the constructor, or a function of the same source file called (directly or indirectly) from
    it - a helper the guard was factored into?"""
    if frame.f_code is code:
        return True
    if frame.f_code.co_filename != code.co_filename:
        return False
    f, depth = frame.f_back, 0
    while f is not None and depth < 8:
        if f.f_code is code:
            return True
        f, depth = f.f_back, depth + 1
    return False


class LineScheduler:
    """Runs thread bodies so that, inside the guarded code object, each line
    event of thread t happens only when the schedule grants t a turn."""

    def __init__(self, code, region_len: int):
        self.code = code
        self.region = region_len
        self.cv = threading.Condition()
        self.turn = None
        self.at_gate = {}
        self.count = {}
        self.finished = {}
        self.free = False
        self.events = []
        self.grant_timeout = GRANT_TIMEOUT

    def _local(self, tid):
        def tracer(frame, event, arg):
            if event == 'line':
                self._gate(tid)
            return tracer

        return tracer

    def _global(self, tid):
        local = self._local(tid)

        def tracer(frame, event, arg):
            if event == 'call' and in_guard_code(frame, self.code) and self.count[tid] < self.region:
                return local
            return None

        return tracer

    def _gate(self, tid):
        with self.cv:
            if self.free or self.count[tid] >= self.region:
                return
            self.at_gate[tid] = True
            self.cv.notify_all()
            while self.turn != tid and not self.free:
                self.cv.wait(1.0)
            if self.free:
                return
            self.turn = None
            self.at_gate[tid] = False
            self.count[tid] += 1
            self.cv.notify_all()

    def _record(self, ev):
        with self.cv:
            self.events.append(ev)

    def run(self, schedule, body):
        """body(tid) -> bool (constructor succeeded)."""
        tids = sorted(set(schedule))
        results = {}
        self.at_gate = {t: False for t in tids}
        self.count = {t: 0 for t in tids}
        self.finished = {t: False for t in tids}

        def runner(tid):
            sys.settrace(self._global(tid))
            try:
                self._record({'op': 'call', 't': tid, 'kind': 'c', 'ok': '-'})
                ok = body(tid)
                results[tid] = ok
                self._record({'op': 'ret', 't': tid, 'kind': 'c', 'ok': 'yes' if ok else 'no'})
            finally:
                sys.settrace(None)
                with self.cv:
                    self.finished[tid] = True
                    self.cv.notify_all()

        # StoreGuard.tla ThreadNaming: threads are told apart by identity, their names carry no meaning - every second
        # schedule runs with all threads sharing one name
        shared = (sum(schedule) + len(schedule)) % 2 == 1
        threads = {t: threading.Thread(target=runner, args=(t,), daemon=True, **({'name': 'worker'} if shared else {})) for t in tids}
        for t in tids:
            threads[t].start()
        # wait for every thread to arrive at its first gate (or finish)
        with self.cv:
            end = time.time() + 5
            while not all(self.at_gate[t] or self.finished[t] for t in tids) and time.time() < end:
                self.cv.wait(0.05)
        blocked = 0
        applied = []
        for s in schedule:
            with self.cv:
                if self.finished[s] or self.count[s] >= self.region:
                    continue
                if not self.at_gate[s]:
                    # still blocked from an earlier grant (e.g. waiting for a lock)
                    continue
                self.turn = s
                before = self.count[s]
                self.cv.notify_all()
                end = time.time() + self.grant_timeout
                # wait until the step was taken and the thread is at its next gate / done
                while time.time() < end:
                    if self.count[s] > before and (self.at_gate[s] or self.finished[s] or self.count[s] >= self.region):
                        break
                    self.cv.wait(0.005)
                else:
                    blocked += 1
                if self.turn == s:
                    self.turn = None
                applied.append(s)
        with self.cv:
            self.free = True
            self.cv.notify_all()
        for t in tids:
            threads[t].join(10)
            if threads[t].is_alive():
                raise MachineryError('scheduled thread did not terminate')
        return results, list(self.events), applied, blocked


def _sched_job(job):
    """One schedule on two real threads (in a worker process: the owner record is per process)."""
    sch, n, *rest = job
    try:
        _reset_guard()
        ls = LineScheduler(_store_cls().__init__.__code__, n)
        if rest:
            ls.grant_timeout = rest[0]
        return ls.run(sch, body)
    except Exception as e:
        import traceback

        return f'{type(e).__name__}: {e}\n{traceback.format_exc()}'
    finally:
        _reset_guard()


def discover_region() -> int:
    """Number of line events of TrajectoryStore.__init__ up to (and one past)
    the point where the guard has recorded the calling thread, measured on a
    solo run from a fresh state."""
    TS = _store_cls()
    code = TS.__init__.__code__
    _reset_guard()
    seen = {'n': 0, 'set_at': None}
    ident = threading.get_ident()

    def local(frame, event, arg):
        if event == 'line':
            seen['n'] += 1
            if seen['set_at'] is None and getattr(TS, 'active_in_thread', None) == ident:
                seen['set_at'] = seen['n']
        return local

    def glob(frame, event, arg):
        if event == 'call' and in_guard_code(frame, code):
            return local
        return None

    sys.settrace(glob)
    try:
        s = TS.create()
    finally:
        sys.settrace(None)
    s.close()
    _reset_guard()
    if seen['set_at'] is None:
        return min(8, seen['n'])
    # the event at which the attribute was first *observed* set is one past the
    # assignment; include it
    return min(seen['set_at'], seen['n'])


def body(tid):
    TS = _store_cls()
    try:
        # StoreGuard.tla EntryPoints: the factory methods and the public constructor are the same TryCreate; in the
        # races thread 1 comes through the factory, thread 2 through the constructor
        s = TS.create() if tid == 1 else TS(mode=TS.FileMode.CREATE)
    except RuntimeError:
        return False
    # do not close inside the race; closing is exercised by the sequential traces
    return True


HAND_SCRIPTS = {
    'seq-1-then-2': [(1, 'c'), (2, 'c')],
    'seq-2-then-1': [(2, 'c'), (1, 'c')],
    'seq-1-close-2': [(1, 'c'), (1, 'x'), (2, 'c')],
    'seq-1-1-2-1': [(1, 'c'), (1, 'c'), (2, 'c'), (1, 'c')],
    'seq-1-close-2-1': [(1, 'c'), (1, 'x'), (2, 'c'), (1, 'c')],
}


def _constructor(op, tmp):
    """The real constructor call of a script operation (GuardGen.tla Ops)."""
    TS = _store_cls()
    if op == 'c':
        return TS.create()
    if op == 'cd':  # the public constructor called directly (what the factory methods do for the caller)
        return TS(mode=TS.FileMode.CREATE)
    if op == 'cs':  # through a subclass: the owner record belongs to the process, not to the class used
        if not hasattr(_constructor, 'sub'):
            _constructor.sub = type('VerifSubclassStore', (TS,), {})
        return _constructor.sub.create()
    if op == 'cf':  # file-backed: nothing is written before the first add, so HDF5 is not entered
        import uuid

        return TS.create(base_file=tmp / f'{uuid.uuid4().hex}.nc')
    if op == 'mg':  # GuardGen.tla "mg": merge two (copies of) prepared identified stores; merge opens them itself
        import os
        import shutil
        import uuid

        tpl = tmp / f'mgt-{os.getpid()}'
        u = uuid.uuid4().hex
        ins = []
        for k in (1, 2):
            shutil.copy(tpl / f'in{k}.nc', tmp / f'{u}-in{k}.nc')
            ins.append(tmp / f'{u}-in{k}.nc')
        TS.merge(output_store=tmp / f'{u}.aeic-store', input_stores=ins)

        class _Merged:
            def close(self):
                pass

        return _Merged()
    if op == 'fa':
        return TS.open()  # READ mode without a base file: refused by the argument check
    if op == 'fo':
        return TS.open(base_file=tmp / 'not-netcdf.nc')
    if op == 'fm':
        return TS.open(base_file=tmp / 'missing.nc')
    raise MachineryError(f'unknown script operation {op}')


def _ident_pool_job(job):
    """StoreGuard.tla ThreadIdentities: a pool of parked live threads with large stacks - their identifiers (addresses on
    Linux) are far apart, some of them by a multiple of 4 GiB.  The first one creates (and closes) two stores; after
    that EVERY other live thread of the pool must be refused.  Runs in a fresh process."""
    import queue
    import threading

    MiB = 1024 * 1024
    try:
        TS = _store_cls()
        _reset_guard()
        workers = []

        class W:
            def __init__(self):
                self.ident = None
                self.ready = threading.Event()
                self.jobs, self.results = queue.Queue(), queue.Queue()
                self.thread = threading.Thread(target=self._run, daemon=True, name='pool')
                self.thread.start()
                self.ready.wait(10)

            def _run(self):
                self.ident = threading.get_ident()
                self.ready.set()
                while True:
                    j = self.jobs.get()
                    if j is None:
                        return
                    try:
                        j()
                        self.results.put('created')
                    except RuntimeError as e:
                        self.results.put('refused' if 'thread' in str(e).lower() else f'RuntimeError: {e}')
                    except Exception as e:
                        self.results.put(f'{type(e).__name__}: {e}')

            def call(self, j):
                self.jobs.put(j)
                return self.results.get(timeout=30)

        pair = None
        for stack, count in ((896 * MiB, 12), (256 * MiB, 24)):
            try:
                threading.stack_size(stack)
            except ValueError:
                continue
            seen = {}
            for _ in range(count):
                try:
                    w = W()
                except RuntimeError:
                    break
                if w.ident is None:
                    break
                workers.append(w)
                other = seen.setdefault(w.ident % 2**32, w)
                if other is not w and pair is None:
                    pair = (other, w)
            if pair:
                break
        threading.stack_size(0)
        if len(workers) < 2:
            return {'skipped': 'could not start two pool threads'}

        def make():
            TS.create().close()

        first = pair[0] if pair else workers[0]
        out = {'pool': len(workers), 'pair_4GiB_apart': [hex(x.ident) for x in pair] if pair else None, 'first': hex(first.ident), 'results': []}
        r1, r1b = first.call(make), first.call(make)
        out['owner'] = [r1, r1b]
        order = ([pair[1]] if pair else []) + [w for w in workers if w is not first and not (pair and w is pair[1])]
        for w in order:
            out['results'].append((hex(w.ident), w.call(make)))
        for w in workers:
            w.jobs.put(None)
        return out
    except Exception as e:
        import traceback

        return f'{type(e).__name__}: {e}\n{traceback.format_exc()}'


def _script_job(job):
    script, tmp = job
    try:
        return run_script(script, Path(tmp))
    except Exception as e:
        import traceback

        return f'{type(e).__name__}: {e}\n{traceback.format_exc()}'


def run_script(script, tmp) -> list[dict]:
    """Run a sequential script over two real threads; -> call/ret/close events."""
    import os
    import queue

    if any(cmd == 'mg' for _, cmd in script):
        # the input stores of the merges: written once per process (by this thread, before the owner record is reset)
        tpl = tmp / f'mgt-{os.getpid()}'
        if not (tpl / 'in2.nc').exists():
            from .store_replay import make_payload

            tpl.mkdir(exist_ok=True)
            for k in (1, 2):
                ts = _store_cls().create(base_file=tpl / f'in{k}.nc')
                ts.add(make_payload(k, 10 * k + 1))
                ts.add(make_payload(k + 2, 10 * k + 2))
                ts.close()
    _reset_guard()
    ev: list = []
    qs = {t: queue.Queue() for t in (1, 2)}
    done: queue.Queue = queue.Queue()

    def worker(t):
        stores = []
        while True:
            cmd = qs[t].get()
            if cmd == 'q':
                for s in stores:
                    s.close()
                return
            if cmd == 'x':
                if stores:
                    stores.pop().close()
                    done.put('closed')
                else:
                    done.put('nothing')  # the thread holds no store: not an event
                continue
            try:
                stores.append(_constructor(cmd, tmp))
                done.put('yes')
            except MachineryError as e:
                done.put(f'machinery: {e}')
            except RuntimeError as e:
                done.put('no' if 'different threads' in str(e) else 'failed')
            except Exception:
                done.put('failed')

    shared = len(script) % 2 == 1   # StoreGuard.tla ThreadNaming: every second script runs with both threads sharing one name
    ths = {t: threading.Thread(target=worker, args=(t,), **({'name': 'worker'} if shared else {})) for t in (1, 2)}
    for th in ths.values():
        th.start()
    try:
        for t, cmd in script:
            if cmd == 'x':
                qs[t].put('x')
                if done.get() == 'closed':
                    ev.append({'op': 'close', 't': t, 'kind': '-', 'ok': '-'})
            else:
                ev.append({'op': 'call', 't': t, 'kind': cmd, 'ok': '-'})
                qs[t].put(cmd)
                r = done.get()
                if r.startswith('machinery'):
                    raise MachineryError(r)
                ev.append({'op': 'ret', 't': t, 'kind': cmd, 'ok': r})
    finally:
        for t in (1, 2):
            qs[t].put('q')
        for th in ths.values():
            th.join()
        _reset_guard()
    return ev


def run(ctx: Ctx):
    ctx.rule = (
        'schedules = all interleavings (TLC-enumerated) of the first N (5 quick / 8 thorough) guard-region line events of two threads each, and every schedule with at most two preemptions over the whole region (helper functions of the same file included), '
        'constructing a first store, N discovered by a solo dry run; plus sequential scripts over {create in memory, create file-backed, create through a subclass, close, 3 kinds of failing constructor} x 2 threads: '
        'every StoreGuard behaviour of length 3 (4 thorough), random walks of length 7, 5 hand-written orders; '
        'non-trivial = schedule in which both threads are inside the guard region at the same time'
    )
    ctx.assumptions += [
        'line events (sys.settrace) are the grain of atomicity explored; bytecode-level preemption inside one source line is not',
        'in-memory stores are used so that HDF5 is never entered concurrently',
    ]
    tlc.check(ctx, 'guard/StoreGuard', 'guard/StoreGuard.cfg')
    tlc.check(ctx, 'guard/GuardImpl', 'guard/GuardImpl_atomic.cfg')
    neg = tlc.run('guard/GuardImpl', 'guard/GuardImpl_racy.cfg')
    if 'Invariant ImplOneOwner is violated' not in neg['out']:
        raise MachineryError('negative control failed: the non-atomic guard model should violate ImplOneOwner')
    ctx.extra['negative_control'] = 'GuardImpl with Atomic=FALSE violates ImplOneOwner (test(1) test(2) set(1) set(2)) as expected'

    if ctx.replay:
        case = json.loads(Path(ctx.replay).read_text())['case']
        schedules = [case['schedule']] if 'schedule' in case and 'script_ops' not in case else []
        n = case.get('region', discover_region())
    else:
        n = discover_region()
        ctx.extra['guard_region_line_events'] = n
        nn = min(n, 5 if ctx.quick else 8)
        gen = tlc.check(ctx, 'guard/GuardSched', 'guard/GuardSched.cfg', sub={'N = 3': f'N = {nn}'}, workers=4)
        schedules = gen['emitted']
        # the whole region (however long helper functions make it) under every schedule with at most two preemptions
        pre = tlc.check(ctx, 'guard/GuardSched', 'guard/GuardSchedPre.cfg', sub={'N = 3': f'N = {n + 2}'}, workers=1)['emitted']
        seen_s = {tuple(x) for x in schedules}
        schedules += [x for x in pre if tuple(x) not in seen_s]
        ctx.exhaustive = nn == n
    TS = _store_cls()
    code = TS.__init__.__code__
    traces = []
    sched_of = {}
    from .store_replay import pmap as _pmap

    # StoreGuard.tla SlowThreads: a thread may stay between two of its steps for ANY length of time.  A few schedules
    # - thread 1 takes j steps into the region, then thread 2 is given all its turns - are run once more with a thread
    # that does not progress being waited for 1.4 s instead of 50 ms (what holds under the guard's lock must hold
    # however long the holder stays there)
    replay_gt = json.loads(Path(ctx.replay).read_text())['case'].get('grant_timeout') if ctx.replay else None
    slow = [] if ctx.replay else [[a] * j + [b] * n + [a] * (n - j) for a, b in ((1, 2), (2, 1)) for j in range(1, n)][: (6 if ctx.quick else 40)]
    jobs_s = [((sch, n, replay_gt) if replay_gt else (sch, n)) for sch in schedules] + [(sch, n, 1.4) for sch in slow]
    n_fast = len(schedules)
    schedules = schedules + slow
    outs = _pmap(_sched_job, jobs_s)
    for i, (sch, out) in enumerate(zip(schedules, outs)):
        if isinstance(out, str):
            raise MachineryError('line scheduler worker failed: ' + out)
        results, events, applied, blocked = out
        name = f'sched-{i}'
        traces.append({'t': name, 'ev': events})
        sched_of[name] = {'schedule': sch, 'applied': applied, 'results': results, 'blocked_grants': blocked, 'region': n, **({'grant_timeout': 1.4} if (not ctx.replay and i >= n_fast) else ({'grant_timeout': replay_gt} if replay_gt else {}))}
        both_inside = any(sch[j] != sch[j + 1] for j in range(len(sch) - 1))
        ctx.case_done({'schedule': sch}, nontrivial=both_inside)
        ctx.sample({'schedule': sch, 'results': {str(k): v for k, v in results.items()}}, limit=3)
    _reset_guard()
    # StoreGuard.tla ThreadIdentities: live threads whose identifiers are far apart (fresh process)
    if not ctx.replay or 'ident_pool' in json.loads(Path(ctx.replay).read_text())['case']:
        from .store_replay import fresh_map

        res = fresh_map(_ident_pool_job, [0])[0]
        if isinstance(res, str):
            raise MachineryError('identity pool worker failed: ' + res)
        ctx.extra['thread_identity_pool'] = {k: v for k, v in res.items() if k != 'results'}
        if 'skipped' not in res:
            ctx.case_done({'ident_pool': res['pool']}, nontrivial=bool(res['pair_4GiB_apart']))
            if res['owner'] != ['created', 'created']:
                ctx.violation('ident-pool:owner-refused', f'the first thread of the pool ({res["first"]}) creating two stores one after the other got {res["owner"]}', {'ident_pool': res})
            bad = [(i, r) for i, r in res['results'] if r != 'refused']
            if bad:
                ctx.violation('ident-pool:second-thread-not-refused', f'after thread {res["first"]} had created its stores, other LIVE threads were answered {bad[:4]} (identifiers 4 GiB apart in the pool: {res["pair_4GiB_apart"]}); specification: refused', {'ident_pool': res})
        if ctx.replay:
            return
    # sequential scripts: the hand-written orders, every behaviour of
    # GuardGen.tla of length D, and random walks of greater length
    import shutil
    import tempfile

    if ctx.replay:
        case = json.loads(Path(ctx.replay).read_text())['case']
        scripts = {case['name']: case['script_ops']} if 'script_ops' in case else {}
        expected = {case['name']: case.get('expected')} if 'script_ops' in case else {}
    else:
        scripts = {k: [list(x) for x in v] for k, v in HAND_SCRIPTS.items()}
        expected = {}
        d = 3 if ctx.quick else 4
        gen = tlc.check(ctx, 'guard/GuardGen', 'guard/GuardGen.cfg', sub={'D = 3': f'D = {d}'}, workers=4)
        walks = tlc.check(
            ctx, 'guard/GuardGen', 'guard/GuardGen.cfg', workers=1, simulate=f'num={200 if ctx.quick else 3000}', depth=12, seed=ctx.seed,
            sub={'D = 3': 'D = 7', 'Rand = FALSE': 'Rand = TRUE'},
        )  # fmt: skip
        seen_ops = set()
        for h in gen['emitted'] + walks['emitted']:
            ops = tuple((e['t'], e['op']) for e in h)
            if ops in seen_ops:  # the same script with another resolution of the specification's nondeterminism
                continue
            seen_ops.add(ops)
            name = f'script-{len(seen_ops)}'
            scripts[name] = [[e['t'], e['op']] for e in h]
            expected[name] = [e['ok'] for e in h]
    tmp = Path(tempfile.mkdtemp(prefix='c20-'))
    try:
        (tmp / 'not-netcdf.nc').write_bytes(b'this is not a NetCDF file\n' * 8)
        from .store_replay import pmap

        # scripts are independent (the owner record is reset before each): run them in worker processes
        names = list(scripts)
        evs = pmap(_script_job, [(scripts[n], str(tmp)) for n in names])
        for name, ev in zip(names, evs):
            script = scripts[name]
            if isinstance(ev, str):
                raise MachineryError('guard script worker failed: ' + ev)
            sched_of[name] = {'name': name, 'script_ops': script, 'expected': expected.get(name)}
            traces.append({'t': name, 'ev': ev})
            kinds = {op for _, op in script}
            ctx.case_done({'script': script}, nontrivial=len({t for t, _ in script}) > 1 and bool(kinds & {'fa', 'fo', 'fm', 'x'}))
            if len(script) > 3:
                ctx.sample({'script': script, 'results': [e['ok'] for e in ev if e['op'] != 'call']}, limit=2)
    finally:
        shutil.rmtree(tmp, ignore_errors=True)
    rej = tlc.validate_traces(ctx, 'guard/GuardTrace', 'guard/GuardTrace.cfg', traces)
    by = {t['t']: t for t in traces}
    for r in rej:
        info = sched_of[r['t']]
        tr = by[r['t']]
        oks = [e['t'] for e in tr['ev'] if e['op'] == 'ret' and e.get('ok') == 'yes']
        kind = 'race' if r['t'].startswith('sched-') else ('script' if r['t'].startswith('script-') else r['t'])
        ctx.violation(
            f'{kind}:not-linearizable',
            f'{r["t"]}: constructor results {[(e["t"], e["ok"]) for e in tr["ev"] if e["op"] == "ret"]} are not explained by an atomic '
            f'TryCreate (threads that succeeded: {sorted(set(oks))}); schedule {info.get("schedule")}',
            {**info, 'trace': tr},
        )
