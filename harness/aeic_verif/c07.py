"""C07 — store indices follow insertion order across sessions and cache evictions.

spec:    specs/store/Store.tla (DiskIsAdded, CacheCoherent, NextIsCount,
         IndexIsInsertionOrder, AppendOnly ...), MC_Store, StoreGen.
binding: TLC-generated histories (all of depth D from three start states;
         seeded random walks of depth 18, also with capacity-2 cache) replayed
         on real NetCDF files; every reply and len() after every call compared
         with the specification, then close / reopen / full read-back.
"""

from .store_checks import run_store

RULE = (
    'behaviours = every history of depth D (3 quick / 4 thorough) over the Store.tla call alphabet from 3 start states '
    '(no file, unidentified 2-item file, identified 2-item file) + seeded TLC random walks of depth 18 (also against a '
    'real 1 MB cache holding 2 trajectories); non-trivial = contains a reopen, an eviction or a rejected addition'
)


def run(ctx):
    ctx.rule = RULE
    ctx.assumptions += [
        'payloads are distinguishable trajectories (every field derived from the payload id); equality is field-by-field, not Container.__eq__',
        'explicit evictions are realised by removing the entry from the store cache object; replacement policy is not part of the contract',
        'flight-id lookup on in-memory stores is not modelled',
    ]
    run_store(ctx, 'C07')
