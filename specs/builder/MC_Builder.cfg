SPECIFICATION BSpec
CONSTANTS
  Kinds = {"ok1", "ok2", "ok_other_model", "ok_given_mass", "unknown_origin", "unknown_dest", "dest_above_cruise", "overweight", "no_weather_file", "outside_weather"}
  Opts = {"plain", "iter", "iter_tight", "weather"}
  MaxFlights = 4
INVARIANT NoContextBetweenFlights
INVARIANT ContextOnlyWhileFlying
INVARIANT HistoryIndependent
INVARIANT ErrorIsOriginal
CHECK_DEADLOCK FALSE
