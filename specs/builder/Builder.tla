------------------------------- MODULE Builder -------------------------------
(***************************************************************************)
(* Trajectory builder (src/AEIC/trajectories/builders/base.py, Builder.fly)  *)
(* as a history machine over sequences of flights on ONE builder instance.   *)
(* A flight runs in stages: the per-flight context is constructed (airport   *)
(* lookup, altitude schedule, weather set-up), the trajectory is flown       *)
(* (performance table look-ups, optional mass iteration), and the context is *)
(* removed again on every exit path.  The outcome of a flight is a function  *)
(* of the mission kind and the builder options only.  The performance model  *)
(* is an argument of each flight, not of the builder: kind "ok_other_model"   *)
(* is a flyable mission flown with a second performance model, kind           *)
(* "ok_given_mass" one flown with an explicitly given (valid) starting mass:  *)
(* optional arguments of a flight are per-flight as well.                     *)
(***************************************************************************)
EXTENDS Naturals, Sequences, TLC

CONSTANTS Kinds, Opts, MaxFlights

\* stage at which a mission of kind k fails under options o ("none" = flies)
\* a flyable mission: fails only for the option set whose tolerance cannot be met
OkStage(o) == IF o = "iter_tight" THEN "fly" ELSE "none"
OkReason(o) == IF o = "iter_tight" THEN "non_convergence" ELSE "none"
FailStage(k, o) ==
  CASE k \in {"unknown_origin", "unknown_dest", "dest_above_cruise"} -> "construct"
    [] k = "no_weather_file" -> IF o = "weather" THEN "construct" ELSE OkStage(o)
    [] k = "outside_weather" -> IF o = "weather" THEN "fly" ELSE OkStage(o)
    [] k = "overweight" -> "fly"
    [] OTHER -> OkStage(o)
Reason(k, o) ==
  CASE k \in {"unknown_origin", "unknown_dest"} -> "unknown_airport"
    [] k = "dest_above_cruise" -> "airport_above_cruise"
    [] k = "no_weather_file" /\ o = "weather" -> "missing_weather"
    [] k = "outside_weather" /\ o = "weather" -> "outside_weather_domain"
    [] k = "overweight" -> "out_of_envelope"
    [] OTHER -> OkReason(o)
Outcome(k, o) == IF FailStage(k, o) = "none" THEN "traj" ELSE Reason(k, o)

VARIABLES opt,     \* options of this builder instance
          ctx,     \* is the transient context attached to the builder
          phase,   \* "idle" | "construct" | "fly" | "cleanup"
          cur,     \* mission kind being flown
          out,     \* outcome of the current flight
          log      \* ghost: finished flights <<kind, outcome>>
bvars == <<opt, ctx, phase, cur, out, log>>

BInit == /\ opt \in Opts /\ ctx = FALSE /\ phase = "idle" /\ cur = "-" /\ out = "-" /\ log = <<>>

Begin(k) == /\ phase = "idle" /\ Len(log) < MaxFlights
            /\ phase' = "construct" /\ cur' = k /\ out' = "-"
            /\ UNCHANGED <<opt, ctx, log>>
Construct == /\ phase = "construct"
             /\ IF FailStage(cur, opt) = "construct"
                THEN ctx' = FALSE /\ out' = Reason(cur, opt) /\ phase' = "cleanup"
                ELSE ctx' = TRUE /\ out' = out /\ phase' = "fly"
             /\ UNCHANGED <<opt, cur, log>>
Fly == /\ phase = "fly"
       /\ out' = Outcome(cur, opt) /\ phase' = "cleanup"
       /\ UNCHANGED <<opt, ctx, cur, log>>
\* the finally-clause: removes the context if there is one; must not replace
\* the outcome (in particular not when the context was never created)
Cleanup == /\ phase = "cleanup"
           /\ ctx' = FALSE /\ phase' = "idle"
           /\ log' = Append(log, <<cur, out>>)
           /\ UNCHANGED <<opt, cur, out>>
BNext == (\E k \in Kinds : Begin(k)) \/ Construct \/ Fly \/ Cleanup
BSpec == BInit /\ [][BNext]_bvars

NoContextBetweenFlights == phase = "idle" => ~ctx
ContextOnlyWhileFlying == ctx => phase \in {"fly", "cleanup"}
HistoryIndependent == \A i \in DOMAIN log : log[i][2] = Outcome(log[i][1], opt)
ErrorIsOriginal == \A i \in DOMAIN log :
    log[i][2] \in {"traj", "unknown_airport", "airport_above_cruise", "missing_weather",
                   "outside_weather_domain", "out_of_envelope", "non_convergence"}
=============================================================================
