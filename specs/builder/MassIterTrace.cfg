SPECIFICATION TSpec
CONSTANTS
  MaxItersBound = 1000
CONSTRAINT Furthest
INVARIANT ReturnedImpliesSmall
INVARIANT BoundedFlights
POSTCONDITION Post
CHECK_DEADLOCK FALSE
