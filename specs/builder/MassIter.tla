------------------------------ MODULE MassIter ------------------------------
(* The mass-iteration loop of Builder._iterate_mass: fly, test the relative  *)
(* leftover trip fuel against the tolerance, correct the starting mass and    *)
(* fly again, at most MaxIters flights; return only a converged trajectory.   *)
EXTENDS Naturals, Sequences, TLC
CONSTANT MaxItersBound
VARIABLES maxit, it, res, conv, outcome
ivars == <<maxit, it, res, conv, outcome>>
IInit == /\ maxit \in 1..MaxItersBound /\ it = 0 /\ res = "-" /\ conv = FALSE /\ outcome = "running"
\* one flight; its residual (leftover trip fuel relative to the trip fuel) is within the tolerance ("small") or
\* outside it on either side: "over" = fuel left over (the guess was an over-estimate, the usual case), "under" =
\* more fuel burned than loaded (an under-estimate: negative residual, e.g. a fuel of low heating value).
\* The test is on the magnitude: both signs are equally far from converged.
Residuals == {"small", "over", "under"}
Large(r) == r \in {"over", "under"}
FlyIter(r) == /\ outcome = "running" /\ ~conv
              /\ (it = 0 \/ (Large(res) /\ it < maxit))
              /\ it' = it + 1 /\ res' = r
              /\ UNCHANGED <<maxit, conv, outcome>>
\* the convergence test on the latest flight (only inside the loop, i.e. while
\* another flight would still be allowed)
Test == /\ outcome = "running" /\ ~conv /\ it >= 1 /\ it < maxit /\ res = "small"
        /\ conv' = TRUE /\ UNCHANGED <<maxit, it, res, outcome>>
Finish == /\ outcome = "running"
          /\ (conv \/ it >= maxit \/ (it >= 1 /\ Large(res) /\ it >= maxit))
          /\ outcome' = IF conv THEN "returned" ELSE "nonconv"
          /\ UNCHANGED <<maxit, it, res, conv>>
INext == (\E r \in Residuals : FlyIter(r)) \/ Test \/ Finish
ISpec == IInit /\ [][INext]_ivars
ReturnedImpliesSmall == outcome = "returned" => res = "small"
BoundedFlights == it <= maxit
Decided == outcome \in {"running", "returned", "nonconv"}
=============================================================================
