------------------------------ MODULE MassIter ------------------------------
(* The mass-iteration loop of Builder._iterate_mass: fly, test the relative  *)
(* leftover trip fuel against the tolerance, correct the starting mass and    *)
(* fly again, at most MaxIters flights; return only a converged trajectory.   *)
EXTENDS Naturals, Sequences, TLC
CONSTANT MaxItersBound
VARIABLES maxit, it, res, conv, outcome
ivars == <<maxit, it, res, conv, outcome>>
IInit == /\ maxit \in 1..MaxItersBound /\ it = 0 /\ res = "-" /\ conv = FALSE /\ outcome = "running"
\* one flight; its residual is small or large
FlyIter(r) == /\ outcome = "running" /\ ~conv
              /\ (it = 0 \/ (res = "large" /\ it < maxit))
              /\ it' = it + 1 /\ res' = r
              /\ UNCHANGED <<maxit, conv, outcome>>
\* the convergence test on the latest flight (only inside the loop, i.e. while
\* another flight would still be allowed)
Test == /\ outcome = "running" /\ ~conv /\ it >= 1 /\ it < maxit /\ res = "small"
        /\ conv' = TRUE /\ UNCHANGED <<maxit, it, res, outcome>>
Finish == /\ outcome = "running"
          /\ (conv \/ it >= maxit \/ (it >= 1 /\ res = "large" /\ it >= maxit))
          /\ outcome' = IF conv THEN "returned" ELSE "nonconv"
          /\ UNCHANGED <<maxit, it, res, conv>>
INext == (\E r \in {"small", "large"} : FlyIter(r)) \/ Test \/ Finish
ISpec == IInit /\ [][INext]_ivars
ReturnedImpliesSmall == outcome = "returned" => res = "small"
BoundedFlights == it <= maxit
Decided == outcome \in {"running", "returned", "nonconv"}
=============================================================================
