---------------------------- MODULE MassIterTrace ----------------------------
EXTENDS MassIter, Json, IOUtils, TLCExt
AllTraces == ndJsonDeserialize(IOEnv.TRACE_FILE)
ASSUME \A i \in 1..Len(AllTraces) : TLCSet(i, 0)
VARIABLES l, tid
tvars == <<ivars, l, tid>>
Tr == AllTraces[tid].ev
Ev == Tr[l]
TInit == /\ tid \in 1..Len(AllTraces) /\ Tr[1].op = "begin"
         /\ maxit = Tr[1].maxit /\ it = 0 /\ res = "-" /\ conv = FALSE /\ outcome = "running" /\ l = 2
Consume(A) == l <= Len(Tr) /\ A /\ l' = l + 1 /\ UNCHANGED tid
TNext == \/ Test /\ UNCHANGED <<l, tid>>
         \/ Consume(Ev.op = "iter" /\ FlyIter(Ev.res))
         \/ Consume(Ev.op = "end" /\ Finish /\ outcome' = Ev.outcome)
TSpec == TInit /\ [][TNext]_tvars
Furthest == TLCSet(tid, IF TLCGet(tid) < l THEN l ELSE TLCGet(tid))
Post == /\ \A i \in 1..Len(AllTraces) :
              \/ TLCGet(i) = Len(AllTraces[i].ev) + 1
              \/ PrintT(<<"REJECTED", AllTraces[i].t,
                          IF TLCGet(i) = 0 THEN 0 ELSE TLCGet(i) - 1, Len(AllTraces[i].ev)>>)
        /\ PrintT("TRACEVALIDATION-DONE")
=============================================================================
