----------------------------- MODULE BuilderGen -----------------------------
(* every sequence of MaxFlights flights for every option set, one JSON line each *)
EXTENDS Builder, Json
Emit == IF Len(log) < MaxFlights \/ phase # "idle" THEN TRUE
        ELSE PrintT("@@" \o ToJson([opt |-> opt, flights |-> [i \in DOMAIN log |-> [k |-> log[i][1], out |-> log[i][2]]]])) /\ FALSE
=============================================================================
