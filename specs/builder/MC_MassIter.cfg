SPECIFICATION ISpec
CONSTANTS
  MaxItersBound = 5
INVARIANT ReturnedImpliesSmall
INVARIANT BoundedFlights
INVARIANT Decided
CHECK_DEADLOCK FALSE
