--------------------------- MODULE EmissionsSession ---------------------------
(***************************************************************************)
(* Several inventories computed in ONE process under different              *)
(* configurations (Config.reset / Config.load between them).  What an       *)
(* inventory carries is a function of the configuration in force only: the   *)
(* species it enables are carried, the species it switches off are not,      *)
(* whatever was computed before.  Design = "cached_constants" models         *)
(* constant emission indices (CO2, H2O, SOx family) remembered per fuel from *)
(* the first computation of the process (negative control).                  *)
(***************************************************************************)
EXTENDS Naturals, Sequences, FiniteSets, TLC, Json
E == INSTANCE EmissionsConfig WITH cfg <- 0
CONSTANTS Design, D, Space

Default == [mode |-> "trajectory", co2 |-> TRUE, h2o |-> TRUE, sox |-> TRUE, nox |-> "bffm2", hc |-> "bffm2", co |-> "bffm2",
            pmvol |-> "fuel_flow", pmnvol |-> "meem", apu |-> TRUE, gse |-> TRUE, lifecycle |-> TRUE]
\* the switches of the constant species and the accounting mode, everything else default
Switches == {[Default EXCEPT !.co2 = a, !.h2o = b, !.sox = c, !.mode = m] : a, b, c \in BOOLEAN, m \in E!Modes}
\* one option away from the default
Single == {c \in E!Configs : Cardinality({f \in DOMAIN Default : c[f] # Default[f]}) <= 1}
Constants == {"CO2", "H2O", "SOx", "SO2", "SO4"}

VARIABLES sess, cache
svars == <<sess, cache>>
SInit == sess = <<>> /\ cache = [filled |-> FALSE, set |-> {}]
Carried(c) == IF Design = "per_call" \/ ~cache.filled THEN E!Enabled(c)
              ELSE (E!Enabled(c) \ Constants) \cup cache.set
Compute(c) == /\ Len(sess) < D
              /\ sess' = Append(sess, [cfg |-> c, carried |-> Carried(c)])
              /\ cache' = IF ~cache.filled THEN [filled |-> TRUE, set |-> E!Enabled(c) \cap Constants] ELSE cache
SNext == \E c \in Space : Compute(c)
SSpec == SInit /\ [][SNext]_svars
HistoryIndependent == \A i \in DOMAIN sess : sess[i].carried = E!Enabled(sess[i].cfg)
\* an inventory handed back is the caller's: what is computed later in the process (another flight, another fuel, another
\* configuration) does not reach into it - every amount it held when it was returned it still holds at the end of the session
InventoriesAreKept == [][\A i \in DOMAIN sess : sess'[i] = sess[i]]_svars

\* (the argument mentions the state so that TLC does not fold the draw into a constant)
WNext == \E c \in {RandomElement(IF Len(sess) >= 0 THEN E!Configs ELSE {})} : Compute(c)
WSpec == SInit /\ [][WNext]_svars

HEmit == IF Len(sess) < D THEN TRUE
         ELSE PrintT("@@" \o ToJson([i \in DOMAIN sess |-> [cfg |-> sess[i].cfg, off |-> E!Off(sess[i].cfg), on |-> E!Enabled(sess[i].cfg),
                                                               outcomes |-> E!Outcomes(sess[i].cfg)]])) /\ FALSE
=============================================================================
