SPECIFICATION SSpec
CONSTANTS
  Design = "per_call"
  D = 2
  Space <- Switches
CONSTRAINT HEmit
CHECK_DEADLOCK FALSE
