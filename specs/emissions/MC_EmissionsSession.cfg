SPECIFICATION SSpec
CONSTANTS
  Design = "per_call"
  D = 3
  Space <- Switches
INVARIANT HistoryIndependent
CHECK_DEADLOCK FALSE
