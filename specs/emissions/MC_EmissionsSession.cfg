SPECIFICATION SSpec
CONSTANTS
  Design = "per_call"
  D = 3
  Space <- Switches
INVARIANT HistoryIndependent
PROPERTY InventoriesAreKept
CHECK_DEADLOCK FALSE
