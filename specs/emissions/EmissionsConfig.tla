--------------------------- MODULE EmissionsConfig ---------------------------
(***************************************************************************)
(* The documented emissions options (src/AEIC/config/emissions.py,           *)
(* src/AEIC/data/default_config.toml) and what each combination must yield   *)
(* from compute_emissions: either a balanced inventory or a refusal that     *)
(* names the unsupported method - never an internal error - and a species    *)
(* that is switched off contributes nothing to the trajectory and LTO parts. *)
(***************************************************************************)
EXTENDS Naturals, FiniteSets, TLC
\* The performance model's optional data take part as well: it names an APU of the database, names none, or names one the
\* database does not know (ModelData); no option combination may fail internally on any of them
ModelData == {"apu_known", "apu_not_named", "apu_unknown"}

Modes == {"trajectory", "lto"}
NoxMethods == {"bffm2", "p3t3", "none"}
PMvolMethods == {"fuel_flow", "foa3", "none"}
PMnvolMethods == {"meem", "scope11", "foa3", "none"}

Configs == [mode : Modes, co2 : BOOLEAN, h2o : BOOLEAN, sox : BOOLEAN,
            nox : NoxMethods, hc : NoxMethods, co : NoxMethods,
            pmvol : PMvolMethods, pmnvol : PMnvolMethods,
            apu : BOOLEAN, gse : BOOLEAN, lifecycle : BOOLEAN]

AllSpecies == {"CO2", "H2O", "HC", "CO", "NOx", "NO", "NO2", "HONO", "PMnvol", "PMnvolGMD",
               "PMvol", "OCic", "SOx", "SO2", "SO4", "PMnvolN"}

\* EmissionsConfig.enabled_species
Enabled(c) ==
     (IF c.co2 THEN {"CO2"} ELSE {})
  \cup (IF c.h2o THEN {"H2O"} ELSE {})
  \cup (IF c.hc # "none" THEN {"HC"} ELSE {})
  \cup (IF c.co # "none" THEN {"CO"} ELSE {})
  \cup (IF c.nox # "none" THEN {"NOx", "NO", "NO2", "HONO"} ELSE {})
  \cup (IF c.pmvol # "none" THEN {"PMvol", "OCic"} ELSE {})
  \cup (IF c.pmnvol # "none" THEN {"PMnvol", "PMnvolGMD"} ELSE {})
  \cup (IF c.pmnvol \in {"scope11", "meem"} THEN {"PMnvolN"} ELSE {})
  \cup (IF c.sox THEN {"SOx", "SO2", "SO4"} ELSE {})
Off(c) == AllSpecies \ Enabled(c)

\* methods that are documented but have no implementation: the only admissible
\* outcome is a refusal naming the method
MustRefuse(c) == IF c.pmnvol = "foa3" THEN {"foa3"} ELSE {}
\* methods whose selection may either be served by the implemented method or be
\* refused by name (the property admits both)
MayRefuse(c) == (IF c.nox = "p3t3" \/ c.hc = "p3t3" \/ c.co = "p3t3" THEN {"p3t3"} ELSE {})
Outcomes(c) == IF MustRefuse(c) # {} THEN {[kind |-> "refused", method |-> m] : m \in MustRefuse(c)}
               ELSE {[kind |-> "ok", method |-> "-"]} \cup {[kind |-> "refused", method |-> m] : m \in MayRefuse(c)}

VARIABLES cfg
EInit == cfg \in Configs
ENext == FALSE /\ UNCHANGED cfg
ESpec == EInit /\ [][ENext]_cfg

\* design-level sanity of the tables above
NoThirdOutcome == \A o \in Outcomes(cfg) : o.kind \in {"ok", "refused"} /\ (o.kind = "refused" => o.method # "-")
OffIsNotEnabled == Off(cfg) \cap Enabled(cfg) = {}
NOxFamilyTogether == ("NOx" \in Enabled(cfg)) <=> ({"NO", "NO2", "HONO"} \subseteq Enabled(cfg))
SOxFamilyTogether == ("SOx" \in Enabled(cfg)) <=> ({"SO2", "SO4"} \subseteq Enabled(cfg))
AlwaysAnOutcome == Outcomes(cfg) # {}
=============================================================================
