SPECIFICATION ESpec
CONSTRAINT Emit
CHECK_DEADLOCK FALSE
