------------------------------- MODULE Inventory -------------------------------
(***************************************************************************)
(* Fuel accounting of a flight's emissions inventory                         *)
(* (src/AEIC/emissions/emission.py compute_emissions / sum_total_emissions,  *)
(* emissions/trajectory.py _trajectory_slice, emissions/lto.py).             *)
(*                                                                          *)
(* A flight is N points with an integer fuel-mass profile; segment i (ending *)
(* at point i) burns fm[i-1] - fm[i], segment 1 burns nothing.  The first nc *)
(* points are climb, the last nd descent.  In "trajectory" accounting every  *)
(* segment is counted from the trajectory and the LTO approach and climb     *)
(* modes are zeroed; in "lto" accounting only the points between climb and   *)
(* descent are counted from the trajectory and the LTO cycle supplies        *)
(* approach and climb from times-in-mode.  Masses are in grams, LTO fuel     *)
(* flows in g/s, times in mode in seconds (ICAO: 1560, 240, 132, 42).        *)
(***************************************************************************)
EXTENDS Integers, Sequences, FiniteSets, TLC

CONSTANTS MaxN, BurnAlphabet, LtoFlowSets

ThrustModes == <<"idle", "approach", "climb", "takeoff">>
TIM == [idle |-> 1560, approach |-> 240, climb |-> 132, takeoff |-> 42]
ApuTime == 900

Flights == UNION {[burn : [2..n -> BurnAlphabet], n : {n}, nc : 0..n, nd : 0..n] : n \in 2..MaxN}
ValidFlight(f) == f.nc + f.nd <= f.n

VARIABLES flt, mode, flows, apu, gse
ivars == <<flt, mode, flows, apu, gse>>
IInit == /\ flt \in {f \in Flights : ValidFlight(f)}
         /\ mode \in {"trajectory", "lto"}
         /\ flows \in LtoFlowSets
         /\ apu \in {"absent", "idle", "running"}
         /\ gse \in BOOLEAN
INext == FALSE /\ UNCHANGED ivars
ISpec == IInit /\ [][INext]_ivars

N == flt.n
SegBurn(i) == IF i = 1 THEN 0 ELSE flt.burn[i] * 1000          \* grams
\* points counted from the trajectory (1-based; code: slice(n_climb, len - n_descent))
Window == IF mode = "lto" THEN (flt.nc + 1)..(N - flt.nd) ELSE 1..N
InWindow(i) == i \in Window
TrajFuel == LET RECURSIVE S(_)
                S(i) == IF i = 0 THEN 0 ELSE S(i - 1) + (IF InWindow(i) THEN SegBurn(i) ELSE 0)
            IN S(N)
LtoModeCounted(m) == mode = "lto" \/ m \in {"idle", "takeoff"}
LtoFuel(m) == IF LtoModeCounted(m) THEN TIM[m] * flows[m] ELSE 0
LtoFuelTotal == LtoFuel("idle") + LtoFuel("approach") + LtoFuel("climb") + LtoFuel("takeoff")
ApuFuelRunning == 28890   \* grams: APU 131-9 burns 0.0321 kg/s for 900 s
ApuFuel == IF apu = "running" THEN ApuFuelRunning ELSE 0
\* total fuel without the GSE share (GSE fuel = nominal CO2 / EI_CO2, supplied by the harness)
FuelTotalNoGse == TrajFuel + LtoFuelTotal + ApuFuel
TripFuel == LET RECURSIVE S(_)
                S(i) == IF i = 0 THEN 0 ELSE S(i - 1) + SegBurn(i)
            IN S(N)

-----------------------------------------------------------------------------
\* a climb/descent point is attributed to the LTO cycle exactly when it is not
\* counted from the trajectory: every kilogram once
ClimbOrDescentPoint(i) == i <= flt.nc \/ i > N - flt.nd
FuelCountedOnce == \A i \in 1..N :
     /\ (mode = "trajectory" => InWindow(i) /\ ~LtoModeCounted("approach") /\ ~LtoModeCounted("climb"))
     /\ (mode = "lto" => (InWindow(i) <=> ~ClimbOrDescentPoint(i)) /\ LtoModeCounted("approach") /\ LtoModeCounted("climb"))
WindowWithinFlight == Window \subseteq 1..N
TrajFuelBounded == 0 <= TrajFuel /\ TrajFuel <= TripFuel
TrajectoryModeCountsAll == mode = "trajectory" => TrajFuel = TripFuel
NonNegative == TrajFuel >= 0 /\ LtoFuelTotal >= 0 /\ ApuFuel >= 0
=============================================================================
