SPECIFICATION ESpec
INVARIANT NoThirdOutcome
INVARIANT OffIsNotEnabled
INVARIANT NOxFamilyTogether
INVARIANT SOxFamilyTogether
INVARIANT AlwaysAnOutcome
CHECK_DEADLOCK FALSE
