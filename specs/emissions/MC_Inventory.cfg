SPECIFICATION ISpec
CONSTANTS
  MaxN = 5
  BurnAlphabet = {0, 1, 2, 5}
  LtoFlowSets <- FlowSets
INVARIANT FuelCountedOnce
INVARIANT WindowWithinFlight
INVARIANT TrajFuelBounded
INVARIANT TrajectoryModeCountsAll
INVARIANT NonNegative
CHECK_DEADLOCK FALSE
