SPECIFICATION WSpec
CONSTANTS
  Design = "per_call"
  D = 4
  Space <- Switches
CONSTRAINT HEmit
CHECK_DEADLOCK FALSE
