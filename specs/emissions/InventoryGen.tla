----------------------------- MODULE InventoryGen -----------------------------
EXTENDS Inventory, Json
FlowSets == {[idle |-> 100, approach |-> 300, climb |-> 900, takeoff |-> 1100],
             [idle |-> 250, approach |-> 250, climb |-> 700, takeoff |-> 600]}
Emit == PrintT("@@" \o ToJson([n |-> N, burn |-> [i \in 1..N |-> SegBurn(i)], nc |-> flt.nc, nd |-> flt.nd,
                               mode |-> mode, flows |-> flows, apu |-> apu, gse |-> gse,
                               window |-> [i \in 1..N |-> InWindow(i)], trajfuel |-> TrajFuel,
                               ltofuel |-> [m \in {"idle", "approach", "climb", "takeoff"} |-> LtoFuel(m)],
                               apufuel_modelled |-> ApuFuel, total_nogse |-> FuelTotalNoGse]))
=============================================================================
