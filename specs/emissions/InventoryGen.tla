----------------------------- MODULE InventoryGen -----------------------------
EXTENDS Inventory, Json
FlowSets == {[idle |-> 100, approach |-> 300, climb |-> 900, takeoff |-> 1100],
             [idle |-> 250, approach |-> 250, climb |-> 700, takeoff |-> 600]}
\* How the flown trajectory is handed to compute_emissions: the Trajectory container (which converts every
\* per-point field to float64) or a plain object carrying the same attributes as float64 / whole-number
\* integer arrays (the repository's own tests use such an object).  The inventory does not depend on it.
\* One carrier per flight, spread deterministically over the flights.
Carriers == <<"container", "plain_float", "plain_int">>
Carrier == Carriers[((N + flt.nc + 2 * flt.nd + (TrajFuel \div 1000) + (IF gse THEN 1 ELSE 0)) % 3) + 1]
Emit == PrintT("@@" \o ToJson([n |-> N, carrier |-> Carrier, burn |-> [i \in 1..N |-> SegBurn(i)], nc |-> flt.nc, nd |-> flt.nd,
                               mode |-> mode, flows |-> flows, apu |-> apu, gse |-> gse,
                               window |-> [i \in 1..N |-> InWindow(i)], trajfuel |-> TrajFuel,
                               ltofuel |-> [m \in {"idle", "approach", "climb", "takeoff"} |-> LtoFuel(m)],
                               apufuel_modelled |-> ApuFuel, total_nogse |-> FuelTotalNoGse]))
=============================================================================
