----------------------------- MODULE InventoryGen -----------------------------
EXTENDS Inventory, Json
FlowSets == {[idle |-> 100, approach |-> 300, climb |-> 900, takeoff |-> 1100],
             [idle |-> 250, approach |-> 250, climb |-> 700, takeoff |-> 600]}
\* How the flown trajectory is handed to compute_emissions: the Trajectory container (which converts every
\* per-point field to float64) or a plain object carrying the same attributes as float64 / whole-number
\* integer arrays (the repository's own tests use such an object).  The inventory does not depend on it.
\* One carrier per flight, spread deterministically over the flights.
Carriers == <<"container", "plain_float", "plain_int">>
Carrier == Carriers[((N + flt.nc + 2 * flt.nd + (TrajFuel \div 1000) + (IF gse THEN 1 ELSE 0)) % 3) + 1]
\* The altitude profile the flight is realised on: "high" climbs through the stratosphere, "low" is a short hop that
\* stays below 2.5 km (estimates that look at the top of the flight - MEEM - see a different flight).  The balance
\* does not depend on it.  One profile per flight, spread deterministically.
\* ("ref_level": the flight tops out at exactly 3000 m, the reference level of MEEM's linear variation.)
AltProfiles == <<"high", "low", "ref_level">>
AltProfile == AltProfiles[((N + 2 * flt.nc + flt.nd + (IF mode = "lto" THEN 1 ELSE 0)) % 3) + 1]
\* The performance model lists its four LTO modes in some order (idle .. take-off, or take-off .. idle as the ICAO
\* databank does): per-mode data are keyed by mode, the listing order means nothing.  One order per flight.
ModeOrders == <<"idle_first", "takeoff_first">>
ModeOrder == ModeOrders[((N + flt.nc + flt.nd + (IF gse THEN 0 ELSE 1) + (IF apu = "running" THEN 1 ELSE 0)) % 2) + 1]
\* The engine data bank marks an nvPM index that was not reported with -1: for every thrust mode, or for some only
\* (mass at idle / at take-off missing, numbers not reported at all).  Whatever the form, every amount of the inventory
\* is a finite non-negative number and the totals are the sums of the parts.  One form per flight.
EdbForms == <<"reported", "partial_idle", "partial_takeoff", "unreported">>
EdbForm == EdbForms[((N + 2 * flt.nc + 3 * flt.nd + (IF gse THEN 1 ELSE 0)) % 4) + 1]
\* The per-mode LTO indices of the performance model are the CALLER's data: frozen tables (as loaded from a file) or mutable
\* ones (a hand-built model, a sensitivity run that scaled them).  An inventory reads them; the same model serves the next
\* flight.  One form per flight; the models are shared by all flights of a process.
LtoForms == <<"frozen", "mutable">>
LtoForm == LtoForms[((N + flt.nc + 2 * flt.nd + (IF apu = "running" THEN 1 ELSE 0)) % 2) + 1]
Emit == PrintT("@@" \o ToJson([n |-> N, carrier |-> Carrier, profile |-> AltProfile, modeorder |-> ModeOrder, edb |-> EdbForm, ltoform |-> LtoForm, burn |-> [i \in 1..N |-> SegBurn(i)], nc |-> flt.nc, nd |-> flt.nd,
                               mode |-> mode, flows |-> flows, apu |-> apu, gse |-> gse,
                               window |-> [i \in 1..N |-> InWindow(i)], trajfuel |-> TrajFuel,
                               ltofuel |-> [m \in {"idle", "approach", "climb", "takeoff"} |-> LtoFuel(m)],
                               apufuel_modelled |-> ApuFuel, total_nogse |-> FuelTotalNoGse]))
=============================================================================
