------------------------- MODULE EmissionsConfigGen -------------------------
EXTENDS EmissionsConfig, Json, Sequences
Emit == PrintT("@@" \o ToJson([cfg |-> cfg, off |-> Off(cfg), on |-> Enabled(cfg), outcomes |-> Outcomes(cfg)]))
=============================================================================
