SPECIFICATION ISpec
CONSTANTS
  MaxN = 4
  BurnAlphabet = {0, 1, 2, 5}
  LtoFlowSets <- FlowSets
CONSTRAINT Emit
CHECK_DEADLOCK FALSE
