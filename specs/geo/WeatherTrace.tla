---------------------------- MODULE WeatherTrace ----------------------------
(***************************************************************************)
(* Code -> spec: executions of the real Weather class (the repository's own  *)
(* tests and the harness's drivers), recorded by harness/aeic_verif/         *)
(* rec_weather.py as one event per get_ground_speed call, validated against  *)
(* WeatherCache.tla: every call is an Ask(d, h) of the machine, and the      *)
(* projected state the object is left in (which day's file is open, which    *)
(* hour is sliced) is the machine's state.  Days are numbered by the         *)
(* recorder: odd = file with a time axis, even = file without, >= 100 = no   *)
(* file.  HistoryIndependent is evaluated in every state of every trace.     *)
(***************************************************************************)
EXTENDS WeatherCache, Json, IOUtils, TLCExt
AllTraces == ndJsonDeserialize(IOEnv.TRACE_FILE)
ASSUME \A i \in 1..Len(AllTraces) : TLCSet(i, 0)
VARIABLES l, tid
tvars == <<wvars, l, tid>>
Tr == AllTraces[tid].ev
Ev == Tr[l]
TInit == tid \in 1..Len(AllTraces) /\ WInit /\ l = 1
Consume(A) == l <= Len(Tr) /\ A /\ l' = l + 1 /\ UNCHANGED tid
\* the logged projection binds the machine's next state
TQuery == Ev.op = "query" /\ Ask(Ev.d, Ev.h)
          /\ (Ev.ok = "no") = (Ev.d \in MissingDays)
          /\ mainDay' = Ev.ud
          /\ sliceHour' = Ev.uh
TNext == Consume(TQuery)
TSpec == TInit /\ [][TNext]_tvars
Furthest == TLCSet(tid, IF TLCGet(tid) < l THEN l ELSE TLCGet(tid))
Post == /\ \A i \in 1..Len(AllTraces) :
              \/ TLCGet(i) = Len(AllTraces[i].ev) + 1
              \/ PrintT(<<"REJECTED", AllTraces[i].t,
                          IF TLCGet(i) = 0 THEN 0 ELSE TLCGet(i) - 1, Len(AllTraces[i].ev)>>)
        /\ PrintT("TRACEVALIDATION-DONE")
TrDays == 1..40
TrTimed == {d \in 1..40 : d % 2 = 1}
TrMissing == 100..140
TrHours == 0..23
=============================================================================
