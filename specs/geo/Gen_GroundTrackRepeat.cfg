SPECIFICATION FSpec
CONSTANTS
  Design = "stateless"
  D = 3
  HLegSets <- MultiLeg
  HOps <- LocationOnly
INVARIANT HistoryIndependent
INVARIANT RepeatedRefusalIsRefused
CONSTRAINT HEmit
CHECK_DEADLOCK FALSE
