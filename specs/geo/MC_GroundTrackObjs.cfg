SPECIFICATION OSpec
CONSTANTS
  Design = "own_object"
  D = 4
INVARIANT OwnFlag
CHECK_DEADLOCK FALSE
