---------------------------------- MODULE Wind ----------------------------------
(***************************************************************************)
(* Wind-corrected ground speed (src/AEIC/weather.py, get_ground_speed):      *)
(* |airspeed vector + wind vector| with heading in degrees clockwise from    *)
(* north, u eastward, v northward.  Headings are the four cardinals and the  *)
(* eight 3-4-5 directions, so sine and cosine are fifths; airspeeds are      *)
(* multiples of 5; winds are integers on a 2x2x2 lattice (pressure level,    *)
(* latitude, longitude) queried at nodes and half points (trilinear), so the *)
(* squared ground speed is an exact rational.                                *)
(***************************************************************************)
EXTENDS Integers, Sequences, TLC, Rat

\* heading id -> <<5 sin, 5 cos>>  (sin = east component, cos = north component)
Dirs == <<<<0, 5>>, <<3, 4>>, <<4, 3>>, <<5, 0>>, <<4, -3>>, <<3, -4>>, <<0, -5>>, <<-3, -4>>, <<-4, -3>>, <<-5, 0>>, <<-4, 3>>, <<-3, 4>>>>
Tas == {100, 200, 250}
W == {0, 15, 20, 25}
Signs == {-1, 1}

\* wind fields: node value as a function of the node indices (each 0 or 1)
U(f, p, la, lo) == CASE f = "uniform" -> 0 [] f = "lon" -> 20 * lo [] f = "lat" -> -10 * la [] f = "lev" -> 30 * p [] f = "mixed" -> 20 * lo - 10 * la + 30 * p
V(f, p, la, lo) == CASE f = "uniform" -> 0 [] f = "lon" -> -10 * lo [] f = "lat" -> 20 * la [] f = "lev" -> -20 * p [] f = "mixed" -> 10 * lo + 20 * la - 20 * p
Fields == {"uniform", "lon", "lat", "lev", "mixed"}
\* trilinear interpolation at half coordinates h in {0,1,2} (0 and 2 = nodes)
Tri(g(_, _, _), hp, hla, hlo) ==
  LET w(h, i) == IF i = 0 THEN 2 - h ELSE h IN
  R( w(hp, 0) * w(hla, 0) * w(hlo, 0) * g(0, 0, 0) + w(hp, 0) * w(hla, 0) * w(hlo, 1) * g(0, 0, 1)
   + w(hp, 0) * w(hla, 1) * w(hlo, 0) * g(0, 1, 0) + w(hp, 0) * w(hla, 1) * w(hlo, 1) * g(0, 1, 1)
   + w(hp, 1) * w(hla, 0) * w(hlo, 0) * g(1, 0, 0) + w(hp, 1) * w(hla, 0) * w(hlo, 1) * g(1, 0, 1)
   + w(hp, 1) * w(hla, 1) * w(hlo, 0) * g(1, 1, 0) + w(hp, 1) * w(hla, 1) * w(hlo, 1) * g(1, 1, 1), 8)

VARIABLES c, o, st
vars == <<c, o, st>>
UniformCases == [kind : {"uniform"}, h : 1..12, tas : Tas, u : {s * x : s \in Signs, x \in W}, v : {s * x : s \in Signs, x \in W}]
FieldCases == [kind : {"field"}, h : {1, 2, 6, 9, 11}, tas : {200}, f : Fields \ {"uniform"}, u0 : {0, 15}, v0 : {0, -20},
               hp : 0..2, hla : 0..2, hlo : 0..2]
\* which heading counts: the explicitly given one (h) if there is one, else
\* the azimuth of the ground-track point (th); a given heading of 0 degrees
\* (h = 1) is a heading like any other
HeadingCases == [kind : {"uniform"}, h : 1..12, th : 1..12, given : BOOLEAN, tas : {200}, u : {15, -20}, v : {25, 0}]
\* an explicit heading is an angle: written in [0, 360) or as the same direction minus 360 degrees it is the same heading
HeadingForms == {"0..360", "negative"}
Eff(x) == IF "given" \in DOMAIN x THEN (IF x.given THEN x.h ELSE x.th) ELSE x.h
\* a weather file is a coordinate-labelled array: the order in which it stores its
\* pressure levels and latitudes (ERA5: both descending; "asc": both ascending)
\* does not enter the result; neither does the order in which the file lists its variables u, v, t (the "asc"
\* files list them t, v, u): they are found by name
LayoutCases == [kind : {"field"}, h : {2, 9}, tas : {200}, f : {"lev", "mixed"}, u0 : {0}, v0 : {0}, hp : 0..2, hla : 0..2, hlo : 0..2, lay : {"asc"}]
OutsideCases == [kind : {"outside"}, h : {2}, tas : {200}, side : {"north", "south", "east", "west", "above", "below"}]
\* the data domain is closed: a point exactly on its outermost latitude / longitude line (or corner) is inside - it is
\* answered with the wind of that line, not refused
EdgeCases == [kind : {"uniform"}, h : {2, 9}, tas : {200}, u : {15}, v : {-20}, edge : {"north", "south", "east", "west", "north_east", "south_west"}]
\* an aircraft that stands still in the air mass (true airspeed 0) drifts with the wind: the ground speed is the wind speed,
\* and 0 in calm air - the length of the vector sum has no lower bound other than 0
StillCases == [kind : {"uniform"}, h : {1, 3}, tas : {0}, u : {0, 15}, v : {0, -20}]
WindOf(x) == IF x.kind = "uniform" THEN <<I(x.u), I(x.v)>>
             ELSE <<Add(I(x.u0), Tri(LAMBDA p, la, lo : U(x.f, p, la, lo), x.hp, x.hla, x.hlo)),
                    Add(I(x.v0), Tri(LAMBDA p, la, lo : V(x.f, p, la, lo), x.hp, x.hla, x.hlo))>>
Gs2(x) == LET d == Dirs[Eff(x)]  wv == WindOf(x)
              e == Add(I((x.tas \div 5) * d[1]), wv[1])      \* east component
              n == Add(I((x.tas \div 5) * d[2]), wv[2])      \* north component
          IN Add(Sq(e), Sq(n))
Out(x) == IF x.kind = "outside" THEN [refused |-> TRUE, gs2 |-> I(0), w2 |-> I(0)]
          ELSE [refused |-> FALSE, gs2 |-> Gs2(x), w2 |-> Add(Sq(WindOf(x)[1]), Sq(WindOf(x)[2]))]
WSpec == c \in (UniformCases \cup FieldCases \cup OutsideCases \cup HeadingCases \cup LayoutCases \cup EdgeCases \cup StillCases) /\ o = <<>> /\ st = "pending"
         /\ [][st = "pending" /\ st' = "done" /\ o' = Out(c) /\ UNCHANGED c]_vars
Done == st = "done"

NoWindIsAirspeed == (Done /\ c.kind = "uniform" /\ c.u = 0 /\ c.v = 0) => o.gs2 = I(c.tas * c.tas)
\* triangle bounds: (tas - w)^2 <= gs^2 <= (tas + w)^2   i.e.   |gs^2 - tas^2 - w^2| <= 2 tas w, squared
TriangleBounds == (Done /\ ~o.refused) =>
   LET dd == Sub(Sub(o.gs2, I(c.tas * c.tas)), o.w2) IN Le(Sq(dd), Mul(I(4 * c.tas * c.tas), o.w2))
\* pure tailwind adds, pure headwind subtracts its full speed
TailHead == (Done /\ c.kind = "uniform" /\ "th" \notin DOMAIN c) =>
   LET d == Dirs[c.h] IN
   \A k \in {-5, -4, -3, 3, 4, 5} :
     (c.u * 5 = k * d[1] * 5 /\ c.v * 5 = k * d[2] * 5 /\ (d[1] = 0 \/ d[2] = 0 \/ TRUE)) =>
        o.gs2 = I((c.tas + k * 5) * (c.tas + k * 5))
\* rotating heading and wind together by 90 degrees leaves the ground speed unchanged
Rot(h) == ((h + 2) % 12) + 1
Rotation == (Done /\ c.kind = "uniform" /\ "th" \notin DOMAIN c) =>
   o.gs2 = Gs2([c EXCEPT !.h = Rot(c.h), !.u = c.v, !.v = -c.u])
\* the track azimuth is irrelevant when a heading is given, and the only thing that counts when none is
LayoutIrrelevant == (Done /\ "lay" \in DOMAIN c) =>
   o.gs2 = Gs2([kind |-> "field", h |-> c.h, tas |-> c.tas, f |-> c.f, u0 |-> c.u0, v0 |-> c.v0, hp |-> c.hp, hla |-> c.hla, hlo |-> c.hlo])
ExplicitHeadingWins == (Done /\ "th" \in DOMAIN c) =>
   o.gs2 = Gs2([kind |-> "uniform", h |-> (IF c.given THEN c.h ELSE c.th), tas |-> c.tas, u |-> c.u, v |-> c.v])
=============================================================================
