SPECIFICATION WSpec
CONSTANTS
  Design = "stateless"
  D = 8
  HLegSets <- MultiLeg
  HOps <- BothOps
INVARIANT HistoryIndependent
CONSTRAINT HEmit
CHECK_DEADLOCK FALSE
