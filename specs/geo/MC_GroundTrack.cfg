SPECIFICATION GSpec
INVARIANT Additive
INVARIANT RefuseOutOfRange
INVARIANT OverstepOnlyWhenAllowed
INVARIANT OffsetWithinLeg
CHECK_DEADLOCK FALSE
