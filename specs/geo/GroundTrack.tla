------------------------------ MODULE GroundTrack ------------------------------
(***************************************************************************)
(* GroundTrack (src/AEIC/trajectories/ground_track.py) on its arc-length     *)
(* axis: waypoints at integer cumulative distances (leg lengths from a small *)
(* alphabet), queries on the half lattice.  A location is <<leg k, offset>>  *)
(* along leg k (offset may exceed the leg length only when overstepping on   *)
(* the last leg).  Distances are doubled so that half units are integers.    *)
(***************************************************************************)
EXTENDS Integers, Sequences, TLC

\* (<<2, 2>> is realised as an OUT-AND-BACK track: its last way-point is its first one again - a track may revisit a position)
LegSets == {<<2>>, <<10>>, <<2, 4>>, <<2, 2>>, <<4, 2, 10>>, <<10, 2, 2, 4>>}     \* doubled leg lengths
RECURSIVE Cum(_, _)
Cum(L, k) == IF k = 0 THEN 0 ELSE Cum(L, k - 1) + L[k]
Total(L) == Cum(L, Len(L))

\* leg containing distance d (0 <= d <= total): the first k with d <= Cum(k);
\* d = 0 belongs to leg 1
LegOf(L, d) == IF d = 0 THEN 1 ELSE CHOOSE k \in 1..Len(L) : Cum(L, k - 1) < d /\ d <= Cum(L, k)
Loc(L, d) == [leg |-> LegOf(L, d), off |-> d - Cum(L, LegOf(L, d) - 1)]
Location(L, d) == IF d < 0 \/ d > Total(L) THEN [refused |-> TRUE, leg |-> 0, off |-> 0]
                  ELSE [refused |-> FALSE] @@ Loc(L, d)
\* waypoint index immediately after or at d (bisect_left on the cumulative index)
After(L, d) == IF d = 0 THEN 0 ELSE LegOf(L, d)
Step(L, over, a, b) ==
  IF a < 0 \/ b < 0 THEN [refused |-> TRUE, leg |-> 0, off |-> 0]
  ELSE IF a <= Total(L) /\ a + b <= Total(L)
       THEN IF ~over /\ After(L, a) # After(L, a + b) /\ a < Cum(L, After(L, a))
            THEN [refused |-> TRUE, leg |-> 0, off |-> 0]          \* would cross a waypoint
            ELSE Location(L, a + b)
       ELSE IF ~over THEN [refused |-> TRUE, leg |-> 0, off |-> 0]
            ELSE [refused |-> FALSE, leg |-> Len(L), off |-> a + b - Cum(L, Len(L) - 1)]   \* continue on the last leg

\* Direction: the azimuth reported with a position is the direction of travel along the leg there - TOWARDS the leg's end
\* way point while off < leg length, AWAY from the last way point beyond it (off > length of the last leg: overstep; there
\* the code reports the direction of the continuing great circle as seen from the last way point, which the harness admits
\* beside the direction at the position itself)
\* however a mission object was made - constructor, TOML-like dictionary, database query result - its great-circle
\* distance is the length of the ground track between its airports (a schedule's stated distance is not it)
MissionEntries == {"constructor", "from_toml", "from_query_result"}
\* a coordinate is a number: a way point at whole degrees may be given as 48 or as 48.0 - the distances along the
\* track are lengths in metres either way, never whole numbers of anything
CoordForms == {"float", "whole", "numpy_whole"}

VARIABLES c, o, st
vars == <<c, o, st>>
Cases == UNION {[legs : {L}, over : BOOLEAN, op : {"location"}, a : -1..(Total(L) + 3), b : {0}] : L \in LegSets}
     \cup UNION {[legs : {L}, over : BOOLEAN, op : {"step"}, a : -1..(Total(L) + 1), b : {-1, 0, 1, 2, 3, 5, 11}] : L \in LegSets}
Out(x) == IF x.op = "location" THEN Location(x.legs, x.a) ELSE Step(x.legs, x.over, x.a, x.b)
GSpec == c \in Cases /\ o = <<>> /\ st = "pending" /\ [][st = "pending" /\ st' = "done" /\ o' = Out(c) /\ UNCHANGED c]_vars
Done == st = "done"

\* stepping from a by b equals locating a + b whenever both are on the track and no waypoint rule intervenes
Additive == (Done /\ c.op = "step" /\ ~o.refused /\ c.a + c.b <= Total(c.legs)) => o = Location(c.legs, c.a + c.b)
RefuseOutOfRange == (Done /\ c.op = "location") => (o.refused <=> (c.a < 0 \/ c.a > Total(c.legs)))
OverstepOnlyWhenAllowed == (Done /\ c.op = "step" /\ ~o.refused /\ c.a + c.b > Total(c.legs)) => c.over
OffsetWithinLeg == (Done /\ ~o.refused /\ (c.op = "location" \/ c.a + c.b <= Total(c.legs))) => (o.off >= 0 /\ o.off <= c.legs[o.leg])
TotalIsSumOfLegs == \A L \in LegSets : Total(L) = Cum(L, Len(L))

=============================================================================
