SPECIFICATION HSpec
CONSTANTS
  Design = "stateless"
  D = 2
  HLegSets <- MultiLeg
  HOps <- LocationOnly
INVARIANT HistoryIndependent
CHECK_DEADLOCK FALSE
