SPECIFICATION HSpec
CONSTANTS
  Design = "stateless"
  D = 2
  HLegSets <- MultiLeg
  HOps <- LocationOnly
INVARIANT HistoryIndependent
CONSTRAINT HEmit
CHECK_DEADLOCK FALSE
