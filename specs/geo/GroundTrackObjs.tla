---------------------------- MODULE GroundTrackObjs ----------------------------
(***************************************************************************)
(* Several ground-track objects for the SAME pair of end points, created by  *)
(* GroundTrack.great_circle(start, end, allow_overstep) with different       *)
(* overstep flags (the legacy builder always asks for overstepping; other    *)
(* callers do not).  Each object keeps the flag it was created with: what a  *)
(* later creation asks for does not change the answers of an earlier object. *)
(* Design = "shared_instance" models one cached instance per pair of end     *)
(* points whose flag is overwritten by every creation (negative control).    *)
(***************************************************************************)
EXTENDS Integers, Sequences, TLC, Json
G == INSTANCE GroundTrack WITH c <- 0, o <- 0, st <- 0
CONSTANTS Design, D
Legs == <<10>>
MaxObjs == 2
Queries == {[op |-> "step", a |-> 8, b |-> 5], [op |-> "step", a |-> 10, b |-> 1],
            [op |-> "step", a |-> 2, b |-> 3], [op |-> "location", a |-> 5, b |-> 0]}

VARIABLES flags,    \* per object: the overstep flag it currently acts on
          made,     \* per object: the flag it was created with
          hist
ovars == <<flags, made, hist>>
OInit == flags = <<>> /\ made = <<>> /\ hist = <<>>
Answer(i, q, fl) == G!Out([legs |-> Legs, over |-> fl[i], op |-> q.op, a |-> q.a, b |-> q.b])
NoAnswer == [refused |-> FALSE, leg |-> 0, off |-> 0]
Create(over) ==
  /\ Len(made) < MaxObjs
  /\ made' = Append(made, over)
  /\ flags' = IF Design = "shared_instance" THEN [i \in 1..(Len(flags) + 1) |-> over] ELSE Append(flags, over)
  /\ hist' = Append(hist, [op |-> "create", obj |-> Len(made) + 1, over |-> over, a |-> 0, b |-> 0, o |-> NoAnswer])
Ask(i, q) ==
  /\ i \in DOMAIN made
  /\ hist' = Append(hist, [op |-> q.op, obj |-> i, over |-> made[i], a |-> q.a, b |-> q.b, o |-> Answer(i, q, flags)])
  /\ UNCHANGED <<flags, made>>
ONext == Len(hist) < D /\ ((\E ov \in BOOLEAN : Create(ov)) \/ (\E i \in DOMAIN made, q \in Queries : Ask(i, q)))
OSpec == OInit /\ [][ONext]_ovars
OwnFlag == \A k \in DOMAIN hist : hist[k].op # "create" => hist[k].o = Answer(hist[k].obj, hist[k], made)
HEmit == IF Len(hist) < D THEN TRUE ELSE PrintT("@@" \o ToJson(hist)) /\ FALSE
=============================================================================
