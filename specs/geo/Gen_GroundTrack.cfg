SPECIFICATION GSpec
CONSTRAINT Emit
CHECK_DEADLOCK FALSE
