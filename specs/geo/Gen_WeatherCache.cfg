SPECIFICATION WSpec
CONSTANTS
  Days = {1, 2, 3}
  TimedDays = {1, 2}
  MissingDays = {}
  Hours = {6, 12}
  MaxQ = 4
CONSTRAINT Emit
CHECK_DEADLOCK FALSE
