-------------------------------- MODULE WindGen --------------------------------
EXTENDS Wind, Json
Emit == Done => PrintT("@@" \o ToJson([c |-> c, o |-> o, wind |-> IF c.kind = "outside" THEN <<I(0), I(0)>> ELSE WindOf(c)]))
=============================================================================
