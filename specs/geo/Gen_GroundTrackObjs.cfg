SPECIFICATION OSpec
CONSTANTS
  Design = "own_object"
  D = 4
CONSTRAINT HEmit
CHECK_DEADLOCK FALSE
