SPECIFICATION WSpec
INVARIANT NoWindIsAirspeed
INVARIANT TriangleBounds
INVARIANT TailHead
INVARIANT Rotation
CHECK_DEADLOCK FALSE
