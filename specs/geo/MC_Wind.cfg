SPECIFICATION WSpec
INVARIANT NoWindIsAirspeed
INVARIANT TriangleBounds
INVARIANT TailHead
INVARIANT Rotation
INVARIANT ExplicitHeadingWins
CHECK_DEADLOCK FALSE
