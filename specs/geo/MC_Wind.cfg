SPECIFICATION WSpec
INVARIANT NoWindIsAirspeed
INVARIANT TriangleBounds
INVARIANT TailHead
INVARIANT Rotation
INVARIANT ExplicitHeadingWins
INVARIANT LayoutIrrelevant
CHECK_DEADLOCK FALSE
