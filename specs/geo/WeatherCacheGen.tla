---------------------------- MODULE WeatherCacheGen ----------------------------
EXTENDS WeatherCache, Json
Emit == IF n < MaxQ THEN TRUE ELSE PrintT("@@" \o ToJson(answers)) /\ FALSE
=============================================================================
