------------------------------ MODULE WeatherCache ------------------------------
(***************************************************************************)
(* The dataset / time-slice cache of Weather (src/AEIC/weather.py,           *)
(* _require_main_ds / _require_data) as a history machine: one Weather       *)
(* object is queried for a sequence of (day, hour) instants; daily files may *)
(* or may not have a valid_time axis.  The wind used for a query must be the *)
(* wind of that day and hour, whatever was queried before.                   *)
(***************************************************************************)
EXTENDS Naturals, Sequences, TLC

CONSTANTS Days,        \* days with a weather file
          TimedDays,   \* those whose file has a 24-hour valid_time axis
          MissingDays, \* days without a weather file: a query for them is refused and leaves nothing open
          Hours, MaxQ

\* A timed file holds one step per hour from midnight and need not cover the whole day (the harness's day 2 ends at 12 h):
\* hour h is step h, whatever the length of the axis.
\* Minutes: an instant (day, hour, minute) belongs to the hour that has begun - 14:45 is answered from the field of
\* 14 h like 14:00 (the minute is not a variable of the machine; the harness spreads 0, 29, 30, 45, 59 over the queries)
\* the wind (an integer tag) a file holds: per hour for timed files, one field otherwise
Field(d, h) == IF d \in TimedDays THEN 100 * d + h ELSE 100 * d + 99

VARIABLES mainDay, mainHourOfOpen, slice, sliceHour, answers, n
wvars == <<mainDay, mainHourOfOpen, slice, sliceHour, answers, n>>
NoDay == 0
NoHour == 99

WInit == mainDay = NoDay /\ mainHourOfOpen = NoHour /\ slice = 0 /\ sliceHour = NoHour /\ answers = <<>> /\ n = 0

\* one query: (re)open the daily file when the day changes, which invalidates the slice;
\* (re)slice when the hour changes; answer from the slice
Query(d, h) ==
  LET reopen == mainDay # d
      sh == IF reopen THEN NoHour ELSE sliceHour
      needslice == (d \in TimedDays) /\ sh # h
      newslice == IF d \in TimedDays THEN (IF needslice \/ reopen THEN Field(d, h) ELSE slice) ELSE Field(d, h)
  IN /\ n < MaxQ
     /\ mainDay' = d /\ mainHourOfOpen' = (IF reopen THEN h ELSE mainHourOfOpen)
     /\ slice' = newslice
     /\ sliceHour' = IF d \in TimedDays THEN h ELSE NoHour
     /\ answers' = Append(answers, [d |-> d, h |-> h, wind |-> newslice, refused |-> FALSE])
     /\ n' = n + 1
\* a day without a file: the open fails after the previous file was closed - nothing is open afterwards
Refuse(d, h) ==
  /\ n < MaxQ
  /\ mainDay' = NoDay /\ mainHourOfOpen' = NoHour /\ slice' = 0 /\ sliceHour' = NoHour
  /\ answers' = Append(answers, [d |-> d, h |-> h, wind |-> 0, refused |-> TRUE])
  /\ n' = n + 1
Ask(d, h) == IF d \in MissingDays THEN Refuse(d, h) ELSE Query(d, h)
WNext == \E d \in Days \cup MissingDays, h \in Hours : Ask(d, h)
\* family "repeat after refusal": any query, a refused one, the SAME refused one again, any query
FamNext == \/ n \in {0, 3} /\ WNext
           \/ n = 1 /\ \E d \in MissingDays, h \in Hours : Ask(d, h)
           \/ n = 2 /\ Ask(answers[2].d, answers[2].h)
FSpec == WInit /\ [][FamNext]_wvars
WSpec == WInit /\ [][WNext]_wvars

\* every answer is the wind of its own day and hour
HistoryIndependent == \A i \in DOMAIN answers :
                          IF answers[i].d \in MissingDays THEN answers[i].refused
                          ELSE ~answers[i].refused /\ answers[i].wind = Field(answers[i].d, answers[i].h)
=============================================================================
