SPECIFICATION WSpec
CONSTRAINT Emit
CHECK_DEADLOCK FALSE
