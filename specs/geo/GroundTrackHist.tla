---------------------------- MODULE GroundTrackHist ----------------------------
EXTENDS Integers, Sequences, TLC, Json
G == INSTANCE GroundTrack WITH c <- 0, o <- 0, st <- 0
Cum(L, k) == G!Cum(L, k)
Total(L) == G!Total(L)
Out(x) == G!Out(x)
LegSets == G!LegSets
(* History machine: one GroundTrack object answers a sequence of queries.    *)
(* The object has no state besides its waypoints, so every answer is the     *)
(* stateless Out of the query, whatever was asked before (builders walk      *)
(* forwards; resampling and weather lookups do not).  Design = "resume"      *)
(* models a waypoint search that resumes from the position found by the      *)
(* previous lookup (negative control: TLC finds a later-then-earlier pair).  *)
CONSTANTS Design, D, HLegSets, HOps
VARIABLES trk, hist, pos
hvars == <<trk, hist, pos>>
\* bisect_left on the cumulative index, started at waypoint position p
AfterFrom(L, d, p) == IF d <= Cum(L, p) THEN p ELSE CHOOSE k \in (p + 1)..Len(L) : Cum(L, k - 1) < d /\ d <= Cum(L, k)
\* (locations up to two units beyond the end: refused - a refusal leaves the object as it was)
Queries(L) == [op : HOps \cap {"location"}, a : 0..(Total(L) + 2), b : {0}] \cup [op : HOps \cap {"step"}, a : 0..Total(L), b : {0, 1, 3}]
Q(t, q) == [legs |-> t.legs, over |-> t.over, op |-> q.op, a |-> q.a, b |-> q.b]
\* the answer of the modelled object: leg = the waypoint found by the search
Target(q) == IF q.op = "location" THEN q.a ELSE q.a + q.b
Answer(t, q, p) ==
  LET oo == Out(Q(t, q)) IN
  IF oo.refused \/ Design = "stateless" \/ Target(q) > Total(t.legs) \/ Target(q) = 0 THEN oo
  ELSE LET k == AfterFrom(t.legs, Target(q), p) IN [refused |-> FALSE, leg |-> k, off |-> Target(q) - Cum(t.legs, k - 1)]
NewPos(t, q, p) == IF Design = "stateless" \/ Out(Q(t, q)).refused \/ Target(q) > Total(t.legs) THEN p
                   ELSE IF Target(q) = 0 THEN 0 ELSE AfterFrom(t.legs, Target(q), p)
HInit == trk \in [legs : HLegSets, over : BOOLEAN] /\ hist = <<>> /\ pos = 0
Ask(q) == /\ Len(hist) < D
          /\ hist' = Append(hist, [q |-> q, o |-> Answer(trk, q, pos)])
          /\ pos' = NewPos(trk, q, pos)
          /\ UNCHANGED trk
HNext == \E q \in Queries(trk.legs) : Ask(q)
HSpec == HInit /\ [][HNext]_hvars
HistoryIndependent == \A i \in 1..Len(hist) : hist[i].o = Out(Q(trk, hist[i].q))
MultiLeg == {L \in LegSets : Len(L) > 1}
LocationOnly == {"location"}
BothOps == {"location", "step"}

\* family "repeat after refusal": any query, then a refused query, then the SAME refused query again (and a
\* fourth, arbitrary one): the repeated request is refused like the first one
FamNext == \/ Len(hist) \in {0, 1, 3} /\ HNext /\ (Len(hist) = 1 => hist'[2].o.refused)
           \/ Len(hist) = 2 /\ Ask(hist[2].q)
FSpec == HInit /\ [][FamNext]_hvars
RepeatedRefusalIsRefused == Len(hist) >= 3 => hist[3].o.refused
\* histories: every sequence of D queries (exhaustive), or random walks
HEmit == IF Len(hist) < D THEN TRUE ELSE PrintT("@@" \o ToJson([trk |-> trk, hist |-> hist])) /\ FALSE
RandQ(n) == RandomElement(Queries(trk.legs))
WNext == \E q \in {RandQ(Len(hist))} : Ask(q)
WSpec == HInit /\ [][WNext]_hvars
=============================================================================
