SPECIFICATION FSpec
CONSTANTS
  Days = {1, 2, 3}
  TimedDays = {1, 2}
  MissingDays = {4}
  Hours = {6, 12}
  MaxQ = 4
INVARIANT HistoryIndependent
CONSTRAINT Emit
CHECK_DEADLOCK FALSE
