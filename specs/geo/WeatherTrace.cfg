SPECIFICATION TSpec
CONSTANTS
  Days <- TrDays
  TimedDays <- TrTimed
  MissingDays <- TrMissing
  Hours <- TrHours
  MaxQ = 100000
CONSTRAINT Furthest
INVARIANT HistoryIndependent
POSTCONDITION Post
CHECK_DEADLOCK FALSE
