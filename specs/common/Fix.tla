--------------------------------- MODULE Fix ---------------------------------
(***************************************************************************)
(* Fixed-point arithmetic for TLC with six decimal places: the number x is   *)
(* the integer round(x * 10^6).  TLC integers are 32 bit, so products and    *)
(* quotients are formed digit group by digit group; operands of FMul must    *)
(* stay below 40 in magnitude, divisors of FDiv below 21.  FExp / FLn / FPow *)
(* are evaluated by range reduction and series; every operation truncates    *)
(* by at most a few 10^-6, results of the compositions used in the           *)
(* specifications are good to about 10^-5 relative (the harness compares     *)
(* with 10^-4).  This puts the published transcendental equations            *)
(* (barometric formula, FFM2 theta/delta factors, humidity correction)       *)
(* within reach of TLC as numbers, not only as shapes.                       *)
(***************************************************************************)
EXTENDS Integers
FOne == 1000000
FAbs(x) == IF x < 0 THEN -x ELSE x
FSgn(x) == IF x < 0 THEN -1 ELSE 1
\* non-negative operands, a, b < 40 * 10^6
\* (exactly rounded: a b = a1 b1 10^6 + t 10^3 + a0 b0 with t = a1 b0 + a0 b1)
FMulP(a, b) == LET a1 == a \div 1000  a0 == a % 1000  b1 == b \div 1000  b0 == b % 1000
                   t == a1 * b0 + a0 * b1
               IN a1 * b1 + t \div 1000 + ((t % 1000) * 1000 + a0 * b0 + 500000) \div 1000000
FMul(a, b) == FSgn(a) * FSgn(b) * FMulP(FAbs(a), FAbs(b))
\* a / b for 0 <= a, 0 < b < 21 * 10^6: long division, two decimal digits at a time
FDivP(a, b) == LET q0 == a \div b              r0 == a % b
                   q1 == (r0 * 100) \div b     r1 == (r0 * 100) % b
                   q2 == (r1 * 100) \div b     r2 == (r1 * 100) % b
                   q3 == (r2 * 100) \div b
               IN q0 * 1000000 + q1 * 10000 + q2 * 100 + q3
FDiv(a, b) == FSgn(a) * FSgn(b) * FDivP(FAbs(a), FAbs(b))
\* integer / fixed helpers
FInt(n) == n * FOne
FRat(n, d) == FDiv(FInt(n), FInt(d))          \* small n, d only

\* rounded division of a fixed-point number by a small positive integer
RDiv(v, k) == FSgn(v) * ((FAbs(v) + k \div 2) \div k)
\* exp(y) for |y| <= 1 by Horner on 15 Taylor terms
RECURSIVE ExpH(_, _)
ExpH(y, k) == IF k = 16 THEN FOne ELSE FOne + RDiv(FMul(y, ExpH(y, k + 1)), k)
ExpSmall(y) == ExpH(y, 1)
\* exp(x) for -16 <= x <= 3.6: exp(x) = exp(x / 4)^4, below -4 exp(x / 16)^16
Sq2(v) == FMul(v, v)
FExp(x) == IF FAbs(x) <= 4 * FOne THEN Sq2(Sq2(ExpSmall(RDiv(x, 4)))) ELSE Sq2(Sq2(Sq2(Sq2(ExpSmall(RDiv(x, 16))))))

\* ln(y) for y > 0: bring y into [1/2, 1] by doublings / halvings, then 2 atanh((y-1)/(y+1))
FLn2 == 693147
RECURSIVE AtanhS(_, _, _, _)
\* sum_{k odd <= 41} z^k / k with z2 = z^2, zk = z^k
AtanhS(zk, z2, k, acc) == IF k > 41 \/ zk = 0 THEN acc ELSE AtanhS(FMul(zk, z2), z2, k + 2, acc + RDiv(zk, k))
LnUnit(y) == LET z == FDiv(y - FOne, y + FOne) IN 2 * AtanhS(z, FMul(z, z), 1, 0)
RECURSIVE FLnR(_, _)
FLnR(y, shift) == IF y > FOne THEN FLnR(y \div 2, shift + 1)
                  ELSE IF y < 500000 THEN FLnR(y * 2, shift - 1)
                  ELSE LnUnit(y) + shift * FLn2
FLn(y) == FLnR(y, 0)
FLn10 == 2302585
FLog10(y) == FDiv(FLn(y), FLn10)
\* y^p = exp(p ln y), 10^x = exp(x ln 10)
FPow(y, p) == FExp(FMul(p, FLn(y)))
FPow10(x) == FExp(FMul(x, FLn10))
FSqrt(y) == FExp(RDiv(FLn(y), 2))
=============================================================================
