--------------------------------- MODULE Rat ---------------------------------
(* Exact rational arithmetic for TLC: a rational is <<n, d>> with d > 0 and    *)
(* gcd(|n|, d) = 1.  All lattices in the specifications are chosen so that     *)
(* numerators and denominators stay far below 2^31.                            *)
EXTENDS Integers
Abs(x) == IF x < 0 THEN -x ELSE x
RECURSIVE Gcd(_, _)
Gcd(a, b) == IF b = 0 THEN a ELSE Gcd(b, a % b)
Norm(n, d) == LET s == IF d < 0 THEN -1 ELSE 1
                  g == Gcd(Abs(n), Abs(d))
              IN IF n = 0 THEN <<0, 1>> ELSE <<(s * n) \div g, (s * d) \div g>>
R(n, d) == Norm(n, d)
I(n) == <<n, 1>>
Add(a, b) == Norm(a[1] * b[2] + b[1] * a[2], a[2] * b[2])
Sub(a, b) == Norm(a[1] * b[2] - b[1] * a[2], a[2] * b[2])
Mul(a, b) == Norm(a[1] * b[1], a[2] * b[2])
Div(a, b) == Norm(a[1] * b[2], a[2] * b[1])
Neg(a) == <<-a[1], a[2]>>
Lt(a, b) == a[1] * b[2] < b[1] * a[2]
Le(a, b) == a[1] * b[2] <= b[1] * a[2]
Eq(a, b) == a[1] * b[2] = b[1] * a[2]
RMin(a, b) == IF Le(a, b) THEN a ELSE b
RMax(a, b) == IF Le(a, b) THEN b ELSE a
Sq(a) == Mul(a, a)
IsNeg(a) == a[1] < 0
=============================================================================
