SPECIFICATION TSpec
CONSTANTS
  NCs = {2}
  NZs = {2}
  NDs = {2}
  Block = 50
  Handover = "last_stored"
CONSTRAINT Furthest
INVARIANT Monotone
INVARIANT PhaseGrammar
POSTCONDITION Post
CHECK_DEADLOCK FALSE
