----------------------------- MODULE LegacyFlight -----------------------------
(***************************************************************************)
(* The legacy trajectory builder (src/AEIC/trajectories/builders/legacy.py,  *)
(* Container.make_point/_expand_capacity in src/AEIC/storage/container.py)   *)
(* as the code runs it: a working point mutated in place and appended to a   *)
(* growable buffer (blocks of 50), three phases, hand-over by taking the     *)
(* last STORED point.                                                        *)
(*                                                                          *)
(* A point is abstracted to the vector of segment burns it has accumulated:  *)
(* c climb segments, z1 first-cruise segments (the first cruise segment is   *)
(* flown at the airspeed handed over from the climb), z later cruise         *)
(* segments, d descent segments; plus its altitude level <<phase, step>>.    *)
(* Time, distance, fuel burn are linear in those counts for a phase-constant *)
(* performance table, which is how the harness scales a predicted point.     *)
(***************************************************************************)
EXTENDS Naturals, Sequences, TLC

CONSTANTS NCs, NZs, NDs,   \* admissible numbers of points per phase
          Block,           \* growth block of the container (50)
          Handover         \* "last_stored" (correct) | "buffer_end" (defective variant)

Pt(c, z1, z, d, lv) == [c |-> c, z1 |-> z1, z |-> z, d |-> d, lv |-> lv]
Zero == Pt(0, 0, 0, 0, <<"climb", 0>>)

VARIABLES nC, nZ, nD,   \* points per phase of this flight
          phase,        \* "climb" | "cruise" | "descent" | "done"
          k,            \* iteration within the phase
          pt,           \* working point
          buf,          \* raw buffer (Seq of capacity many slots)
          size          \* number of valid points
fvars == <<nC, nZ, nD, phase, k, pt, buf, size>>

Cap == Len(buf)
Valid == SubSeq(buf, 1, size)
Blank == [p |-> Zero, ph |-> "none"]

FInit == /\ nC \in NCs /\ nZ \in NZs /\ nD \in NDs
         /\ phase = "climb" /\ k = 0 /\ pt = Zero
         /\ buf = [i \in 1..Block |-> Blank] /\ size = 0

\* append the working point, growing the buffer by one block when full
\* (np.resize pads with repeated data; the padding is never valid data)
Store(ph) ==
  LET grown == IF size = Cap THEN buf \o [i \in 1..Block |-> Blank] ELSE buf
  IN /\ buf' = [grown EXCEPT ![size + 1] = [p |-> pt, ph |-> ph]]
     /\ size' = size + 1

Taken == IF Handover = "last_stored" THEN buf[size].p ELSE buf[Cap].p

ClimbStep ==
  /\ phase = "climb" /\ k < nC
  /\ Store("climb")
  /\ pt' = IF k = nC - 1 THEN pt
           ELSE [pt EXCEPT !.c = @ + 1, !.lv = <<"climb", k + 1>>]
  /\ k' = k + 1
  /\ UNCHANGED <<nC, nZ, nD, phase>>
ToCruise ==
  /\ phase = "climb" /\ k = nC
  /\ pt' = [Taken EXCEPT !.lv = <<"cruise", 0>>]
  /\ phase' = "cruise" /\ k' = 0
  /\ UNCHANGED <<nC, nZ, nD, buf, size>>
CruiseStep ==
  /\ phase = "cruise" /\ k < nZ
  /\ Store("cruise")
  /\ pt' = IF k = 0 THEN [pt EXCEPT !.z1 = 1] ELSE [pt EXCEPT !.z = @ + 1]
  /\ k' = k + 1
  /\ UNCHANGED <<nC, nZ, nD, phase>>
ToDescent ==
  /\ phase = "cruise" /\ k = nZ
  /\ pt' = [Taken EXCEPT !.lv = <<"descent", 0>>]
  /\ phase' = "descent" /\ k' = 0
  /\ UNCHANGED <<nC, nZ, nD, buf, size>>
DescentStep ==
  /\ phase = "descent" /\ k < nD
  /\ Store("descent")
  /\ pt' = IF k = nD - 1 THEN pt
           ELSE [pt EXCEPT !.d = @ + 1, !.lv = <<"descent", k + 1>>]
  /\ k' = k + 1
  /\ UNCHANGED <<nC, nZ, nD, phase>>
Finish ==
  /\ phase = "descent" /\ k = nD
  /\ phase' = "done"
  /\ UNCHANGED <<nC, nZ, nD, k, pt, buf, size>>

FNext == ClimbStep \/ ToCruise \/ CruiseStep \/ ToDescent \/ DescentStep \/ Finish
FSpec == FInit /\ [][FNext]_fvars

-----------------------------------------------------------------------------
Burns(p) == p.c + p.z1 + p.z + p.d
\* bookkeeping never runs backwards
Monotone == \A i \in 1..(size - 1) : Burns(buf[i + 1].p) >= Burns(buf[i].p)
\* first cruise point = last climb point, first descent point = last cruise point
HandoverContinuity ==
  /\ (size > nC /\ nC >= 1) =>
        /\ buf[nC + 1].ph = "cruise"
        /\ Burns(buf[nC + 1].p) = Burns(buf[nC].p) /\ buf[nC + 1].p.c = nC - 1
  /\ (size > nC + nZ) =>
        /\ buf[nC + nZ + 1].ph = "descent"
        /\ Burns(buf[nC + nZ + 1].p) = Burns(buf[nC + nZ].p)
PhaseGrammar == \A i \in 1..size :
     buf[i].ph = (IF i <= nC THEN "climb" ELSE IF i <= nC + nZ THEN "cruise" ELSE "descent")
ClimbLevels == \A i \in 1..size : i <= nC => buf[i].p.lv = <<"climb", i - 1>>
Complete == phase = "done" => size = nC + nZ + nD
\* what the finished flight must look like, point by point
Expected(i) ==
  IF i <= nC THEN Pt(i - 1, 0, 0, 0, <<"climb", i - 1>>)
  ELSE IF i <= nC + nZ THEN
       LET j == i - nC - 1 IN Pt(nC - 1, IF j >= 1 THEN 1 ELSE 0, IF j >= 2 THEN j - 1 ELSE 0, 0, <<"cruise", 0>>)
  ELSE LET j == i - nC - nZ - 1 IN
       Pt(nC - 1, IF nZ >= 2 THEN 1 ELSE 0, IF nZ >= 3 THEN nZ - 2 ELSE 0, j, <<"descent", j>>)
FlightIsExpected == phase = "done" => \A i \in 1..size : buf[i].p = Expected(i)
=============================================================================
