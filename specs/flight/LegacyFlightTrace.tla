-------------------------- MODULE LegacyFlightTrace --------------------------
(* Trace validation: a trajectory returned by the real builder, projected     *)
(* point by point to (phase, altitude trend, bookkeeping predicates), must be  *)
(* a run of LegacyFlight in which every per-point predicate of property C02    *)
(* holds.                                                                      *)
EXTENDS LegacyFlight, Json, IOUtils, TLCExt
\* BuilderUse: the trace of a flight is a function of the mission and the performance model; the builder object that flies
\* it may be new or may have just flown the return leg of the same route (the harness alternates) - the origin of THIS
\* flight is where it starts and every position lies on ITS great circle

AllTraces == ndJsonDeserialize(IOEnv.TRACE_FILE)
ASSUME \A i \in 1..Len(AllTraces) : TLCSet(i, 0)
VARIABLES l, tid
tvars == <<fvars, l, tid>>
Tr == AllTraces[tid].ev
Ev == Tr[l]

TInit == /\ tid \in 1..Len(AllTraces) /\ Tr[1].op = "begin"
         /\ nC = Tr[1].nC /\ nZ = Tr[1].nZ /\ nD = Tr[1].nD
         /\ phase = "climb" /\ k = 0 /\ pt = Zero
         /\ buf = [i \in 1..Block |-> Blank] /\ size = 0
         /\ l = 2

\* bookkeeping predicates that must hold at every point
Sound == /\ Ev.bal       \* aircraft mass - fuel mass = constant
         /\ Ev.mnd       \* fuel and aircraft mass did not increase
         /\ Ev.tnd       \* time did not decrease
         /\ Ev.dnd       \* ground distance did not decrease
         /\ Ev.ontrack   \* position on the great circle at the recorded distance
         /\ Ev.finite
         /\ Ev.ceil      \* not above cruise level / ceiling
First == size = 0
TClimb == /\ Ev.ph = "climb" /\ ClimbStep
          /\ Ev.da \in (IF First THEN {"first"} ELSE {"up", "level"})
          /\ ~Ev.dup \/ Ev.da = "level"
TCruise == /\ Ev.ph = "cruise" /\ CruiseStep
           /\ Ev.da = "level"
           /\ (k = 0) => Ev.handover         \* first cruise point repeats the last climb point (later repeats: a zero-length step)
TDescent == /\ Ev.ph = "descent" /\ DescentStep
            /\ Ev.da \in {"down", "level"}
            /\ (k = 0) => Ev.handover        \* first descent point repeats the last cruise point
            /\ (Ev.dup /\ k # 0) => Ev.da = "level"   \* any other repeated point is a zero-length step (descent to the cruise level itself)
TPoint == /\ l <= Len(Tr) /\ Ev.op = "pt" /\ Sound
          /\ (TClimb \/ TCruise \/ TDescent)
          /\ l' = l + 1 /\ UNCHANGED tid
TSilent == (ToCruise \/ ToDescent \/ Finish) /\ UNCHANGED <<l, tid>>
TEnd == /\ l <= Len(Tr) /\ Ev.op = "end" /\ phase = "done"
        /\ Ev.start_ok /\ Ev.startalt_ok /\ Ev.endalt_ok /\ Ev.counts_ok
        /\ l' = l + 1 /\ UNCHANGED <<fvars, tid>>
TNext == TPoint \/ TSilent \/ TEnd
TSpec == TInit /\ [][TNext]_tvars

Furthest == TLCSet(tid, IF TLCGet(tid) < l THEN l ELSE TLCGet(tid))
Post == /\ \A i \in 1..Len(AllTraces) :
              \/ TLCGet(i) = Len(AllTraces[i].ev) + 1
              \/ PrintT(<<"REJECTED", AllTraces[i].t,
                          IF TLCGet(i) = 0 THEN 0 ELSE TLCGet(i) - 1, Len(AllTraces[i].ev)>>)
        /\ PrintT("TRACEVALIDATION-DONE")
=============================================================================
