--------------------------- MODULE LegacyFlightGen ---------------------------
EXTENDS LegacyFlight, Json
Emit == phase = "done" =>
   PrintT("@@" \o ToJson([nC |-> nC, nZ |-> nZ, nD |-> nD,
      pts |-> [i \in 1..size |-> [ph |-> buf[i].ph, c |-> buf[i].p.c, z1 |-> buf[i].p.z1,
                                   z |-> buf[i].p.z, d |-> buf[i].p.d, k |-> buf[i].p.lv[2]]]]))
=============================================================================
