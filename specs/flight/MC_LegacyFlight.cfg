SPECIFICATION FSpec
CONSTANTS
  NCs = {2, 3, 49, 50, 51, 100, 101}
  NZs = {2, 3, 50, 51, 99}
  NDs = {2, 3, 50, 52, 101}
  Block = 50
  Handover = "last_stored"
INVARIANT Monotone
INVARIANT HandoverContinuity
INVARIANT PhaseGrammar
INVARIANT ClimbLevels
INVARIANT Complete
INVARIANT FlightIsExpected
CHECK_DEADLOCK FALSE
