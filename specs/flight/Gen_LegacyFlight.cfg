SPECIFICATION FSpec
CONSTANTS
  NCs = {2, 3, 7, 49, 50, 51, 100}
  NZs = {2, 3, 26, 50, 51}
  NDs = {2, 3, 25, 51, 52, 101}
  Block = 50
  Handover = "last_stored"
CONSTRAINT Emit
CHECK_DEADLOCK FALSE
