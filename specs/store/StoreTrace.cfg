SPECIFICATION TSpec
CONSTANTS
  Payloads = {"p"}
  Ids = {1}
  MaxItems = 100000
  Cap = 100000
CONSTRAINT Furthest
INVARIANT CacheCoherent
INVARIANT NextIsCount
INVARIANT KnownAllOrNone
POSTCONDITION Post
CHECK_DEADLOCK FALSE
