------------------------------ MODULE StoreTrace ------------------------------
(***************************************************************************)
(* Trace validation for TrajectoryStore: executions of the real code (the    *)
(* repository's storage / emissions-storage / trajectory tests, and the      *)
(* harness's own drivers) are recorded per store file as public-call events  *)
(* and must be behaviours of Store.  Payloads are content digests.  A trace  *)
(* may start with an already existing file whose contents are unknown        *)
(* (digest "?"): the first read of such an item fixes its value, later reads *)
(* must agree.                                                               *)
(***************************************************************************)
EXTENDS Store, Json, IOUtils, TLCExt

AllTraces == ndJsonDeserialize(IOEnv.TRACE_FILE)
ASSUME \A i \in 1..Len(AllTraces) : TLCSet(i, 0)
VARIABLES l, tid
tvars == <<vars, l, tid>>
Tr == AllTraces[tid].ev
Ev == Tr[l]
Unknown == "?"
UItem == Item(Unknown, 999999)

\* a trace starts either with a fresh store (create / in-memory) or by opening a pre-existing file
Pre == Tr[1].op = "open" /\ Tr[1].mode \in {"read", "append"} /\ Tr[1].ok = "yes"
TInit == /\ tid \in 1..Len(AllTraces) /\ Len(Tr) >= 1
         /\ exists = Pre
         /\ disk = IF Pre THEN [i \in 1..Tr[1].n |-> UItem] ELSE <<>>
         /\ idxTab = {} /\ mode = "closed" /\ cache = <<>> /\ next = 0 /\ pending = FALSE
         /\ indexable = "undecided" /\ stale = FALSE
         /\ added = IF Pre THEN [i \in 1..Tr[1].n |-> UItem] ELSE <<>>
         /\ last = Reply("init", "-", "yes", "-")
         /\ l = 1

Consume(A) == l <= Len(Tr) /\ A /\ l' = l + 1 /\ UNCHANGED tid
Like(spec, seen) == spec.p = Unknown \/ (spec.p = seen.p /\ spec.id = seen.id)

\* opening: for a pre-existing file the identifier state is taken from the observation
TOpen ==
  /\ Ev.op = "open"
  /\ CASE Ev.mode = "create" -> \/ Create /\ last'.ok = Ev.ok
                                \/ Ev.ok = "no" /\ mode = "closed" /\ UNCHANGED state /\ last' = Reply("create", "-", "no", "refused")
       [] Ev.mode = "mem" -> \/ Ev.ok = "yes" /\ CreateMem
                             \/ Ev.ok = "no" /\ mode = "closed" /\ UNCHANGED state /\ last' = Reply("createmem", "-", "no", "refused")
       [] OTHER -> /\ mode = "closed"
                   /\ IF Ev.ok = "no" THEN (~exists /\ OpenAs(Ev.mode)) \/ (UNCHANGED state /\ last' = Reply("open", Ev.mode, "no", "refused"))
                      ELSE /\ exists /\ Len(disk) = Ev.n
                           /\ mode' = Ev.mode /\ pending' = FALSE /\ next' = Len(disk) /\ cache' = <<>>
                           /\ indexable' = IF disk # <<>> /\ disk[1].p = Unknown THEN Ev.ix ELSE DiskIndexable
                           /\ stale' = FALSE /\ added' = disk
                           /\ last' = Reply("open", Ev.mode, "yes", Len(disk))
                           /\ UNCHANGED <<exists, disk, idxTab>>
\* a session that was never closed (e.g. a test that expects an exception) is abandoned
TAbandon == /\ l <= Len(Tr) /\ Ev.op = "open" /\ mode # "closed"
            /\ mode' = "closed" /\ cache' = <<>>
            /\ UNCHANGED <<exists, disk, idxTab, next, pending, indexable, stale, added, last, l, tid>>
TAdd ==
  /\ Ev.op = "add"
  /\ IF Ev.ok = "yes"
     THEN Add(Ev.p, Ev.id) /\ last'.ok = "yes" /\ last'.val = Ev.ret
     ELSE \/ (\E k \in RejectKinds : AddRejected(k))
          \/ AddReadOnly
          \/ (Add(Ev.p, Ev.id) /\ last'.ok = "no")
          \/ (Writable /\ ~IdOk(Ev.id) /\ UNCHANGED state /\ last' = Reply("addbad", "id", "no", "-"))
TGet ==
  /\ Ev.op = "get"
  /\ IF Ev.ok = "yes" /\ Ev.i < Len(added) /\ Ev.i >= 0 /\ added[Ev.i + 1].p = Unknown
     THEN \* first read of an item of a pre-existing file: learn it
          /\ Open
          /\ added' = [added EXCEPT ![Ev.i + 1] = Item(Ev.p, Ev.id)]
          /\ disk' = [disk EXCEPT ![Ev.i + 1] = Item(Ev.p, Ev.id)]
          /\ cache' = [j \in (DOMAIN cache) \ {Ev.i} |-> cache[j]]
          /\ last' = Reply("get", Ev.i, "yes", Item(Ev.p, Ev.id))
          /\ UNCHANGED <<exists, idxTab, mode, next, pending, indexable, stale>>
     ELSE /\ Ev.i >= 0 /\ Get(Ev.i) /\ last'.ok = Ev.ok
          /\ (Ev.ok = "yes" => last'.val = Item(Ev.p, Ev.id))
\* "fully identified or not at all" over the items whose contents are known (the items of a pre-existing file are
\* placeholders until they are read for the first time)
KnownAllOrNone == \A a, b \in Range(added) : (a.p # Unknown /\ b.p # Unknown) => ((a.id = NoId) <=> (b.id = NoId))
TLen == Ev.op = "len" /\ LenOp /\ last'.val = Ev.n
TClose == Ev.op = "close" /\ Close
TSync == Ev.op = "sync" /\ Sync /\ last'.ok = Ev.ok
TSave == Ev.op = "save" /\ Ev.ok = "yes" /\ Save
TGetFlight ==
  /\ Ev.op = "getflight"
  /\ IF \E j \in DOMAIN added : added[j].p = Unknown
     THEN UNCHANGED state /\ last' = Reply("getflight", Ev.id, Ev.ok, "-")     \* contents unknown: not checked
     ELSE GetFlight(Ev.id) /\ last'.ok = Ev.ok
          /\ (Ev.ok = "yes" => (last'.val.p = Ev.p /\ (Ev.p # "none" => last'.val.id = Ev.id)))
TNext == TAbandon \/ Consume(TOpen \/ TAdd \/ TGet \/ TLen \/ TClose \/ TSync \/ TSave \/ TGetFlight)
TSpec == TInit /\ [][TNext]_tvars

Furthest == TLCSet(tid, IF TLCGet(tid) < l THEN l ELSE TLCGet(tid))
Post == /\ \A i \in 1..Len(AllTraces) :
              \/ TLCGet(i) = Len(AllTraces[i].ev) + 1
              \/ PrintT(<<"REJECTED", AllTraces[i].t,
                          IF TLCGet(i) = 0 THEN 0 ELSE TLCGet(i) - 1, Len(AllTraces[i].ev)>>)
        /\ PrintT("TRACEVALIDATION-DONE")
=============================================================================
