SPECIFICATION TSpec
CONSTANTS
  MaxInputs = 3
  MaxSize = 3
CONSTRAINT Furthest
INVARIANT NothingLost
INVARIANT MetaImpliesComplete
INVARIANT RefusalIsClean
INVARIANT DoneIsComplete
INVARIANT MovedIsPrefix
POSTCONDITION Post
CHECK_DEADLOCK FALSE
