SPECIFICATION ASpec
CONSTRAINT Emit
CHECK_DEADLOCK FALSE
