SPECIFICATION FSpec
CONSTANTS
  Payloads = {1, 2}
  Ids = {1, 2, 3}
  MaxItems = 4
  Cap = 99
  D = 3
  Starts = {6}
CONSTRAINT FEmit
CHECK_DEADLOCK FALSE
