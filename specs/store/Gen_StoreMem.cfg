SPECIFICATION FSpec
CONSTANTS
  Payloads = {1, 2}
  Ids = {1, 2, 3}
  MaxItems = 4
  Cap = 2
  D = 3
  Starts = {4}
CONSTRAINT FEmit
CHECK_DEADLOCK FALSE
