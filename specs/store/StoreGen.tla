------------------------------ MODULE StoreGen ------------------------------
(* Behaviour generators for Store: (a) every history of depth D from a few   *)
(* start states, (b) seeded random walks for -simulate.  Each behaviour is    *)
(* printed as one JSON line and replayed on real NetCDF files.                *)
EXTENDS Store, Json
CONSTANTS D, Starts
VARIABLES hist, start

gvars == <<vars, hist, start>>

Two(i1, i2) == <<Item(1, i1), Item(2, i2)>>
StartDisk(s) == CASE s = 0 -> <<>>
                  [] s = 1 -> Two(NoId, NoId)     \* unidentified file
                  [] s = 2 -> Two(3, 1)           \* identified, ids not ascending
                  [] s = 3 -> Two(NoId, NoId)     \* unidentified file whose trajectories carry a second field set
\* the field sets every trajectory of the behaviour carries; a "fieldset_mismatch"
\* addition carries the other flavour: one field set too many (base) or one too few (extras)
Flavour(s) == IF s \in {3, 6} THEN "extras" ELSE "base"
\* families with a forced prologue (see FSpec below): 4 = an in-memory store filled to the capacity of its
\* cache, 5 = an identified file opened for appending; their file-system start is that of 0 resp. 2
Base(s) == CASE s = 4 -> 0 [] s = 5 -> 2 [] s = 6 -> 0 [] OTHER -> s
GInit ==
  /\ start \in Starts
  /\ hist = <<>>
  /\ exists = (Base(start) # 0) /\ disk = StartDisk(Base(start))
  /\ idxTab = IF Base(start) = 2 THEN Reindexed(StartDisk(2)) ELSE {}
  /\ mode = "closed" /\ cache = <<>> /\ next = 0 /\ pending = FALSE
  /\ indexable = "undecided" /\ stale = FALSE
  /\ added = StartDisk(Base(start))
  /\ last = Reply("init", "-", "yes", "-")

\* How the abstract identifiers are rendered as 64-bit flight identifiers on the real store: as themselves, or as
\* neighbours around a 19-digit composite key (consecutive integers that a float64 cannot tell apart).  Lookup
\* is by exact identifier whatever the rendering; one rendering per behaviour, spread over the behaviours
\* (the harness replays the lookup family under both).
\* ("zero_based": the identifiers 1, 2, 3 ... are rendered 0, 1, 2 ... - the flight identifier 0 is one like any other;
\*  "signed": they are rendered -1, 0, 1 ... - the identifier is a signed 64-bit integer, a negative one is looked up
\*  like any other, and an identified trajectory offered to an unidentified store carries the identifier 0 there)
IdRenderings == <<"small", "wide", "zero_based", "signed">>
IdRendering == IdRenderings[((Len(added) + Len(hist) + start) % 4) + 1]
\* How the sessions of a behaviour are started: through the factory methods (create / open / append) or through the
\* public constructor with the mode given as FileMode member or as its plain string value; one form per behaviour.
\* (The second form also leaves its sessions the way a `with` block does, the third hands indices and identifiers
\* over as numpy integers: forms of the same calls.)
\* (A `with` block may be left normally or through an exception raised by the code around the store: either way the
\* session is closed - Store.tla has one Close.  The second form alternates between the two.)
EntryForms == <<"factory", "constructor", "constructor_str">>
EntryForm == EntryForms[((Len(added) + 2 * Len(hist) + start) % 3) + 1]
\* What the trajectories of a behaviour carry in their float scalars: ordinary numbers, or ("nan_scalar") NaN in one of
\* the required ones of payload 2 - NaN is a value: such a trajectory is added, stored and read back
\* ("late_fields": a trajectory with a second field set is made with the base fields only and gets the second set attached
\* afterwards - what it is when it is offered to the store counts, not how it came to be)
PayloadForms == <<"plain", "nan_scalar", "late_fields">>
PayloadForm == PayloadForms[((2 * Len(added) + Len(hist) + start) % 3) + 1]
Rec == [ev |-> last', n |-> Len(added'), ix |-> indexable']
GNext == Next /\ hist' = Append(hist, Rec) /\ UNCHANGED start
GSpec == GInit /\ [][GNext]_gvars

-----------------------------------------------------------------------------
(* random walk: the kind of call is drawn first (weighted), then its
   arguments among the enabled instances; if the drawn kind has no enabled
   instance a uniformly random enabled call is taken instead *)
Op(k, a, b) == [k |-> k, a |-> a, b |-> b]
Kinds == <<"add", "add", "add", "add", "add", "get", "get", "get", "get", "evict", "evict",
           "close", "close", "openr", "opena", "opena", "create", "createmem", "save", "sync",
           "len", "iter", "getflight", "getflight", "addbad", "addbad", "addro">>
Cand(k) ==
  CASE k = "add" -> {Op("add", p, i) : p \in Payloads, i \in {j \in Ids \cup {NoId} :
                         Writable /\ Len(added) < MaxItems /\ IdOk(j)}}
    [] k = "get" -> {Op("get", i, 0) : i \in {j \in 0..MaxItems : Open /\ j <= Len(added)
                         /\ (j >= Len(added) \/ j \in DOMAIN cache \/ FileBacked)}}
    [] k = "evict" -> {Op("evict", i, 0) : i \in {j \in 0..MaxItems : FileBacked /\ j \in DOMAIN cache}}
    [] k = "close" -> IF Open THEN {Op("close", 0, 0)} ELSE {}
    [] k = "openr" -> IF mode = "closed" THEN {Op("openr", 0, 0)} ELSE {}
    [] k = "opena" -> IF mode = "closed" THEN {Op("opena", 0, 0)} ELSE {}
    [] k = "create" -> IF mode = "closed" THEN {Op("create", 0, 0)} ELSE {}
    [] k = "createmem" -> IF mode = "closed" THEN {Op("createmem", 0, 0)} ELSE {}
    [] k = "save" -> IF mode = "mem" /\ ~exists /\ added # <<>> THEN {Op("save", 0, 0)} ELSE {}
    [] k = "sync" -> IF Open THEN {Op("sync", 0, 0)} ELSE {}
    [] k = "len" -> IF Open THEN {Op("len", 0, 0)} ELSE {}
    [] k = "iter" -> IF Open THEN {Op("iter", 0, 0)} ELSE {}
    [] k = "getflight" -> {Op("getflight", i, 0) : i \in {j \in Ids : FileBacked}}
    [] k = "addbad" -> {Op("addbad", r, 0) : r \in {q \in 1..7 : Writable
                          /\ (q \in {2, 4} => added # <<>>) /\ (q = 7 => Cap <= 2) /\ (q = 3 => indexable # "undecided")}}
    [] k = "addro" -> IF mode = "read" THEN {Op("addro", 0, 0)} ELSE {}
KindName(q) == CASE q = 1 -> "missing_required" [] q = 2 -> "fieldset_mismatch" [] q = 3 -> "id_inconsistent" [] q = 4 -> "fieldset_redefined" [] q = 5 -> "missing_required_other" [] q = 6 -> "missing_required_foreign" [] q = 7 -> "oversized"
Do(d) ==
  CASE d.k = "add" -> Add(d.a, d.b)
    [] d.k = "get" -> Get(d.a)
    [] d.k = "evict" -> Evict(d.a)
    [] d.k = "close" -> Close
    [] d.k = "openr" -> OpenAs("read")
    [] d.k = "opena" -> OpenAs("append")
    [] d.k = "create" -> Create
    [] d.k = "createmem" -> CreateMem
    [] d.k = "save" -> Save
    [] d.k = "sync" -> Sync
    [] d.k = "len" -> LenOp
    [] d.k = "iter" -> Iterate
    [] d.k = "getflight" -> GetFlight(d.a)
    [] d.k = "addbad" -> AddRejected(KindName(d.a))
    [] d.k = "addro" -> AddReadOnly
AllCand == UNION {Cand(Kinds[j]) : j \in 1..Len(Kinds)}
SimNext == \E j \in {RandomElement(1..Len(Kinds))} :
             LET c == Cand(Kinds[j]) IN
               IF c # {} THEN \E d \in {RandomElement(c)} : Do(d)
               ELSE \E d \in {RandomElement(AllCand)} : Do(d)
SNext == SimNext /\ hist' = Append(hist, Rec) /\ UNCHANGED start
SSpec == GInit /\ [][SNext]_gvars

\* families: a fixed prologue, then every continuation of D calls (family 5: over the lookup alphabet
\* look up an identifier / add with an identifier / sync only; family 4: add / save / len / iterate / get;
\* family 6: every kind of rejected addition / add / len on a newly created file)
Prologue(s) == CASE s = 4 -> <<Op("createmem", 0, 0), Op("add", 1, NoId), Op("add", 2, NoId)>>
                 [] s = 5 -> <<Op("opena", 0, 0)>>
                 [] s = 6 -> <<Op("create", 0, 0)>>       \* a new file whose trajectories will carry a second field set
                 [] OTHER -> <<>>
LookupCand == Cand("getflight") \cup {d \in Cand("add") : d.a = 1} \cup Cand("sync")
MemCand == Cand("add") \cup Cand("save") \cup Cand("len") \cup Cand("iter") \cup Cand("get") \cup {d \in Cand("addbad") : d.a = 7}
RejCand == Cand("addbad") \cup {d \in Cand("add") : d.a = 1} \cup Cand("len")
FamNext == IF Len(hist) < Len(Prologue(start)) THEN Do(Prologue(start)[Len(hist) + 1])
           ELSE IF start = 5 THEN \E d \in LookupCand : Do(d)
           ELSE IF start = 4 THEN \E d \in MemCand : Do(d)
           ELSE IF start = 6 THEN \E d \in RejCand : Do(d)
           ELSE Next
FNext == FamNext /\ hist' = Append(hist, Rec) /\ UNCHANGED start
FSpec == GInit /\ [][FNext]_gvars
FEmit == IF Len(hist) < Len(Prologue(start)) + D THEN TRUE
         ELSE PrintT("@@" \o ToJson([h |-> hist, start |-> Base(start), flavour |-> Flavour(start), idr |-> IdRendering, entry |-> EntryForm, payload |-> PayloadForm, added |-> added, disk |-> disk,
                                      open |-> (mode # "closed"), exists |-> exists])) /\ FALSE

Out == [h |-> hist, start |-> start, flavour |-> Flavour(start), idr |-> IdRendering, entry |-> EntryForm, payload |-> PayloadForm, added |-> added, disk |-> disk, open |-> (mode # "closed"), exists |-> exists]
Emit == IF Len(hist) < D THEN TRUE
        ELSE PrintT("@@" \o ToJson(Out)) /\ FALSE
=============================================================================
