------------------------------ MODULE MergeGen ------------------------------
(* Case generator for Merge: every list of input shapes, every fault point,  *)
(* both input forms, with/without associated stores; one JSON line per case   *)
(* with the expected verdict and the expected (part, local index) of every    *)
(* flat index of the merged store.                                            *)
EXTENDS Merge, Json
\* IdLayouts: the identifier ranges of the inputs may lie to each other in any way - each later input below the earlier one,
\* above it (consecutive slices of a mission database), or out of order at one seam and in order at the next; lookup in
\* the merged store is by identifier, whatever the layout.  (One layout per case, chosen by the harness from the case.)
IdLayouts == {"descending", "ascending", "mixed"}
VARIABLES fault, form, assoc, asplit
gvars == <<mvars, fault, form, assoc, asplit>>
Reversed(q) == [i \in 1..Len(q) |-> q[Len(q) + 1 - i]]
Steps(c) == IF Valid(c) THEN 2 + Len(c) + (IF Indexed(c) THEN 1 ELSE 0) ELSE 0
GInit == /\ MInit
         /\ fault \in 0..Steps(case)
         /\ form \in {"list", "pattern"}
         /\ assoc \in (IF Valid(case) /\ fault = 0 /\ case[1].fs = "A" THEN BOOLEAN ELSE {FALSE})
         \* the separately merged associated store is made of parts of the same sizes, or of the same flights
         \* split the other way round (sizes reversed): each merged store finds an index through its OWN size table
         /\ asplit \in (IF assoc /\ Sizes # Reversed(Sizes) THEN {"same", "resplit"} ELSE {"same"})
GNext == FALSE /\ UNCHANGED gvars
GSpec == GInit /\ [][GNext]_gvars
Expect == [i \in 1..Total |-> <<PartOf(i - 1), LocalOf(i - 1)>>]
\* Merge!Rebuild: the same stores merged again in reversed order into the same path - flat index -> (ORIGINAL part
\* number, local index).  Generated for explicit lists of at least two inputs without associated stores.
RebuildCase == Valid(case) /\ fault = 0 /\ form = "list" /\ ~assoc /\ N >= 2
RECURSIVE RevPrefix(_)
RevPrefix(k) == IF k = 0 THEN 0 ELSE RevPrefix(k - 1) + case[N + 1 - k].n      \* trajectories in the first k parts of the reversed list
RevPart(i) == CHOOSE k \in 1..N : RevPrefix(k - 1) <= i /\ i < RevPrefix(k)
Expect2 == [i \in 1..Total |-> <<N + 1 - RevPart(i - 1), (i - 1) - RevPrefix(RevPart(i - 1) - 1)>>]
Out == [ins |-> case, fault |-> fault, form |-> form, assoc |-> assoc, asplit |-> asplit, asizes |-> (IF asplit = "resplit" THEN Reversed(Sizes) ELSE Sizes),
        valid |-> Valid(case), indexed |-> Indexed(case), total |-> Total,
        expect |-> IF Valid(case) THEN Expect ELSE <<>>,
        \* overriding: a field set held by the base parts AND by separately merged associated parts (made later by
        \* create_associated with other values) is served by the base parts, with override = TRUE by the associated
        \* parts - for a merged store exactly as for single files.  Generated for inputs that carry a second field set.
        ovr |-> (Valid(case) /\ fault = 0 /\ case[1].fs = "B"),
        rebuild |-> RebuildCase, expect2 |-> IF RebuildCase THEN Expect2 ELSE <<>>]
Emit == PrintT("@@" \o ToJson(Out))
=============================================================================
