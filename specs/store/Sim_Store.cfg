SPECIFICATION SSpec
CONSTANTS
  Payloads = {1, 2, 3}
  Ids = {1, 2, 3, 7}
  MaxItems = 5
  Cap = 99
  D = 16
  Starts = {0, 1, 2, 3}
CONSTRAINT Emit
CHECK_DEADLOCK FALSE
