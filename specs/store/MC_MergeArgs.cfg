SPECIFICATION ASpec
INVARIANT FormIrrelevant
INVARIANT RefusalTouchesNothing
CHECK_DEADLOCK FALSE
