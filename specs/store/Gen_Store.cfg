SPECIFICATION GSpec
CONSTANTS
  Payloads = {1, 2}
  Ids = {1, 2, 3}
  MaxItems = 4
  Cap = 99
  D = 3
  Starts = {0, 1, 2, 3}
CONSTRAINT Emit
CHECK_DEADLOCK FALSE
