-------------------------------- MODULE Merge --------------------------------
(***************************************************************************)
(* TrajectoryStore.merge (src/AEIC/trajectories/store.py) as a step         *)
(* machine over the file system, with a fault that may abort it before any   *)
(* file-system step, and the reading semantics of the merged store.          *)
(*                                                                          *)
(* A case is a list of input stores [n |-> number of trajectories,           *)
(* ids |-> identified?, fs |-> field-set signature]; the merged store must   *)
(* read as the concatenation of the inputs in the order given.  Merge order: *)
(* validate everything (no side effects) -> mkdir -> move inputs in order -> *)
(* build id index (identified stores) -> write metadata last.                *)
(***************************************************************************)
EXTENDS Naturals, Sequences, FiniteSets, TLC

CONSTANTS MaxInputs, MaxSize

InputShapes == [n : 1..MaxSize, ids : BOOLEAN, fs : {"A", "B"}]
Cases == UNION {[1..k -> InputShapes] : k \in 1..MaxInputs}

Valid(c) == /\ \A a, b \in DOMAIN c : c[a].fs = c[b].fs
            /\ \A a, b \in DOMAIN c : c[a].ids = c[b].ids
Indexed(c) == c[1].ids
\* the conforming version of a refused case (what "correcting the cause" gives)
Corrected(c) == [k \in DOMAIN c |-> [n |-> c[k].n, ids |-> c[1].ids, fs |-> c[1].fs]]

VARIABLES
  case,     \* the inputs
  pc,       \* "idle","mkdir","move","index","meta","done","refused","aborted"
  outdir,   \* output directory exists
  loc,      \* per input: "orig" | "out"
  idx,      \* merged id index file exists
  meta,     \* "absent" | "partial" | "complete"
  attempts  \* merges started (bounds retries)
mvars == <<case, pc, outdir, loc, idx, meta, attempts>>

N == Len(case)
Moved == Cardinality({k \in DOMAIN loc : loc[k] = "out"})
Pristine == /\ ~outdir /\ ~idx /\ meta = "absent" /\ \A k \in DOMAIN loc : loc[k] = "orig"

MInit == /\ case \in Cases
         /\ pc = "idle" /\ outdir = FALSE /\ idx = FALSE /\ meta = "absent"
         /\ loc = [k \in DOMAIN case |-> "orig"]
         /\ attempts = 0

Validate == /\ pc = "idle" /\ attempts < 2
            /\ attempts' = attempts + 1
            /\ pc' = IF Valid(case) THEN "mkdir" ELSE "refused"
            /\ UNCHANGED <<case, outdir, loc, idx, meta>>
Mkdir == /\ pc = "mkdir" /\ outdir' = TRUE /\ pc' = "move"
         /\ UNCHANGED <<case, loc, idx, meta, attempts>>
Move == /\ pc = "move" /\ Moved < N
        /\ loc' = [loc EXCEPT ![Moved + 1] = "out"]
        /\ pc' = IF Moved + 1 = N THEN (IF Indexed(case) THEN "index" ELSE "meta") ELSE "move"
        /\ UNCHANGED <<case, outdir, idx, meta, attempts>>
Index == /\ pc = "index" /\ idx' = TRUE /\ pc' = "meta"
         /\ UNCHANGED <<case, outdir, loc, meta, attempts>>
Meta == /\ pc = "meta" /\ meta' = "complete" /\ pc' = "done"
        /\ UNCHANGED <<case, outdir, loc, idx, attempts>>
\* the primitive about to run fails: nothing it would have done is visible,
\* except that an interrupted metadata write may leave a partial file
Fault == /\ pc \in {"mkdir", "move", "index", "meta"}
         /\ pc' = "aborted"
         /\ meta' \in (IF pc = "meta" THEN {"absent", "partial"} ELSE {meta})
         /\ UNCHANGED <<case, outdir, loc, idx, attempts>>
\* operator recovery: move files back, remove the partial directory
Recover == /\ pc = "aborted"
           /\ pc' = "idle" /\ outdir' = FALSE /\ idx' = FALSE /\ meta' = "absent"
           /\ loc' = [k \in DOMAIN loc |-> "orig"]
           /\ UNCHANGED <<case, attempts>>
\* correcting the cause of a refusal: conforming inputs, then retry
Correct == /\ pc = "refused"
           /\ case' = Corrected(case) /\ pc' = "idle"
           /\ UNCHANGED <<outdir, loc, idx, meta, attempts>>

\* the operator takes a finished merged store apart again (files back, directory removed) and merges the same
\* stores in ANOTHER order into the same output path, in the same process: the new store reads in the new order
\* (nothing about the first merge may survive - not on disk, not in the process)
ReversedCase(c) == [i \in 1..Len(c) |-> c[Len(c) + 1 - i]]
Rebuild == /\ pc = "done" /\ attempts = 1
           /\ case' = ReversedCase(case)
           /\ pc' = "idle" /\ outdir' = FALSE /\ idx' = FALSE /\ meta' = "absent"
           /\ loc' = [k \in DOMAIN loc |-> "orig"]
           /\ UNCHANGED attempts

MNext == Validate \/ Mkdir \/ Move \/ Index \/ Meta \/ Fault \/ Recover \/ Correct \/ Rebuild
MSpec == MInit /\ [][MNext]_mvars

-----------------------------------------------------------------------------
\* every input is where it was or in the output directory (nothing deleted)
NothingLost == \A k \in DOMAIN loc : loc[k] \in {"orig", "out"} /\ (loc[k] = "out" => outdir)
\* a directory that announces itself complete contains all parts (and the index)
MetaImpliesComplete == meta = "complete" =>
     /\ \A k \in DOMAIN loc : loc[k] = "out"
     /\ (Indexed(case) => idx)
\* a refused merge has touched nothing, so it can be retried
RefusalIsClean == pc \in {"refused", "idle"} => Pristine
DoneIsComplete == pc = "done" => meta = "complete" /\ Valid(case)
\* inputs are moved in the order given
MovedIsPrefix == \A k \in DOMAIN loc : loc[k] = "out" => \A j \in 1..k : loc[j] = "out"

\* reading semantics of the merged store (C09): flat index -> (part, local index)
Sizes == [k \in DOMAIN case |-> case[k].n]
RECURSIVE SumTo(_)
SumTo(k) == IF k = 0 THEN 0 ELSE SumTo(k - 1) + case[k].n
Total == SumTo(N)
PartOf(i) == CHOOSE k \in DOMAIN case : SumTo(k - 1) <= i /\ i < SumTo(k)
LocalOf(i) == i - SumTo(PartOf(i) - 1)
ConcatOK == \A i \in 0..(Total - 1) : PartOf(i) \in DOMAIN case /\ LocalOf(i) \in 0..(case[PartOf(i)].n - 1)
=============================================================================
