SPECIFICATION GSpec
CONSTANTS
  MaxInputs = 3
  MaxSize = 2
CONSTRAINT Emit
CHECK_DEADLOCK FALSE
