----------------------------- MODULE MergeTrace -----------------------------
(* Trace validation for merge: file-system effects observed while the real   *)
(* TrajectoryStore.merge runs (with or without an injected fault, followed by *)
(* recovery / correction and a retry) must be a behaviour of Merge.           *)
EXTENDS Merge, Json, IOUtils, TLCExt

AllTraces == ndJsonDeserialize(IOEnv.TRACE_FILE)
ASSUME \A i \in 1..Len(AllTraces) : TLCSet(i, 0)
VARIABLES l, tid
tvars == <<mvars, l, tid>>
Tr == AllTraces[tid].ev
Ev == Tr[l]

TInit == /\ tid \in 1..Len(AllTraces)
         /\ Tr[1].op = "begin"
         /\ case = Tr[1].ins
         /\ pc = "idle" /\ outdir = FALSE /\ idx = FALSE /\ meta = "absent"
         /\ loc = [k \in DOMAIN case |-> "orig"]
         /\ attempts = 0
         /\ l = 2

Silent == Validate /\ UNCHANGED <<l, tid>>
Consume(A) == l <= Len(Tr) /\ A /\ l' = l + 1 /\ UNCHANGED tid
ObsOK == /\ Ev.outdir = outdir
         /\ Ev.idx = idx
         /\ Ev.meta = meta
         /\ Ev.locs = [k \in DOMAIN loc |-> loc[k]]
         /\ pc = CASE Ev.outcome = "ok" -> "done"
                   [] Ev.outcome = "refused" -> "refused"
                   [] Ev.outcome = "aborted" -> "aborted"
TNext == \/ Silent
         \/ Consume(Ev.op = "mkdir" /\ Mkdir)
         \/ Consume(Ev.op = "move" /\ Moved + 1 = Ev.k /\ Move)
         \/ Consume(Ev.op = "index" /\ Index)
         \/ Consume(Ev.op = "meta" /\ Meta)
         \/ Consume(Ev.op = "fault" /\ Fault)
         \/ Consume(Ev.op = "recover" /\ Recover)
         \/ Consume(Ev.op = "correct" /\ Correct)
         \/ Consume(Ev.op = "end" /\ ObsOK /\ UNCHANGED mvars)
TSpec == TInit /\ [][TNext]_tvars
Furthest == TLCSet(tid, IF TLCGet(tid) < l THEN l ELSE TLCGet(tid))
Post == /\ \A i \in 1..Len(AllTraces) :
              \/ TLCGet(i) = Len(AllTraces[i].ev) + 1
              \/ PrintT(<<"REJECTED", AllTraces[i].t,
                          IF TLCGet(i) = 0 THEN 0 ELSE TLCGet(i) - 1, Len(AllTraces[i].ev)>>)
        /\ PrintT("TRACEVALIDATION-DONE")
=============================================================================
