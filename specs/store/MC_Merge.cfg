SPECIFICATION MSpec
CONSTANTS
  MaxInputs = 3
  MaxSize = 2
INVARIANT NothingLost
INVARIANT MetaImpliesComplete
INVARIANT RefusalIsClean
INVARIANT DoneIsComplete
INVARIANT MovedIsPrefix
INVARIANT ConcatOK
CHECK_DEADLOCK FALSE
