SPECIFICATION Spec
CONSTANTS
  Payloads = {1, 2}
  Ids = {1, 2, 3}
  MaxItems = 3
  Cap = 1
INVARIANT TypeOK
INVARIANT DiskIsAdded
INVARIANT MemIsAdded
INVARIANT CacheCoherent
INVARIANT CacheBounded
INVARIANT NextIsCount
INVARIANT AllOrNone
INVARIANT IdsDistinct
INVARIANT IndexFresh
INVARIANT IndexIsInsertionOrder
INVARIANT LookupExact
PROPERTY RefusalsChangeNothing
PROPERTY AppendOnly
CHECK_DEADLOCK FALSE
