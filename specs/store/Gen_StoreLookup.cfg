SPECIFICATION FSpec
CONSTANTS
  Payloads = {1, 2}
  Ids = {1, 2, 3}
  MaxItems = 5
  Cap = 99
  D = 4
  Starts = {5}
CONSTRAINT FEmit
CHECK_DEADLOCK FALSE
