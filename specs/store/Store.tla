-------------------------------- MODULE Store --------------------------------
(***************************************************************************)
(* TrajectoryStore (src/AEIC/trajectories/store.py) as a history machine:   *)
(* one NetCDF-backed store file F and in-memory stores, one open session at *)
(* a time.  One action per public call; internal steps the code takes       *)
(* (cache eviction, reload from file, lazy re-indexing) are modelled as the *)
(* code has them: a trajectory cache in front of the file, a next-index     *)
(* counter, the indexability decision, the on-disk (flight id, index) table *)
(* with its staleness flag.  Reference semantics are carried by the ghost   *)
(* variable `added`: the plain list of everything successfully added.       *)
(*                                                                          *)
(* A stored item is a record [p |-> payload, id |-> flight id], id = 0      *)
(* meaning "no flight identifier".                                          *)
(***************************************************************************)
EXTENDS Naturals, Sequences, FiniteSets, TLC

CONSTANTS Payloads,   \* payload identities
          Ids,        \* non-zero flight identifiers
          MaxItems,   \* bound on the number of stored items
          Cap         \* cache capacity in items (large = unbounded)

NoId == 0
ASSUME NoId \notin Ids

Item(p, i) == [p |-> p, id |-> i]
\* "fieldset_redefined": a field set with the same field NAMES as one of the store's but another definition
\* "missing_required_other": the missing required value belongs to another field (of the second field set where there is one)
\* "missing_required_foreign": a trajectory of other field sets than the store's (or than the ones the session will use) that also
\* lacks a required value - refused whatever the store holds, also as the very first addition
\* "oversized": a valid trajectory bigger than the whole cache (only generated where the cache is small)
RejectKinds == {"missing_required", "missing_required_other", "missing_required_foreign", "fieldset_mismatch", "fieldset_redefined", "id_inconsistent", "oversized"}

VARIABLES
  exists,     \* does file F exist
  disk,       \* Seq(Item): rows of F (written through on every add)
  idxTab,     \* on-disk id table: set of <<id, index>> as of the last re-index
  mode,       \* "closed" | "create" | "append" | "read" | "mem"
  cache,      \* function: resident index -> Item
  next,       \* next index to assign
  pending,    \* file creation pending (CREATE session before first add)
  indexable,  \* "undecided" | "yes" | "no"
  stale,      \* id table out of date
  added,      \* ghost: everything successfully added to the open/last store
  last        \* reply of the last call (observation)

state == <<exists, disk, idxTab, mode, cache, next, pending, indexable, stale, added>>
vars == <<state, last>>

Reply(op, arg, ok, val) == [op |-> op, arg |-> arg, ok |-> ok, val |-> val]

Writable == mode \in {"create", "append", "mem"}
FileBacked == mode \in {"create", "append", "read"}
Open == mode # "closed"
Contents == added      \* what the open session must show
Range(s) == {s[i] : i \in DOMAIN s}
UsedIds == {it.id : it \in Range(added)} \ {NoId}

\* a cache that has room for one more entry: if full, some resident entry
\* (any - the replacement policy is not part of the contract) is evicted
MakeRoom(c) == IF Cardinality(DOMAIN c) < Cap THEN {c}
               ELSE {[j \in (DOMAIN c) \ {v} |-> c[j]] : v \in DOMAIN c}
Put(c, i, it) == [j \in (DOMAIN c) \cup {i} |-> IF j = i THEN it ELSE c[j]]

Reindexed(d) == {<<d[i].id, i - 1>> : i \in DOMAIN d}

Init ==
  /\ exists = FALSE /\ disk = <<>> /\ idxTab = {}
  /\ mode = "closed" /\ cache = <<>> /\ next = 0 /\ pending = FALSE
  /\ indexable = "undecided" /\ stale = FALSE
  /\ added = <<>>
  /\ last = Reply("init", "-", "yes", "-")

-----------------------------------------------------------------------------
(* opening and closing *)

Create ==
  /\ mode = "closed"
  /\ IF exists
     THEN /\ last' = Reply("create", "-", "no", "exists")
          /\ UNCHANGED state
     ELSE /\ mode' = "create" /\ pending' = TRUE /\ next' = 0
          /\ cache' = <<>> /\ indexable' = "undecided" /\ stale' = FALSE
          /\ added' = <<>>
          /\ last' = Reply("create", "-", "yes", "-")
          /\ UNCHANGED <<exists, disk, idxTab>>

CreateMem ==
  /\ mode = "closed"
  /\ mode' = "mem" /\ pending' = FALSE /\ next' = 0
  /\ cache' = <<>> /\ indexable' = "undecided" /\ stale' = FALSE
  /\ added' = <<>>
  /\ last' = Reply("createmem", "-", "yes", "-")
  /\ UNCHANGED <<exists, disk, idxTab>>

DiskIndexable == IF disk # <<>> /\ disk[1].id # NoId THEN "yes" ELSE "no"

OpenAs(m) ==
  /\ mode = "closed"
  /\ IF ~exists
     THEN /\ last' = Reply("open", m, "no", "missing")
          /\ UNCHANGED state
     ELSE /\ mode' = m /\ pending' = FALSE /\ next' = Len(disk)
          /\ cache' = <<>> /\ indexable' = DiskIndexable /\ stale' = FALSE
          /\ added' = disk
          /\ last' = Reply("open", m, "yes", Len(disk))
          /\ UNCHANGED <<exists, disk, idxTab>>

DoReindex == IF indexable = "yes" /\ stale /\ FileBacked
             THEN idxTab' = Reindexed(disk) /\ stale' = FALSE
             ELSE UNCHANGED <<idxTab, stale>>

Close ==
  /\ Open
  /\ DoReindex
  /\ mode' = "closed" /\ cache' = <<>>
  /\ last' = Reply("close", "-", "yes", "-")
  /\ UNCHANGED <<exists, disk, next, pending, indexable, added>>

Sync ==
  /\ Open
  /\ IF Writable /\ mode # "mem"
     THEN DoReindex /\ last' = Reply("sync", "-", "yes", "-")
     ELSE UNCHANGED <<idxTab, stale>> /\ last' = Reply("sync", "-", IF mode = "mem" THEN "yes" ELSE "no", "-")
  /\ UNCHANGED <<exists, disk, mode, cache, next, pending, indexable, added>>

\* persisting an in-memory store
Save ==
  /\ mode = "mem" /\ ~exists /\ added # <<>>
  /\ exists' = TRUE /\ disk' = added /\ mode' = "create"
  /\ last' = Reply("save", "-", "yes", "-")
  /\ UNCHANGED <<idxTab, cache, next, pending, indexable, stale, added>>

-----------------------------------------------------------------------------
(* additions *)

IdOk(i) == /\ (i # NoId => i \notin UsedIds)
           /\ (indexable = "yes" => i # NoId)
           /\ (indexable = "no" => i = NoId)

Add(p, i) ==
  /\ Writable /\ Len(added) < MaxItems /\ IdOk(i)
  /\ IF mode = "mem" /\ Cardinality(DOMAIN cache) >= Cap
     THEN \* an in-memory store that would have to evict refuses
          /\ last' = Reply("add", <<p, i>>, "no", "eviction")
          /\ UNCHANGED state
     ELSE /\ \E c \in MakeRoom(cache) : cache' = Put(c, next, Item(p, i))
          /\ next' = next + 1
          /\ added' = Append(added, Item(p, i))
          /\ indexable' = IF i # NoId THEN "yes" ELSE "no"
          /\ stale' = (i # NoId)
          /\ IF mode = "mem"
             THEN UNCHANGED <<exists, disk, pending>>
             ELSE exists' = TRUE /\ disk' = Append(disk, Item(p, i)) /\ pending' = FALSE
          /\ last' = Reply("add", <<p, i>>, "yes", next)
          /\ UNCHANGED <<idxTab, mode>>

\* an addition the store must refuse; nothing may change
AddRejected(kind) ==
  /\ Writable
  /\ kind \in {"fieldset_mismatch", "fieldset_redefined"} => added # <<>>
  /\ kind = "oversized" => Cap <= 2          \* only where the cache is small enough for the trajectory to exceed it
  /\ kind = "id_inconsistent" => indexable # "undecided"
  /\ last' = Reply("addbad", kind, "no", "-")
  /\ UNCHANGED state

AddReadOnly ==
  /\ mode = "read"
  /\ last' = Reply("add", "-", "no", "readonly")
  /\ UNCHANGED state

-----------------------------------------------------------------------------
(* reads *)

\* reading index i: from the cache if resident, otherwise (file-backed) the
\* row is loaded from the file into the cache, possibly evicting another
Get(i) ==
  /\ Open
  /\ IF i >= Len(Contents)
     THEN /\ last' = Reply("get", i, "no", "index")
          /\ UNCHANGED state
     ELSE IF i \in DOMAIN cache
     THEN /\ last' = Reply("get", i, "yes", cache[i])
          /\ UNCHANGED state
     ELSE /\ FileBacked
          /\ \E c \in MakeRoom(cache) : cache' = Put(c, i, disk[i + 1])
          /\ last' = Reply("get", i, "yes", disk[i + 1])
          /\ UNCHANGED <<exists, disk, idxTab, mode, next, pending, indexable, stale, added>>

LenOp ==
  /\ Open
  /\ last' = Reply("len", "-", "yes", IF mode = "mem" THEN Cardinality(DOMAIN cache) ELSE Len(disk))
  /\ UNCHANGED state

\* iteration = get(0), get(1), ... ; modelled as one call whose reply is the list
\* (every iteration runs over the whole store, also when two iterations of the same store overlap)
Iterate ==
  /\ Open
  /\ last' = Reply("iter", "-", "yes", IF mode = "mem" THEN [j \in 1..Len(added) |-> cache[j - 1]] ELSE disk)
  /\ UNCHANGED state

\* the cache may drop any resident entry of a file-backed store at any time
Evict(i) ==
  /\ FileBacked /\ i \in DOMAIN cache
  /\ cache' = [j \in (DOMAIN cache) \ {i} |-> cache[j]]
  /\ last' = Reply("evict", i, "yes", "-")
  /\ UNCHANGED <<exists, disk, idxTab, mode, next, pending, indexable, stale, added>>

Lookup(tab, i) == IF \E pr \in tab : pr[1] = i
                  THEN LET pr == CHOOSE q \in tab : q[1] = i IN disk[pr[2] + 1]
                  ELSE Item("none", NoId)

GetFlight(i) ==
  /\ FileBacked
  /\ IF indexable # "yes"
     THEN /\ last' = Reply("getflight", i, "no", "notindexable")
          /\ UNCHANGED state
     ELSE /\ DoReindex
          /\ last' = Reply("getflight", i, "yes", Lookup(idxTab', i))
          /\ UNCHANGED <<exists, disk, mode, cache, next, pending, indexable, added>>

-----------------------------------------------------------------------------
Next ==
  \/ Create \/ CreateMem \/ OpenAs("read") \/ OpenAs("append") \/ Close \/ Sync \/ Save
  \/ \E p \in Payloads, i \in Ids \cup {NoId} : Add(p, i)
  \/ \E k \in RejectKinds : AddRejected(k)
  \/ AddReadOnly
  \/ \E i \in 0..MaxItems : Get(i)
  \/ LenOp \/ Iterate
  \/ \E i \in 0..MaxItems : Evict(i)
  \/ \E i \in Ids : GetFlight(i)

Spec == Init /\ [][Next]_vars

-----------------------------------------------------------------------------
(* properties *)

TypeOK ==
  /\ mode \in {"closed", "create", "append", "read", "mem"}
  /\ indexable \in {"undecided", "yes", "no"}
  /\ next \in 0..MaxItems
  /\ Len(added) <= MaxItems

\* C07: write-through, the file is the list of successful additions
DiskIsAdded == (FileBacked /\ exists /\ ~pending) => disk = added
MemIsAdded == mode = "mem" => (DOMAIN cache = 0..(Len(added) - 1)
                                /\ \A j \in DOMAIN cache : cache[j] = added[j + 1])
\* whatever is resident equals the item added at that index
CacheCoherent == Open => \A j \in DOMAIN cache : j < Len(added) /\ cache[j] = added[j + 1]
CacheBounded == FileBacked => Cardinality(DOMAIN cache) <= Cap
NextIsCount == Open => next = Len(added)

\* C07: every reply is the one the plain list would give
IndexIsInsertionOrder ==
  /\ (last.op = "get" /\ last.ok = "yes") => last.val = added[last.arg + 1]
  /\ (last.op = "get" /\ last.ok = "no") => last.arg >= Len(added)
  /\ (last.op = "len" /\ last.ok = "yes") => last.val = Len(added)
  /\ (last.op = "iter") => last.val = added
  /\ (last.op = "add" /\ last.ok = "yes") => last.val = Len(added) - 1

\* C08: identifiers
AllOrNone == \A a, b \in Range(added) : (a.id = NoId) <=> (b.id = NoId)
IdsDistinct == \A a, b \in DOMAIN added : (added[a].id # NoId /\ added[a].id = added[b].id) => a = b
IndexFresh == (FileBacked /\ indexable = "yes" /\ ~stale) => idxTab = Reindexed(disk)
LookupExact ==
  (last.op = "getflight" /\ last.ok = "yes") =>
     IF \E j \in DOMAIN added : added[j].id = last.arg
     THEN last.val.id = last.arg /\ last.val \in Range(added)
     ELSE last.val.p = "none"

\* C10: a refused call changes nothing
RefusalsChangeNothing == [][last'.ok = "no" => UNCHANGED state]_vars
\* append-only
AppendOnly == [][mode' # "closed" /\ mode # "closed" /\ last'.op \notin {"create", "createmem"}
                 => (Len(added') >= Len(added) /\ SubSeq(added', 1, Len(added)) = added)]_vars
=============================================================================
