------------------------------ MODULE MergeArgs ------------------------------
(***************************************************************************)
(* The argument rules of TrajectoryStore.merge (src/AEIC/trajectories/       *)
(* store.py, _check_merge_arguments) as a decision table.  Inputs are named  *)
(* either by an explicit list or by a numbered pattern with an index range;  *)
(* the rules are the same for both forms:                                    *)
(*   both_forms           a list AND a pattern are given                     *)
(*   pattern_without_range                                                   *)
(*   missing_input        one named input does not exist                     *)
(*   not_netcdf_input     one named input is not a ".nc" file                *)
(*   bad_output_suffix    the output is not named "*.aeic-store"             *)
(*   output_exists        the output path exists already                     *)
(* Every violated rule refuses the merge before anything is touched: all     *)
(* inputs stay where they are and readable, the output path is as it was,    *)
(* and after correcting the cause the same merge succeeds (Merge.tla takes   *)
(* over from there).                                                         *)
(***************************************************************************)
EXTENDS Naturals, Sequences, TLC, Json
Forms == {"list", "pattern"}
Kinds == {"both_forms", "pattern_without_range", "missing_input", "not_netcdf_input", "bad_output_suffix", "output_exists", "none"}
\* (a pattern without range, and both forms at once, are statements about how the inputs are named: one case each)
Cases == {c \in [kind : Kinds, form : Forms, pos : 1..2] :
             /\ (c.kind \in {"both_forms", "pattern_without_range"} => c.form = "pattern" /\ c.pos = 1)
             /\ (c.kind \in {"bad_output_suffix", "output_exists", "none"} => c.pos = 1)}
Verdict(c) == IF c.kind = "none" THEN "merged" ELSE "refused"
VARIABLES c, o
vars == <<c, o>>
AInit == c \in Cases /\ o = [verdict |-> Verdict(c), inputs_untouched |-> (c.kind # "none"), retry |-> "merged"]
ANext == UNCHANGED vars
ASpec == AInit /\ [][ANext]_vars
\* the rules do not depend on the way the inputs are named
FormIrrelevant == \A x, y \in Cases : (x.kind = y.kind /\ x.pos = y.pos) => Verdict(x) = Verdict(y)
RefusalTouchesNothing == (o.verdict = "refused") => o.inputs_untouched
Emit == PrintT("@@" \o ToJson([c |-> c, o |-> o]))
=============================================================================
