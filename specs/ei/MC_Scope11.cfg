SPECIFICATION SSpec
INVARIANT NoDataIsZero
INVARIANT CapAt40
INVARIANT Grows
INVARIANT IdleHighestPerSmoke
CHECK_DEADLOCK FALSE
