SPECIFICATION SSpec
INVARIANT NoDataIsZero
INVARIANT CapAt40
INVARIANT Grows
INVARIANT IdleHighestPerSmoke
INVARIANT ModesIndependent
CHECK_DEADLOCK FALSE
