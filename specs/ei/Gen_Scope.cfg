SPECIFICATION ScopeSpec
CONSTRAINT Emit
CONSTANTS
  ExpF <- QuickF
  ExpE <- QuickE
  LfLo <- LfLoV
  LfHi = 4
CHECK_DEADLOCK FALSE
