-------------------------------- MODULE Profiles --------------------------------
(***************************************************************************)
(* Altitude profiles for the estimates that look at a whole flight at once   *)
(* (emissions/ei/pmnvol.py PMnvol_MEEM: its compressor pressure coefficient  *)
(* in climb varies linearly between the 3000 m reference level and the TOP   *)
(* OF THE FLIGHT).  Every sequence of 2..4 points over a lattice of levels   *)
(* from the ground to the stratosphere is a profile: flights that stay below *)
(* the reference level, flights that barely exceed it, climbs, level         *)
(* stretches and descents in any order.  For every profile every index is    *)
(* finite and non-negative: in particular the compressor exit pressure is    *)
(* never below the inlet pressure (Coef >= 0), however far below the         *)
(* reference level a climbing point lies.                                    *)
(***************************************************************************)
EXTENDS Integers, Sequences, FiniteSets, TLC, Json
Levels == {0, 800, 2400, 3000, 3500, 6000, 11000, 14000}
CONSTANTS MaxLen
Profiles == UNION {[1..n -> Levels] : n \in 2..MaxLen}
Max(p) == CHOOSE a \in {p[i] : i \in DOMAIN p} : \A i \in DOMAIN p : p[i] <= a
Rate(p, i) == IF i = 1 THEN 0 ELSE p[i] - p[i - 1]
\* the pressure coefficient in thousandths (climb: 0.85 at the reference level .. 1.15 at the top; level 0.95; descent 0.12),
\* floored at zero: a compressor pressure ratio below one does not exist
Den(p) == IF Max(p) - 3000 > 1 THEN Max(p) - 3000 ELSE 1
Raw(p, i) == IF Rate(p, i) > 0 THEN 850 + (300 * (p[i] - 3000)) \div Den(p) ELSE IF Rate(p, i) = 0 THEN 950 ELSE 120
Coef(p, i) == IF Raw(p, i) < 0 THEN 0 ELSE Raw(p, i)

VARIABLES prof
PInit == prof \in Profiles
PNext == UNCHANGED prof
PSpec == PInit /\ [][PNext]_prof
CoefNonNegative == \A i \in DOMAIN prof : Coef(prof, i) >= 0
\* (what makes the floor necessary: the unfloored rule goes negative on low flights)
LowFlightsNeedTheFloor == \E p \in Profiles : \E i \in DOMAIN p : Raw(p, i) < 0
Low(p) == Max(p) <= 3500
Emit == PrintT("@@" \o ToJson([alts |-> prof, low |-> Low(prof), coef |-> [i \in DOMAIN prof |-> Coef(prof, i)]]))
=============================================================================
