SPECIFICATION ScopeSpec
INVARIANT ScopeCapIdempotent
CONSTANTS
  ExpF <- QuickF
  ExpE <- QuickE
  LfLo <- LfLoV
  LfHi = 4
CHECK_DEADLOCK FALSE
