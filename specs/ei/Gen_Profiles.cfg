SPECIFICATION PSpec
CONSTANTS
  MaxLen = 3
CONSTRAINT Emit
CHECK_DEADLOCK FALSE
