--------------------------------- MODULE Atmos ---------------------------------
(***************************************************************************)
(* The transcendental parts of the emission-index building blocks as         *)
(* numbers (six-decimal fixed point, module Fix), on the 500 m altitude      *)
(* lattice 0 .. 25 km:                                                       *)
(*   Delta(h)    ISA pressure ratio p / p0: (T/T0)^(g0 / (-beta R)) up to    *)
(*               the 11 km tropopause, isothermal exponential decay above    *)
(*               (utils/standard_atmosphere.py)                              *)
(*   Ffm2(h, M)  Fuel Flow Method 2: Wf_SL / Wf = theta^3.8 / delta *        *)
(*               exp(0.2 M^2)  (emissions/utils.py                           *)
(*               get_SLS_equivalent_fuel_flow, per engine)                   *)
(*   HcCo(h, dT) BFFM2 HC / CO cruise correction theta^3.3 / delta^1.02      *)
(*               (emissions/ei/hcco.py)                                      *)
(*   NoxCorr(h, dT)  BFFM2 NOx correction exp(H) sqrt(delta^1.02 /           *)
(*               theta^3.3) with the humidity term H = -19 (omega - 0.0063), *)
(*               omega = 0.62198 phi Pv / (P - phi Pv) at phi = 0.6 and the  *)
(*               Goff-Gratch saturation pressure Pv = 0.014504 * 10^beta     *)
(*               psia (emissions/ei/nox.py, Eqs. 44-45 as cited there)       *)
(* theta = T / 288.15 with T = ISA temperature + dT, delta = Delta(h).       *)
(* All values are micro-units; the harness compares within 10^-4 relative.   *)
(***************************************************************************)
EXTENDS Integers, Sequences, TLC, Fix, Json

Steps == 0..50                          \* altitude = 500 m * k
\* theta on the lattice: 1 - k * 500 * 0.0065 / 288.15 up to the tropopause (k = 22), constant above
ThetaIsa(k) == FOne - ((IF k <= 22 THEN k ELSE 22) * 1127885) \div 100
\* a temperature offset dT (whole kelvin) adds dT / 288.15
Theta(k, dT) == ThetaIsa(k) + (dT * 347041) \div 100
\* g0 / (-beta R) = 9.80665 / (0.0065 * 287.05287)
BaroExp == 5255876
\* Everything is formed in the logarithm and exponentiated once (no tiny intermediate numbers).
\* ln delta: BaroExp * ln theta up to the tropopause; above it falls by 500 m / (R * 216.65 / g0) = 0.0788442 per step
LnTheta(k, dT) == FLn(Theta(k, dT))
LnDelta(k) == FMul(BaroExp, FLn(ThetaIsa(k))) - (IF k <= 22 THEN 0 ELSE ((k - 22) * 788442) \div 10)
Delta(k) == FExp(LnDelta(k))

\* Mach numbers in hundredths; 0.2 (m/100)^2 = m^2 * 20 micro-units
Machs == {0, 40, 80, 95}
Ffm2Z(k, m, z) == FExp(FMul(z, LnTheta(k, 0)) - LnDelta(k) + m * m * 20)      \* the exponent z of theta is a parameter (default 3.8)
Ffm2(k, m) == Ffm2Z(k, m, 3800000)

\* theta and delta are RATIOS to the sea-level reference the caller names: the same state in hPa and degrees Rankine
\* with P_SL = 1013.25, T_SL = 518.67 gives the same factor (the harness evaluates both forms)
Ffm2Units == {"Pa_K", "hPa_R"}

Offsets == {0, 10}
HcCo(k, dT) == FExp(FMul(3300000, LnTheta(k, dT)) - FMul(1020000, LnDelta(k)))

\* temperature in units of 100 K (keeps divisors small): (T + 0.01) / 100 with T = 288.15 theta
T100(k, dT) == FMul(Theta(k, dT), 2881500) + 100
Ratio(k, dT) == FDiv(3731600, T100(k, dT))                                           \* 373.16 / (T + 0.01)
\* Goff-Gratch: the fourth term 1.3816e-7 (1 - 10^(11.344 (1 - 1/r))) reaches -0.008 in the stratosphere; it is formed as
\* 1.3816e-7 - 10^(11.344 (1 - 1/r) - 6.859618) (log10 1.3816e-7 = -6.859618)
BetaSat(k, dT) == LET r == Ratio(k, dT)   ri == FDiv(FOne, r) IN
                  FMul(7902980, FOne - r) + 3005710 + FMul(5028080, FLog10(r))
                  - FPow10(FMul(11344000, FOne - ri) - 6859618)
                  + FMul(8133, FPow10(FMul(3491490, FOne - r)) - FOne)
\* saturation pressure in MILLI-psia (keeps three more digits at altitude): 14.504 * 10^beta, formed in the logarithm
PvMilli(k, dT) == FExp(FMul(BetaSat(k, dT), FLn10) + FLn(14504000))
\* 1000 omega = 0.62198 * (phi Pv in milli-psia) / (P - phi Pv), phi = 0.6
OmegaMilli(k, dT) == LET wet == 3 * (PvMilli(k, dT) \div 5)
                     IN FMul(621980, FDiv(wet, FMul(Delta(k), 14696000) - wet \div 1000))
Hum(k, dT) == -RDiv(19 * (OmegaMilli(k, dT) - 6300000), 1000)
NoxCorr(k, dT) == FExp(Hum(k, dT) + RDiv(FMul(1020000, LnDelta(k)) - FMul(3300000, LnTheta(k, dT)), 2))

VARIABLES k, out
avars == <<k, out>>
Row(j) == [k |-> j, h |-> 500 * j, theta |-> ThetaIsa(j), delta |-> Delta(j),
           ffm2 |-> [m \in Machs |-> Ffm2(j, m)],
           ffm2z33 |-> Ffm2Z(j, 80, 3300000),
           hcco |-> [d \in Offsets |-> HcCo(j, d)],
           nox |-> [d \in Offsets |-> NoxCorr(j, d)],
           hum |-> [d \in Offsets |-> Hum(j, d)]]
AInit == k \in Steps /\ out = Row(k)
ANext == UNCHANGED avars
ASpec == AInit /\ [][ANext]_avars

\* shape properties of the published equations, checked on the numbers
PressureFalls == k > 0 => Delta(k) < Delta(k - 1)
SeaLevelIsOne == Delta(0) = FOne /\ ThetaIsa(0) = FOne
TropopauseContinuous == k = 22 => FAbs(Delta(22) - FPow(ThetaIsa(22), BaroExp)) <= 2
\* the sea-level equivalent flow is never below the flight flow and grows with Mach
Ffm2AtLeastOne == \A m \in Machs : Ffm2(k, m) >= FOne
Ffm2GrowsWithMach == Ffm2(k, 0) < Ffm2(k, 40) /\ Ffm2(k, 40) < Ffm2(k, 80)
\* HC / CO indices grow with altitude; a dry stratosphere gives H close to 19 * 0.0063
HcCoAtLeastOne == HcCo(k, 0) >= FOne
\* the NOx correction is the reciprocal square root of the HC / CO correction times the humidity factor
NoxIsInverseRootOfHcCo == \A d \in Offsets : FAbs(FMul(FMul(NoxCorr(k, d), NoxCorr(k, d)), HcCo(k, d)) - FExp(2 * Hum(k, d))) <= 400
HumidityBounded == \A d \in Offsets : Hum(k, d) <= 119700 /\ Hum(k, d) >= -120000
Emit == PrintT("@@" \o ToJson(out))
=============================================================================
