---------------------------------- MODULE EI ----------------------------------
(***************************************************************************)
(* Emission-index and atmosphere building blocks on the sub-domains where    *)
(* the published equations are exactly representable (integers, rationals,   *)
(* base-10 exponents):                                                       *)
(*   ISA temperature (utils/standard_atmosphere.py), thrust categories       *)
(*   (emissions/utils.py get_thrust_cat_cruise), fuel-sulfur stoichiometry   *)
(*   (ei/sox.py), the BFFM2 HC/CO bilinear fit in log10 space (ei/hcco.py),  *)
(*   the BFFM2 NOx log-log regression slope (ei/nox.py), FOA3 and fuel-flow  *)
(*   volatile PM (ei/pmvol.py), NOx speciation (ei/nox.py).                  *)
(* One specification (SPECIFICATION line in the cfg) per function; `c` is    *)
(* the case, `o` the expected outcome.                                       *)
(***************************************************************************)
EXTENDS Integers, Sequences, FiniteSets, TLC, Rat

QuickF == {-2, 0, 1}
QuickE == {-2, 0, 2}
FullF == {-2, -1, 0, 1}
FullE == {-2, 0, 2, 4}
LfLoV == -6

VARIABLES c, o, st
vars == <<c, o, st>>
Step(out) == st = "pending" /\ st' = "done" /\ o' = out /\ UNCHANGED c
Start(S) == c \in S /\ o = <<>> /\ st = "pending"
Done == st = "done"

-----------------------------------------------------------------------------
(* ISA temperature in centi-kelvin on a 500 m lattice; refusal above 25 km *)
IsaT(h) == IF h <= 11000 THEN 28815 - (h \div 500) * 325 ELSE 21665
IsaCases == {[h |-> 500 * k] : k \in 0..52}
IsaOut(x) == IF x.h > 25000 THEN [refused |-> TRUE, t |-> 0] ELSE [refused |-> FALSE, t |-> IsaT(x.h)]
IsaSpec == Start(IsaCases) /\ [][Step(IsaOut(c))]_vars
IsaContinuous == IsaT(11000) = 21665 /\ IsaT(11500) = 21665
IsaMonotone == \A k \in 0..49 : IsaT(500 * (k + 1)) <= IsaT(500 * k)

-----------------------------------------------------------------------------
(* thrust categories: mid-point thresholds of the calibration flows; flows   *)
(* are integers, evaluation flows in half units (ff2 = 2 * flow)             *)
Rank(cat) == CASE cat = "idle" -> 1 [] cat = "approach" -> 2 [] cat = "climb" -> 3
Cat(ff2, cal) == IF ff2 <= cal.idle + cal.approach THEN "idle"
                 ELSE IF ff2 > cal.approach + cal.climb THEN "climb" ELSE "approach"
CalAlphabet == {1, 2, 4, 6}
CatCases == [cal : [idle : CalAlphabet, approach : CalAlphabet, climb : CalAlphabet], ff2 : 0..14]
CatSpec == Start(CatCases) /\ [][Step([cat |-> Cat(c.ff2, c.cal)])]_vars
CatMonotone == \A f \in 0..13 : Rank(Cat(f, c.cal)) <= Rank(Cat(f + 1, c.cal))

-----------------------------------------------------------------------------
(* fuel sulfur: S ppm by mass, sulfate yield y; g per kg fuel *)
SoxCases == [s : {0, 300, 600, 1200}, y : {R(0, 1), R(1, 50), R(1, 10), R(1, 1)}]
So2(x) == Mul(Mul(R(x.s, 1000000), Sub(I(1), x.y)), I(2000))       \* * 64/32 * 1000
So4(x) == Mul(Mul(R(x.s, 1000000), x.y), I(3000))                  \* * 96/32 * 1000
SoxOut(x) == [so2 |-> So2(x), so4 |-> So4(x), sox |-> Add(So2(x), So4(x))]
SoxSpec == Start(SoxCases) /\ [][Step(SoxOut(c))]_vars
\* sulfur atoms conserved: S[g/kg] = SO2 * 32/64 + SO4 * 32/96
SulfurConserved == Done => Add(Div(o.so2, I(2)), Div(o.so4, I(3))) = R(c.s, 1000)

-----------------------------------------------------------------------------
(* BFFM2 HC/CO fit in log10 space: calibration flows and indices are powers  *)
(* of ten (exponents in half units to allow half decades for flows), the     *)
(* evaluation flow exponent lf is in half units too.  All logs are rationals *)
CONSTANTS ExpF,   \* half-decade exponents of calibration fuel flows: 10^(e/2)
          ExpE,   \* half-decade exponents of calibration indices
          LfLo, LfHi
H(e) == R(e, 2)
HcCases == [fi : ExpF, fa : ExpF, fc : ExpF, ei : ExpE, ea : ExpE, ec : ExpE, et : ExpE, lf : LfLo..LfHi]
HcSlope(x) == IF x.fa = x.fi THEN I(0) ELSE Div(Sub(H(x.ea), H(x.ei)), Sub(H(x.fa), H(x.fi)))
HcHorz0(x) == Div(Add(H(x.ec), H(x.et)), I(2))
HcIcpt0(x) == IF Eq(HcSlope(x), I(0)) THEN H(x.fa)
              ELSE Div(Add(Mul(Mul(I(2), H(x.fi)), HcSlope(x)), Sub(Add(H(x.ec), H(x.et)), Mul(I(2), H(x.ei)))),
                       Mul(I(2), HcSlope(x)))
\* SAGE rules -> [slope, bf, be, horz, icpt, rule].  The code evaluates the
\* branch conditions in floating point; where a condition is an exact tie both
\* resolutions are admissible: t1 resolves "intercept > climb flow", t2
\* resolves "intercept < approach flow" (TRUE = the condition holds at the tie)
HcRulesT(x, t1, t2) ==
  LET s == HcSlope(x)  ic == HcIcpt0(x)  hz == HcHorz0(x) IN
  IF Lt(H(x.fc), ic) \/ (Eq(H(x.fc), ic) /\ t1)
    THEN [slope |-> s, bf |-> H(x.fi), be |-> H(x.ei), horz |-> hz, icpt |-> H(x.fc), rule |-> "clamp_climb"]
  ELSE IF (Lt(ic, H(x.fa)) \/ (Eq(ic, H(x.fa)) /\ t2)) /\ IsNeg(s)
    THEN [slope |-> s, bf |-> H(x.fi), be |-> H(x.ei), horz |-> H(x.ea), icpt |-> H(x.fa), rule |-> "low_intercept"]
  ELSE IF ~IsNeg(s) THEN [slope |-> I(0), bf |-> I(0), be |-> hz, horz |-> hz, icpt |-> H(x.fa), rule |-> "positive_slope"]
  ELSE [slope |-> s, bf |-> H(x.fi), be |-> H(x.ei), horz |-> hz, icpt |-> ic, rule |-> "regular"]
HcRules(x) == HcRulesT(x, FALSE, FALSE)
HcSlanted(x, r) == Add(Mul(r.slope, Sub(H(x.lf), r.bf)), r.be)
\* t3 resolves "evaluation flow below the intercept" at a tie
HcLog(x, r, t3) == IF Lt(H(x.lf), r.icpt) \/ (Eq(H(x.lf), r.icpt) /\ t3) THEN HcSlanted(x, r) ELSE r.horz
HcOut(x) ==
  LET r == HcRules(x)
      lower == Lt(H(x.lf), r.icpt)
  IN [log |-> HcLog(x, r, FALSE),
      \* (t3 is open only where the intercept is a COMPUTED number: a clamped intercept is a calibration flow itself, an
      \* evaluation flow equal to it compares equal exactly, and "at or above the intercept" means the horizontal line)
      alts |-> UNION {{HcLog(x, HcRulesT(x, t1, t2), t3) : t3 \in (IF HcRulesT(x, t1, t2).rule = "regular" THEN BOOLEAN ELSE {FALSE})} :
                        t1 \in BOOLEAN, t2 \in BOOLEAN},
      rule |-> r.rule, seg |-> IF lower THEN "slanted" ELSE "horizontal",
      acrp |-> x.lf < x.fi]
HcSpec == Start(HcCases) /\ [][Step(HcOut(c))]_vars
\* the horizontal level is never exceeded on the slanted branch when the slope is negative and unclamped ...
HcRuleTotal == Done => o.rule \in {"clamp_climb", "low_intercept", "positive_slope", "regular"}
HcPositiveSlopeIsFlat == (Done /\ o.rule = "positive_slope") => o.log = HcHorz0(c)

-----------------------------------------------------------------------------
(* BFFM2 NOx: least-squares slope of log10 EI against log10 fuel flow over   *)
(* the four calibration points (decade exponents)                            *)
NxF == {-3, -1, 0, 1}     \* -3: a calibration flow of 1 g/s, below the 10 g/s stand-in used for non-positive flows
NxE == {0, 1, 2}
NoxCases == {x \in [f1 : NxF, f2 : NxF, f3 : NxF, f4 : NxF, e1 : NxE, e2 : NxE, e3 : NxE, e4 : NxE] :
                ~(x.f1 = x.f2 /\ x.f2 = x.f3 /\ x.f3 = x.f4)}
SumF(x) == x.f1 + x.f2 + x.f3 + x.f4
SumE(x) == x.e1 + x.e2 + x.e3 + x.e4
NoxSlope(x) == R(4 * (x.f1 * x.e1 + x.f2 * x.e2 + x.f3 * x.e3 + x.f4 * x.e4) - SumF(x) * SumE(x),
                 4 * (x.f1 * x.f1 + x.f2 * x.f2 + x.f3 * x.f3 + x.f4 * x.f4) - SumF(x) * SumF(x))
\* the fitted line: log10 EI = slope * log10 flow + intercept, intercept = (SumE - slope SumF) / 4;
\* evaluated at the flows 1 g/s, 0.1, 1, 10 kg/s; a non-positive flow is evaluated as 10 g/s (exponent -2)
NoxIntercept(x) == Div(Sub(I(SumE(x)), Mul(NoxSlope(x), I(SumF(x)))), I(4))
NoxAt(x, e) == Add(Mul(NoxSlope(x), I(e)), NoxIntercept(x))
\* ArgumentsAreValues: every operator of this module is a function of its arguments; on the implementation side that means
\* the arrays and tables handed to an index function are read, never written (the fuel-flow array of a flight is used for
\* NOx, then HC, then CO) - the harness compares every array argument before and after the call
NoxEvalExps == <<-3, -1, 0, 1, -2>>
NoxSpec == Start(NoxCases) /\ [][Step([slope |-> NoxSlope(c), logs |-> [k \in 1..5 |-> NoxAt(c, NoxEvalExps[k])]])]_vars
\* a positive flow is never replaced: the fitted value at 1 g/s differs from the one at 10 g/s whenever the slope is not zero
NoxSmallFlowsFitted == Done => (o.slope # I(0) => o.logs[1] # o.logs[5])

-----------------------------------------------------------------------------
(* FOA3 volatile PM: piecewise-linear delta(thrust %) table, in 1/100 mg/g;  *)
(* thrust in half percent                                                    *)
FoaT == <<14, 60, 170, 200>>
FoaD == <<617, 5625, 7600, 11500>>
FoaDelta(t2) ==
  IF t2 <= FoaT[1] THEN I(FoaD[1]) ELSE IF t2 >= FoaT[4] THEN I(FoaD[4])
  ELSE LET k == CHOOSE j \in 1..3 : FoaT[j] <= t2 /\ t2 <= FoaT[j + 1]
       IN Add(I(FoaD[k]), Mul(R(t2 - FoaT[k], FoaT[k + 1] - FoaT[k]), I(FoaD[k + 1] - FoaD[k])))
FoaCases == [t2 : {6, 14, 37, 60, 115, 170, 185, 200, 220}, hc4 : {0, 4, 10}]   \* HC EI in quarter g/kg
FoaSpec == Start(FoaCases) /\ [][Step([pmvol |-> Div(Mul(Div(FoaDelta(c.t2), I(100)), R(c.hc4, 4)), I(1000))])]_vars
FoaMonotone == \A a, b \in {6, 14, 37, 60, 115, 170, 185, 200, 220} : a <= b => Le(FoaDelta(a), FoaDelta(b))

-----------------------------------------------------------------------------
(* SCOPE11 non-volatile PM: the piecewise rules around the published           *)
(* correlation (its magnitude is not decided, DESIGN.md section 6): a smoke    *)
(* number above 40 counts as 40; a smoke number of 0 or -1 means "no data"     *)
(* and gives 0; the index does not decrease with the smoke number.             *)
ScopeSN == {-1, 0, 2, 5, 13, 30, 40, 41, 44, 60, 100}
ScopeCases == [sn : ScopeSN, mode : {"idle", "approach", "climb", "takeoff"}, eng : {"TF", "MTF"}]
ScopeCapped(sn) == IF sn > 40 THEN 40 ELSE sn
ScopeNoData(sn) == sn \in {-1, 0}
ScopeSpec == Start(ScopeCases) /\ [][Step([same_as |-> ScopeCapped(c.sn), zero |-> ScopeNoData(c.sn),
                                              below |-> IF \E x \in ScopeSN : x > 0 /\ x < ScopeCapped(c.sn) THEN
                                                           CHOOSE x \in ScopeSN : x > 0 /\ x < ScopeCapped(c.sn) /\ \A y \in ScopeSN : (y > 0 /\ y < ScopeCapped(c.sn)) => y <= x
                                                        ELSE 0])]_vars
ScopeCapIdempotent == \A sn \in ScopeSN : ScopeCapped(ScopeCapped(sn)) = ScopeCapped(sn)

-----------------------------------------------------------------------------
(* NOx speciation (percent * 100000) and fuel-flow volatile PM               *)
SpecModes == {"idle", "approach", "climb", "takeoff"}
Hono(m) == IF m \in {"idle", "approach"} THEN 450000 ELSE 75000
PerMille(m) == CASE m = "idle" -> 865 [] m = "approach" -> 160 [] OTHER -> 75
No2(m) == (PerMille(m) * ((10000000 - Hono(m)) \div 100)) \div 10
No(m) == 10000000 - Hono(m) - No2(m)
SpecSpec == Start({[m |-> m] : m \in SpecModes}) /\
            [][Step([no |-> No(c.m), no2 |-> No2(c.m), hono |-> Hono(c.m),
                     pmvol |-> IF c.m = "idle" THEN R(2, 85) ELSE R(1, 25), ocic |-> R(1, 50)])]_vars
SpeciationSumsToOne == Done => o.no + o.no2 + o.hono = 10000000
=============================================================================
