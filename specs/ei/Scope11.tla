-------------------------------- MODULE Scope11 --------------------------------
(***************************************************************************)
(* SCOPE11 non-volatile PM mass index (emissions/ei/pmnvol.py                *)
(* calculate_PMnvolEI_scope11) as numbers, six-decimal fixed point (Fix):    *)
(*   C_BC = 0.6484 exp(0.0766 SN) / (1 + exp(-1.098 (SN - 3.064)))  mg/m3,   *)
(*          SN capped at 40; SN = 0 or -1 means "no data" -> index 0         *)
(*   k_slm = ln((3.219 x 1000 + 312.5) / (x 1000 + 42.6)),                   *)
(*          x = C_BC for turbofans, C_BC (1 + BPR) for mixed turbofans       *)
(*   Q     = 0.776 AFR + 0.767 (TF), 0.776 AFR (1 + BPR) + 0.767 (MTF) m3/kg *)
(*          with AFR = 106 / 83 / 51 / 45 for idle / approach / climb / t-o  *)
(*   EI    = k_slm C_BC Q / 1000   g/kg                                      *)
(* BPR = 5 in all cases.  Values in micro-units; the harness compares within *)
(* 2e-4 relative.                                                            *)
(***************************************************************************)
EXTENDS Integers, Sequences, TLC, Fix, Json
\* RecordForms: the record of smoke numbers is a value - the index is a function of the four numbers it holds when it is
\* handed over, whether it is a new object each time or one working copy overwritten in place during a sweep
RecordForms == {"fresh", "working_copy"}
Modes == {"idle", "approach", "climb", "takeoff"}
Afr(m) == CASE m = "idle" -> 106 [] m = "approach" -> 83 [] m = "climb" -> 51 [] m = "takeoff" -> 45
Engines == {"TF", "MTF"}
Bpr == 5
SNs == {-1, 0, 1, 2, 3, 5, 8, 13, 20, 30, 40, 41, 60}
Capped(sn) == IF sn > 40 THEN 40 ELSE sn
\* exp of a large negative number is zero at this resolution
ExpN(x) == IF x < -14 * FOne THEN 0 ELSE FExp(x)
Cbc(sn) == FDiv(FMul(648400, FExp(76600 * sn)), FOne + ExpN(-FMul(1098000, FInt(sn) - 3064000)))
\* numerator and denominator of the k_slm ratio divided by 10 000 (keeps the divisor in range)
Kslm(sn, eng) == LET x == IF eng = "MTF" THEN Cbc(sn) * (1 + Bpr) ELSE Cbc(sn)
                     num == FMul(321900, x) + 31250        \* (3.219 x 1000 + 312.5) / 10 000
                     den == x \div 10 + 4260                 \* (x 1000 + 42.6) / 10 000
                 IN FLn(FDiv(num, den))
\* Q / 1000 in fixed point
QMilli(m, eng) == IF eng = "MTF" THEN 776 * Afr(m) * (1 + Bpr) + 767 ELSE 776 * Afr(m) + 767
Ei(sn, m, eng) == IF sn \in {-1, 0} THEN 0
                  ELSE FMul(FMul(Kslm(Capped(sn), eng), Cbc(Capped(sn))), QMilli(m, eng))

\* a certification record is one smoke number PER MODE; the index of a mode depends on that mode's smoke number (and
\* the mode's own air-fuel ratio) alone - a mode without data does not shift the others
ModeSeq == <<"idle", "approach", "climb", "takeoff">>
Uniform == {[m \in Modes |-> s] : s \in SNs}
MixedTuples == {<<0, 10, 20, 25>>, <<-1, 5, 0, 30>>, <<13, 0, -1, 2>>, <<40, 41, 0, 1>>, <<8, -1, 13, 0>>, <<0, 0, 0, 20>>}
Mixed == {[m \in Modes |-> t[CHOOSE i \in 1..4 : ModeSeq[i] = m]] : t \in MixedTuples}
VARIABLES vec, out
svars == <<vec, out>>
SInit == vec \in Uniform \cup Mixed
         /\ out = [sn |-> [m \in Modes |-> vec[m]], ei |-> [e \in Engines |-> [m \in Modes |-> Ei(vec[m], m, e)]]]
SNext == UNCHANGED svars
SSpec == SInit /\ [][SNext]_svars
\* shape: no-data gives nothing, the cap, growth with the smoke number, idle highest per smoke number
NoDataIsZero == \A m \in Modes : vec[m] \in {-1, 0} => \A e \in Engines : Ei(vec[m], m, e) = 0
CapAt40 == \A m \in Modes : vec[m] > 40 => \A e \in Engines : Ei(vec[m], m, e) = Ei(40, m, e)
Grows == \A m \in Modes : (vec[m] >= 1 /\ vec[m] < 40) => \A e \in Engines : Ei(vec[m], m, e) <= Ei(vec[m] + 1, m, e)
IdleHighestPerSmoke == \A s \in SNs : s >= 1 => \A e \in Engines : Ei(s, "idle", e) >= Ei(s, "takeoff", e)
ModesIndependent == \A m \in Modes, e \in Engines : out.ei[e][m] = Ei(vec[m], m, e)
Emit == PrintT("@@" \o ToJson(out))
=============================================================================
