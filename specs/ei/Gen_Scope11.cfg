SPECIFICATION SSpec
CONSTRAINT Emit
CHECK_DEADLOCK FALSE
