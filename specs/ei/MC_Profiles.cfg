SPECIFICATION PSpec
CONSTANTS
  MaxLen = 4
INVARIANT CoefNonNegative
CHECK_DEADLOCK FALSE
