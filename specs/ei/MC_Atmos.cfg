SPECIFICATION ASpec
INVARIANT PressureFalls
INVARIANT SeaLevelIsOne
INVARIANT TropopauseContinuous
INVARIANT Ffm2AtLeastOne
INVARIANT Ffm2GrowsWithMach
INVARIANT HcCoAtLeastOne
INVARIANT NoxIsInverseRootOfHcCo
INVARIANT HumidityBounded
CHECK_DEADLOCK FALSE
