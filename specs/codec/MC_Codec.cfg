SPECIFICATION CSpec
CONSTANTS
  U = {1, 3, 5}
  Design = "filepos"
  ReadRule = "written"
  UnsetSpace <- NoUnset
  ScalarRule = "fill_is_unset"
  ListRule = "own_file"
  DfltSpace <- PlainDflt
  ArrSpace <- OneArr
  LayoutSpace <- TwoLayouts
INVARIANT NoWriteError
INVARIANT RoundTrip
INVARIANT AllOrNothing
INVARIANT ScalarRoundTrip
INVARIANT SpeciesExact
CHECK_DEADLOCK FALSE
