SPECIFICATION CSpec
CONSTANTS
  U = {1, 3, 5}
  Design = "filepos"
  ReadRule = "written"
  UnsetSpace <- NoUnset
  ScalarRule = "fill_is_unset"
  DfltSpace <- SomeDflt
  LayoutSpace <- OneLayout
INVARIANT NoWriteError
INVARIANT RoundTrip
INVARIANT ScalarRoundTrip
INVARIANT SpeciesExact
CHECK_DEADLOCK FALSE
