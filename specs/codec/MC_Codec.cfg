SPECIFICATION CSpec
CONSTANTS
  U = {1, 3, 5}
  Design = "filepos"
  ReadRule = "written"
  UnsetSpace <- NoUnset
  LayoutSpace <- OneLayout
INVARIANT NoWriteError
INVARIANT RoundTrip
INVARIANT SpeciesExact
CHECK_DEADLOCK FALSE
