SPECIFICATION SSpec
CONSTANTS
  U = {1, 3, 5, 15}
  Design = "filepos"
  ReadRule = "written"
  UnsetSpace <- AllUnset
  ScalarRule = "fill_is_unset"
  ListRule = "own_file"
  DfltSpace <- AllDflt
  ArrSpace <- ArrForms
  LayoutSpace <- Layouts
  D = 100
CONSTRAINT EmitRead
CHECK_DEADLOCK FALSE
