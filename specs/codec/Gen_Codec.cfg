SPECIFICATION GSpec
CONSTANTS
  U = {1, 5}
  Design = "filepos"
  ReadRule = "written"
  UnsetSpace <- AllUnset
  LayoutSpace <- Layouts
  D = 0
INVARIANT RoundTrip
INVARIANT SpeciesExact
CONSTRAINT EmitRead
CHECK_DEADLOCK FALSE
