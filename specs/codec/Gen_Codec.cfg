SPECIFICATION GSpec
CONSTANTS
  U = {1, 5}
  Design = "filepos"
  ReadRule = "written"
  UnsetSpace <- AllUnset
  ScalarRule = "fill_is_unset"
  ListRule = "own_file"
  DfltSpace <- AllDflt
  ArrSpace <- ArrForms
  LayoutSpace <- Layouts
  D = 0
INVARIANT RoundTrip
INVARIANT AllOrNothing
INVARIANT ScalarRoundTrip
INVARIANT SpeciesExact
CONSTRAINT EmitRead
CHECK_DEADLOCK FALSE
