-------------------------------- MODULE Codec --------------------------------
(***************************************************************************)
(* How a trajectory's species-indexed and optional values are laid out in a  *)
(* NetCDF group by TrajectoryStore (_create_dimensions, _write_to_nc_var,    *)
(* _read_from_nc_var in src/AEIC/trajectories/store.py) and rebuilt on read. *)
(*                                                                          *)
(* The file has a `species` coordinate list = the sorted union of the        *)
(* species present in the species-indexed fields of the first trajectory.    *)
(* A value for species sp is stored at the position of sp IN THAT LIST (not  *)
(* at its position in the Species enumeration); cells never written hold the *)
(* fill value and must not be reported on read.  Optional per-trajectory     *)
(* scalars that were never set read back as unset.                           *)
(*                                                                          *)
(* Species are the integer values of AEIC.types.Species.  Design selects the *)
(* write-position rule and ReadRule the read rule, so that the defective     *)
(* variants (enum position / report every file species) can be model-checked *)
(* as negative controls.                                                     *)
(***************************************************************************)
EXTENDS Naturals, Sequences, FiniteSets, TLC, SequencesExt

CONSTANTS U,         \* species universe (subset of 1..16, with gaps)
          Design,    \* "filepos" | "enumpos"
          ReadRule,  \* "written" | "all"
          UnsetSpace, LayoutSpace,  \* which unset patterns / layouts are enumerated
          ScalarRule,  \* "fill_is_unset" | "fill_is_default": what a never-written scalar cell reads as
          ListRule,    \* "own_file" | "first_file": which file's species list labels the cells read from a file
          DfltSpace,   \* which patterns of the default-bearing optional scalars are enumerated
          ArrSpace     \* in which form per-point arrays are handed to the trajectory

SFields == {"ts1", "ts2", "tsp", "tsm"}   \* TS, TS, TSP, TSM species-indexed fields
Opt == {"t_f", "t_i", "t_s"}              \* optional T scalars: float, int, str (no declared default)
OptD == {"t_fd", "t_id"}                  \* optional T scalars with a declared default (float 2.5, int 0),
                                          \* like the n_* phase counts of the base field set
\* per trajectory the default-bearing scalars are: given a value; explicitly
\* given None; or never assigned (the container then holds the default)
OptStates == {"set", "none", "untouched"}
AllDflt == [{1, 2} -> OptStates]
PlainDflt == {[t \in {1, 2} |-> "set"]}
SomeDflt == PlainDflt \cup {[t \in {1, 2} |-> IF t = 1 THEN "none" ELSE "untouched"], [t \in {1, 2} |-> IF t = 1 THEN "untouched" ELSE "none"]}
\* per-point arrays as the caller supplies them: a contiguous array of the field's type, a strided view
\* (every second element of a larger buffer, e.g. a table column), an array of a smaller type that is cast.
\* The file holds the VALUES in each case.
ArrForms == {"contiguous", "strided", "cast"}
OneArr == {"contiguous"}
\* "extra": the second trajectory carries, in ts1, one species more than the list its file was created with.  Such a
\* trajectory does not fit the file: it is refused (and then nothing of it is stored), never stored in part.
Selectors == {"same", "none", "shift", "firstonly", "extra"}
\* "split": the fields ts2 and tsm form a second field set kept in an associated
\* file written together with the base file (both files get the species list of
\* the whole trajectory); "split_assoc": that associated file is produced later
\* by create_associated from an existing base file - two files, each with its
\* OWN species list
\* DataTypes: besides 32-bit integers, floats and strings the field sets hold 64-bit integers - scalar, per thrust mode and
\* per point - with values beyond 2^53 (which no float64 can hold): they read back as the same integers
\* PointCounts: a trajectory has one point or more; the per-point fields of a one-point trajectory are arrays of length one
\* and round-trip like any others (the harness gives the second trajectory of every third case exactly one point)
PointCounts == {"one", "several"}
\* "extremes": every value of a field's type other than the container's marker for "never written" is a value - floats
\* beyond 1e37 and +inf, the smallest 32- and 64-bit integers, a species value of 1e300 read back as written (the
\* harness gives them to the second trajectory of every second case)
\* "save_retry": an in-memory store whose first save - asking for an associated file at a path that cannot be
\* created - is refused, then saved into one file: a refused save leaves nothing behind that a later save sees
\* "override_in_session": as "single", and before the writing session is closed an associated file holding ANOTHER version
\* of the same field set is produced from the store by create_associated (the optional scalars unset where the base has them set and the other way round): the
\* base file reads back what was added; opened together with that file (override) it reads back the other version
Layouts == {"single", "assoc_at_create", "create_associated", "save_from_memory", "save_retry", "evicted", "split", "split_assoc", "override_in_session"}
Trajs == {1, 2}
AllUnset == SUBSET Opt
NoUnset == {{}}
SomeUnset == {{}, Opt, {"t_i"}}
OneLayout == {"single"}
TwoLayouts == {"single", "split_assoc"}

Next1(f) == CASE f = "ts1" -> "ts2" [] f = "ts2" -> "tsp" [] f = "tsp" -> "tsm" [] f = "tsm" -> "ts1"

\* a species the file of ts1 has no position for (none if the file already lists the whole universe)
ExtraOf(c) == LET rest == U \ (UNION {c.s[f] : f \in SFields}) IN IF rest = {} THEN {} ELSE {CHOOSE x \in rest : \A y \in rest : x <= y}
Fits(c) == c.sel # "extra" \/ ExtraOf(c) = {}
\* species sets of trajectory t under a case
Sets(c, t) == IF t = 1 THEN c.s
              ELSE CASE c.sel = "same" -> c.s
                     [] c.sel = "none" -> [f \in SFields |-> {}]
                     [] c.sel = "shift" -> [f \in SFields |-> c.s[Next1(f)]]
                     [] c.sel = "firstonly" -> [f \in SFields |-> IF f = "ts1" THEN c.s[f] ELSE {}]
                     [] c.sel = "extra" -> [f \in SFields |-> IF f = "ts1" THEN c.s[f] \cup ExtraOf(c) ELSE c.s[f]]

FileOf(c, f) == IF c.layout \in {"split", "split_assoc"} /\ f \in {"ts2", "tsm"} THEN 2 ELSE 1
FileSet(c, k) == IF c.layout = "split_assoc" THEN UNION {c.s[f] : f \in {g \in SFields : FileOf(c, g) = k}}
                 ELSE UNION {c.s[f] : f \in SFields}
FileSpeciesOf(c, k) == SetToSortSeq(FileSet(c, k), LAMBDA a, b : a < b)
FileSpecies(c) == FileSpeciesOf(c, 1)     \* (the only list of the one-file layouts)
\* the list that labels what is read for field f
ReadList(c, f) == IF ListRule = "own_file" \/ FileSpeciesOf(c, 1) = <<>> THEN FileSpeciesOf(c, FileOf(c, f)) ELSE FileSpeciesOf(c, 1)
PosIn(sp, seq) == CHOOSE i \in 1..Len(seq) : seq[i] = sp

Val(f, t, sp) == (CASE f = "ts1" -> 1 [] f = "ts2" -> 2 [] f = "tsp" -> 3 [] f = "tsm" -> 4) * 1000 + t * 100 + sp

WritePos(c, f, sp) == IF Design = "filepos" THEN PosIn(sp, FileSpeciesOf(c, FileOf(c, f))) ELSE sp

VARIABLES case, phase, file, back, err,
          sfile, sback    \* the per-trajectory scalar cells and what is read from them
cvars == <<case, phase, file, back, err, sfile, sback>>

CaseSpace == {c \in [s : [SFields -> SUBSET U], sel : Selectors, unset : UnsetSpace, layout : LayoutSpace, dflt : DfltSpace, arr : ArrSpace] :
                 (c.layout \in {"split", "split_assoc"} => c.sel # "shift") /\ (c.sel = "extra" => c.layout \in {"single", "evicted", "create_associated"})}    \* (a shifted second trajectory would not fit the two species lists)

CInit == /\ case \in CaseSpace
         /\ phase = "start" /\ file = <<>> /\ back = <<>> /\ err = "none"
         /\ sfile = <<>> /\ sback = <<>>

\* abstract scalar values: <<field, t>> is the value given to trajectory t,
\* <<field, 0>> the field's declared default, Unset = None / the fill value
Unset == <<"unset", 0>>
HeldBy(c, f, t) ==    \* what the trajectory holds when it is added
  IF f \in Opt THEN (IF f \in c.unset THEN Unset ELSE <<f, t>>)
  ELSE CASE c.dflt[t] = "set" -> <<f, t>> [] c.dflt[t] = "none" -> Unset [] c.dflt[t] = "untouched" -> <<f, 0>>

Cells(c) == {<<f, t, sp>> : f \in SFields, t \in Trajs, sp \in U}
Stored(c, t) == t = 1 \/ Fits(c)        \* the second trajectory is stored only if it fits the file
\* AfterRefusal: a second trajectory that does not fit is REFUSED as a whole - nothing of it is in the file, the store is as
\* long as before, and the next addition (the harness gives a sparse one: no species values, every optional scalar unset) takes the index the refused one
\* would have had and reads back as given: no cell of the refused trajectory shows through where the new one is unset
Written(c) == {x \in Cells(c) : Stored(c, x[2]) /\ x[3] \in Sets(c, x[2])[x[1]]}

\* writing: one cell per present species; a position beyond the species
\* dimension is an error ("NetCDF: Index exceeds dimension bound")
Write ==
  /\ phase = "start"
  /\ IF \E x \in Written(case) : WritePos(case, x[1], x[3]) > Len(FileSpeciesOf(case, FileOf(case, x[1])))
     THEN err' = "index_exceeds_dimension" /\ file' = file /\ phase' = "failed" /\ sfile' = sfile
     ELSE /\ file' = [k \in {<<x[1], x[2], WritePos(case, x[1], x[3])>> : x \in Written(case)} |->
                        LET x == CHOOSE y \in Written(case) : <<y[1], y[2], WritePos(case, y[1], y[3])>> = k
                        IN Val(x[1], x[2], x[3])]
          /\ err' = err /\ phase' = "written"
          \* a scalar that is None is not written: its cell keeps the fill value
          /\ sfile' = [ft \in (Opt \cup OptD) \X Trajs |-> HeldBy(case, ft[1], ft[2])]
  /\ UNCHANGED <<case, back, sback>>

\* reading: rebuild, per field and trajectory, the set of <<species, value>>
Fill == 0
CellVal(k) == IF k \in DOMAIN file THEN file[k] ELSE Fill
Read ==
  /\ phase = "written"
  /\ back' = [ft \in SFields \X Trajs |->
                LET own == FileSpeciesOf(case, FileOf(case, ft[1]))
                    lab == ReadList(case, ft[1])
                IN {<<IF p <= Len(lab) THEN lab[p] ELSE 0, CellVal(<<ft[1], ft[2], p>>)>> :      \* label 0: no such entry in the list used
                    p \in {q \in 1..Len(own) : ReadRule = "all" \/ <<ft[1], ft[2], q>> \in DOMAIN file}}]
  /\ sback' = [ft \in DOMAIN sfile |->
                 IF sfile[ft] = Unset /\ ScalarRule = "fill_is_default" /\ ft[1] \in OptD THEN <<ft[1], 0>> ELSE sfile[ft]]
  /\ phase' = "read"
  /\ UNCHANGED <<case, file, err, sfile>>

CNext == Write \/ Read
CSpec == CInit /\ [][CNext]_cvars

Original(c) == [ft \in SFields \X Trajs |-> IF Stored(c, ft[2]) THEN {<<sp, Val(ft[1], ft[2], sp)>> : sp \in Sets(c, ft[2])[ft[1]]} ELSE {}]
\* nothing of a refused trajectory is in the file
AllOrNothing == phase \in {"written", "read"} => \A k \in DOMAIN file : Stored(case, k[2])

\* C03: what was stored is what is read back, species exact
NoWriteError == err = "none"
RoundTrip == phase = "read" => back = Original(case)
\* unset optional scalars read back as stored: None stays None also when the
\* field declares a default; a never-assigned one reads as its default
ScalarRoundTrip == phase = "read" =>
   \A ft \in (Opt \cup OptD) \X Trajs : sback[ft] = HeldBy(case, ft[1], ft[2])
SpeciesExact == phase = "read" =>
   \A ft \in SFields \X Trajs : {pr[1] : pr \in back[ft]} = (IF Stored(case, ft[2]) THEN Sets(case, ft[2])[ft[1]] ELSE {})
=============================================================================
