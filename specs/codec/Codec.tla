-------------------------------- MODULE Codec --------------------------------
(***************************************************************************)
(* How a trajectory's species-indexed and optional values are laid out in a  *)
(* NetCDF group by TrajectoryStore (_create_dimensions, _write_to_nc_var,    *)
(* _read_from_nc_var in src/AEIC/trajectories/store.py) and rebuilt on read. *)
(*                                                                          *)
(* The file has a `species` coordinate list = the sorted union of the        *)
(* species present in the species-indexed fields of the first trajectory.    *)
(* A value for species sp is stored at the position of sp IN THAT LIST (not  *)
(* at its position in the Species enumeration); cells never written hold the *)
(* fill value and must not be reported on read.  Optional per-trajectory     *)
(* scalars that were never set read back as unset.                           *)
(*                                                                          *)
(* Species are the integer values of AEIC.types.Species.  Design selects the *)
(* write-position rule and ReadRule the read rule, so that the defective     *)
(* variants (enum position / report every file species) can be model-checked *)
(* as negative controls.                                                     *)
(***************************************************************************)
EXTENDS Naturals, Sequences, FiniteSets, TLC, SequencesExt

CONSTANTS U,         \* species universe (subset of 1..16, with gaps)
          Design,    \* "filepos" | "enumpos"
          ReadRule,  \* "written" | "all"
          UnsetSpace, LayoutSpace,  \* which unset patterns / layouts are enumerated
          ScalarRule,  \* "fill_is_unset" | "fill_is_default": what a never-written scalar cell reads as
          DfltSpace    \* which patterns of the default-bearing optional scalars are enumerated

SFields == {"ts1", "ts2", "tsp", "tsm"}   \* TS, TS, TSP, TSM species-indexed fields
Opt == {"t_f", "t_i", "t_s"}              \* optional T scalars: float, int, str (no declared default)
OptD == {"t_fd", "t_id"}                  \* optional T scalars with a declared default (float 2.5, int 0),
                                          \* like the n_* phase counts of the base field set
\* per trajectory the default-bearing scalars are: given a value; explicitly
\* given None; or never assigned (the container then holds the default)
OptStates == {"set", "none", "untouched"}
AllDflt == [{1, 2} -> OptStates]
PlainDflt == {[t \in {1, 2} |-> "set"]}
SomeDflt == PlainDflt \cup {[t \in {1, 2} |-> IF t = 1 THEN "none" ELSE "untouched"], [t \in {1, 2} |-> IF t = 1 THEN "untouched" ELSE "none"]}
Selectors == {"same", "none", "shift", "firstonly"}
Layouts == {"single", "assoc_at_create", "create_associated", "save_from_memory", "evicted"}
Trajs == {1, 2}
AllUnset == SUBSET Opt
NoUnset == {{}}
OneLayout == {"single"}

Next1(f) == CASE f = "ts1" -> "ts2" [] f = "ts2" -> "tsp" [] f = "tsp" -> "tsm" [] f = "tsm" -> "ts1"

\* species sets of trajectory t under a case
Sets(c, t) == IF t = 1 THEN c.s
              ELSE CASE c.sel = "same" -> c.s
                     [] c.sel = "none" -> [f \in SFields |-> {}]
                     [] c.sel = "shift" -> [f \in SFields |-> c.s[Next1(f)]]
                     [] c.sel = "firstonly" -> [f \in SFields |-> IF f = "ts1" THEN c.s[f] ELSE {}]

FileSet(c) == UNION {c.s[f] : f \in SFields}
FileSpecies(c) == SetToSortSeq(FileSet(c), LAMBDA a, b : a < b)
PosIn(sp, seq) == CHOOSE i \in 1..Len(seq) : seq[i] = sp

Val(f, t, sp) == (CASE f = "ts1" -> 1 [] f = "ts2" -> 2 [] f = "tsp" -> 3 [] f = "tsm" -> 4) * 1000 + t * 100 + sp

WritePos(c, sp) == IF Design = "filepos" THEN PosIn(sp, FileSpecies(c)) ELSE sp

VARIABLES case, phase, file, back, err,
          sfile, sback    \* the per-trajectory scalar cells and what is read from them
cvars == <<case, phase, file, back, err, sfile, sback>>

CaseSpace == [s : [SFields -> SUBSET U], sel : Selectors, unset : UnsetSpace, layout : LayoutSpace, dflt : DfltSpace]

CInit == /\ case \in CaseSpace
         /\ phase = "start" /\ file = <<>> /\ back = <<>> /\ err = "none"
         /\ sfile = <<>> /\ sback = <<>>

\* abstract scalar values: <<field, t>> is the value given to trajectory t,
\* <<field, 0>> the field's declared default, Unset = None / the fill value
Unset == <<"unset", 0>>
HeldBy(c, f, t) ==    \* what the trajectory holds when it is added
  IF f \in Opt THEN (IF f \in c.unset THEN Unset ELSE <<f, t>>)
  ELSE CASE c.dflt[t] = "set" -> <<f, t>> [] c.dflt[t] = "none" -> Unset [] c.dflt[t] = "untouched" -> <<f, 0>>

Cells(c) == {<<f, t, sp>> : f \in SFields, t \in Trajs, sp \in U}
Written(c) == {x \in Cells(c) : x[3] \in Sets(c, x[2])[x[1]]}

\* writing: one cell per present species; a position beyond the species
\* dimension is an error ("NetCDF: Index exceeds dimension bound")
Write ==
  /\ phase = "start"
  /\ IF \E x \in Written(case) : WritePos(case, x[3]) > Len(FileSpecies(case))
     THEN err' = "index_exceeds_dimension" /\ file' = file /\ phase' = "failed" /\ sfile' = sfile
     ELSE /\ file' = [k \in {<<x[1], x[2], WritePos(case, x[3])>> : x \in Written(case)} |->
                        LET x == CHOOSE y \in Written(case) : <<y[1], y[2], WritePos(case, y[3])>> = k
                        IN Val(x[1], x[2], x[3])]
          /\ err' = err /\ phase' = "written"
          \* a scalar that is None is not written: its cell keeps the fill value
          /\ sfile' = [ft \in (Opt \cup OptD) \X Trajs |-> HeldBy(case, ft[1], ft[2])]
  /\ UNCHANGED <<case, back, sback>>

\* reading: rebuild, per field and trajectory, the set of <<species, value>>
Fill == 0
CellVal(k) == IF k \in DOMAIN file THEN file[k] ELSE Fill
Read ==
  /\ phase = "written"
  /\ back' = [ft \in SFields \X Trajs |->
                {<<FileSpecies(case)[p], CellVal(<<ft[1], ft[2], p>>)>> :
                    p \in {q \in 1..Len(FileSpecies(case)) :
                             ReadRule = "all" \/ <<ft[1], ft[2], q>> \in DOMAIN file}}]
  /\ sback' = [ft \in DOMAIN sfile |->
                 IF sfile[ft] = Unset /\ ScalarRule = "fill_is_default" /\ ft[1] \in OptD THEN <<ft[1], 0>> ELSE sfile[ft]]
  /\ phase' = "read"
  /\ UNCHANGED <<case, file, err, sfile>>

CNext == Write \/ Read
CSpec == CInit /\ [][CNext]_cvars

Original(c) == [ft \in SFields \X Trajs |-> {<<sp, Val(ft[1], ft[2], sp)>> : sp \in Sets(c, ft[2])[ft[1]]}]

\* C03: what was stored is what is read back, species exact
NoWriteError == err = "none"
RoundTrip == phase = "read" => back = Original(case)
\* unset optional scalars read back as stored: None stays None also when the
\* field declares a default; a never-assigned one reads as its default
ScalarRoundTrip == phase = "read" =>
   \A ft \in (Opt \cup OptD) \X Trajs : sback[ft] = HeldBy(case, ft[1], ft[2])
SpeciesExact == phase = "read" =>
   \A ft \in SFields \X Trajs : {pr[1] : pr \in back[ft]} = Sets(case, ft[2])[ft[1]]
=============================================================================
