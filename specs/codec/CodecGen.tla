------------------------------ MODULE CodecGen ------------------------------
(* Case generators: (a) exhaustive over a 2-species universe with a gap,     *)
(* (b) a random walk through the case space of the 4-species universe.       *)
EXTENDS Codec, Json
CONSTANT D
VARIABLE n
\* the exhaustive generator pairs the default-bearing pattern with the other
\* dimensions (all 9 patterns occur, with every layout); the random walk draws it freely
DfltFor(c) == [t \in {1, 2} |-> IF t = 1 THEN (CASE Cardinality(c.unset) % 3 = 0 -> "none" [] Cardinality(c.unset) % 3 = 1 -> "untouched" [] OTHER -> "set")
                                 ELSE (CASE c.sel = "same" -> "none" [] c.sel = "none" -> "set" [] c.sel = "shift" -> "untouched" [] OTHER -> "none")]
ArrFor(c) == CASE (Cardinality(c.s["tsp"]) + Cardinality(c.unset)) % 3 = 0 -> "strided"
                [] (Cardinality(c.s["tsp"]) + Cardinality(c.unset)) % 3 = 1 -> "contiguous" [] OTHER -> "cast"
GInit == CInit /\ n = 0 /\ case.dflt = DfltFor(case) /\ case.arr = ArrFor(case)
GNext == CNext /\ UNCHANGED n
GSpec == GInit /\ [][GNext]_<<cvars, n>>
SetSeq(S) == SetToSortSeq(S, LAMBDA a, b : a < b)
Out(c) == [s |-> [f \in SFields |-> SetSeq(c.s[f])],
           s2 |-> [f \in SFields |-> SetSeq(Sets(c, 2)[f])],
           filespecies |-> FileSpecies(c), filespecies2 |-> FileSpeciesOf(c, 2),
           unset |-> SetToSortSeq(c.unset, LAMBDA a, b : a = "t_f" \/ (a = "t_i" /\ b = "t_s")),
           dflt |-> c.dflt, scal |-> [f \in Opt \cup OptD |-> [t \in Trajs |-> HeldBy(c, f, t)[2]]],
           sel |-> c.sel, layout |-> c.layout, arr |-> c.arr, fits |-> Fits(c)]
EmitRead == phase = "read" => PrintT("@@" \o ToJson(Out(case)))

\* random walk: every step draws a fresh case
RandCase(k) == [s |-> [f \in SFields |-> RandomElement(SUBSET U)], sel |-> RandomElement(Selectors \ {"shift", "extra"}),
             unset |-> RandomElement(SUBSET Opt), layout |-> RandomElement(Layouts), dflt |-> RandomElement(AllDflt), arr |-> RandomElement(ArrForms)]
SInit == case = RandCase(0) /\ phase = "read" /\ file = <<>> /\ back = <<>> /\ err = "none" /\ n = 0 /\ sfile = <<>> /\ sback = <<>>
SNext == n < D /\ n' = n + 1 /\ case' = RandCase(n) /\ UNCHANGED <<phase, file, back, err, sfile, sback>>
SSpec == SInit /\ [][SNext]_<<cvars, n>>
=============================================================================
