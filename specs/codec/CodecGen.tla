------------------------------ MODULE CodecGen ------------------------------
(* Case generators: (a) exhaustive over a 2-species universe with a gap,     *)
(* (b) a random walk through the case space of the 4-species universe.       *)
EXTENDS Codec, Json
CONSTANT D
VARIABLE n
GInit == CInit /\ n = 0
GNext == CNext /\ UNCHANGED n
GSpec == GInit /\ [][GNext]_<<cvars, n>>
SetSeq(S) == SetToSortSeq(S, LAMBDA a, b : a < b)
Out(c) == [s |-> [f \in SFields |-> SetSeq(c.s[f])],
           s2 |-> [f \in SFields |-> SetSeq(Sets(c, 2)[f])],
           filespecies |-> FileSpecies(c),
           unset |-> SetToSortSeq(c.unset, LAMBDA a, b : a = "t_f" \/ (a = "t_i" /\ b = "t_s")),
           sel |-> c.sel, layout |-> c.layout]
EmitRead == phase = "read" => PrintT("@@" \o ToJson(Out(case)))

\* random walk: every step draws a fresh case
RandCase(k) == [s |-> [f \in SFields |-> RandomElement(SUBSET U)], sel |-> RandomElement(Selectors),
             unset |-> RandomElement(SUBSET Opt), layout |-> RandomElement(Layouts)]
SInit == case = RandCase(0) /\ phase = "read" /\ file = <<>> /\ back = <<>> /\ err = "none" /\ n = 0
SNext == n < D /\ n' = n + 1 /\ case' = RandCase(n) /\ UNCHANGED <<phase, file, back, err>>
SSpec == SInit /\ [][SNext]_<<cvars, n>>
=============================================================================
