----------------------------- MODULE BadaMassGen -----------------------------
EXTENDS BadaMass, Json
Emit == Done => PrintT("@@" \o ToJson([prof |-> prof, dir |-> dir, anchor |-> anchor, mass |-> mass, wind |-> [i \in 1..Len(prof) |-> WindAt(wind, i)], windname |-> wind]))
=============================================================================
