SPECIFICATION SSpec
CONSTANTS
  Design = "per_call"
  D = 2
CONSTRAINT HEmit
CHECK_DEADLOCK FALSE
