SPECIFICATION MSpec
CONSTANTS
  MaxLen = 4
  Alphabet = {9, 0, 1, 2, 4}
INVARIANT StartsAtPrescribed
INVARIANT NonIncreasing
INVARIANT StepIsTrapezoid
CHECK_DEADLOCK FALSE
