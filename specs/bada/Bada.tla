--------------------------------- MODULE Bada ---------------------------------
(***************************************************************************)
(* BADA-3 fuel-burn model (src/AEIC/BADA/model.py, fuel_burn_base.py):       *)
(* per-point equations over exact rationals in a contrived unit system       *)
(* (rho * S_ref = 2, weights W = m g0, accelerations in units of g0,         *)
(* altitude as a fraction of c_tc2, jet SFC = s (1 + v / v0), ...) in which  *)
(* every intermediate is a small rational, and the cumulative-trapezoid      *)
(* mass update.  The harness multiplies the physical constants back in.      *)
(***************************************************************************)
EXTENDS Integers, Sequences, TLC, Rat

Engines == {"Jet", "Turboprop", "Piston"}

\* ---- per-point case: all fields are rationals or flags
\*  W    weight m*g0 [N]                v     true airspeed [m/s]
\*  rocd rate of climb [m/s]            a     acceleration / g0
\*  hf   altitude / c_tc2               der   deration factor selector
\*  cruise flag
CD0 == R(1, 2)
CD2 == R(1, 3600)
CTC1 == I(400)
CTC3tp == I(50)
\* maximum cruise thrust as a fraction of maximum climb thrust: an aircraft parameter like any other (the parameter
\* class happens to default it to 0.95) - a case dimension
CTCRs == {R(19, 20), R(4, 5)}
CTDES_HIGH == R(1, 10)
CTDES_LOW == R(1, 5)
HPDES == R(3, 8)          \* as a fraction of c_tc2 (a lattice altitude: AT the transition altitude the low coefficient applies, BADA-3 3.7-10)
CFCR == R(9, 10)
V0 == I(10)

\* "advanced": a NEGATIVE C_Tc4 (legal in BADA data: the deration starts 5 K below ISA) at ISA temperature: 1 - 0.01 * 5
\* "inverted": a NEGATIVE C_Tc5 counts as zero (BADA: C_Tc5 >= 0) - on a cold day (10 K below ISA) the product of the two
\* negative numbers is no thrust loss
Derate(sel) == CASE sel = "none" -> I(1) [] sel = "partial" -> R(9, 10) [] sel = "clipped" -> R(3, 5) [] sel = "cold" -> I(1) [] sel = "advanced" -> R(19, 20) [] sel = "inverted" -> I(1)

Drag(c) == Add(Mul(Sq(c.v), CD0), Div(Mul(CD2, Sq(c.W)), Sq(c.v)))
ThrustTE(c) == Add(Drag(c), Add(Div(Mul(c.W, c.rocd), c.v), Mul(c.W, c.a)))

MaxClimbISA(c) ==
  CASE c.eng = "Jet" -> Mul(CTC1, Sub(I(1), c.hf))
    [] c.eng = "Turboprop" -> Add(Mul(Div(I(4000), c.v), Sub(I(1), c.hf)), CTC3tp)
    [] c.eng = "Piston" -> Add(Mul(CTC1, Sub(I(1), c.hf)), Div(I(500), c.v))
MaxClimb(c) == Mul(MaxClimbISA(c), Derate(c.der))
MaxCruise(c) == Mul(MaxClimb(c), c.ctcr)
DescentThrust(c) == IF Lt(HPDES, c.hf) THEN Mul(CTDES_HIGH, MaxClimb(c)) ELSE Mul(CTDES_LOW, MaxClimb(c))
MaxThrust(c) == IF c.cruise THEN MaxCruise(c) ELSE MaxClimb(c)

\* total-energy thrust, limited above by max climb/cruise thrust, replaced by
\* descent thrust when negative
SelectThrust(c) ==
  LET te == ThrustTE(c)
      capped == IF Lt(MaxThrust(c), te) THEN MaxThrust(c) ELSE te
  IN IF IsNeg(capped) THEN DescentThrust(c) ELSE capped
Regime(c) == IF Lt(MaxThrust(c), ThrustTE(c)) THEN "above_max"
             ELSE IF IsNeg(ThrustTE(c)) THEN "negative" ELSE "inside"

SFC(c) == CASE c.eng = "Jet" -> Mul(R(1, 1000), Add(I(1), Div(c.v, V0)))
            [] c.eng = "Turboprop" -> Mul(Mul(R(1, 10000), Sub(I(1), Div(c.v, I(40)))), c.v)
            [] c.eng = "Piston" -> I(0)
NominalFF(c) == IF c.eng = "Piston" THEN R(1, 2) ELSE Mul(SFC(c), SelectThrust(c))
FuelFlow(c) == IF c.cruise THEN Mul(NominalFF(c), CFCR) ELSE NominalFF(c)
\* specific ground range = ground speed / fuel flow (ground speed = v here)
Sgr(c) == Div(c.v, FuelFlow(c))

PointCases == [eng : Engines, W : {I(600), I(1200)}, v : {I(10), I(20)},
               rocd : {I(-15), I(-5), I(0), I(5), I(40)}, a : {I(0), R(1, 10), R(-1, 5)},     \* (a strong deceleration makes the
               \* total-energy thrust negative in level flight and in climb as well)
               hf : {I(0), R(1, 4), HPDES, R(1, 2)}, der : {"none", "partial", "clipped", "cold", "advanced", "inverted"},
               cruise : BOOLEAN, ctcr : CTCRs]

VARIABLES pcase, out, st
pvars == <<pcase, out, st>>
PInit == pcase \in PointCases /\ out = <<>> /\ st = "pending"
PNext == /\ st = "pending" /\ st' = "done"
         /\ out' = [te |-> ThrustTE(pcase), maxclimb |-> MaxClimb(pcase), maxcruise |-> MaxCruise(pcase),
                    descent |-> DescentThrust(pcase), thrust |-> SelectThrust(pcase),
                    ff |-> FuelFlow(pcase), regime |-> Regime(pcase)]
         /\ UNCHANGED pcase
PSpec == PInit /\ [][PNext]_pvars

Done == st = "done"
ThrustWithinLimits == Done => /\ Le(out.thrust, MaxThrust(pcase))
                               /\ ~IsNeg(out.thrust)
DescentWhenNegative == (Done /\ out.regime = "negative") => out.thrust = out.descent
CappedWhenAbove == (Done /\ out.regime = "above_max") => out.thrust = MaxThrust(pcase)
NegativeAlsoWithoutDescending == \E c \in PointCases : ~IsNeg(c.rocd) /\ IsNeg(ThrustTE(c)) /\ ~Lt(MaxThrust(c), ThrustTE(c))
InsideIsTE == (Done /\ out.regime = "inside") => out.thrust = out.te
CruiseFactorOnlyInCruise == Done =>
   out.ff = (IF pcase.cruise THEN Mul(NominalFF(pcase), CFCR) ELSE NominalFF(pcase))
FuelFlowPositive == Done => ~IsNeg(out.ff)
=============================================================================
