SPECIFICATION WSpec
CONSTANTS
  Design = "per_call"
  D = 6
CONSTRAINT HEmit
CHECK_DEADLOCK FALSE
