SPECIFICATION SSpec
CONSTANTS
  Design = "per_call"
  D = 3
INVARIANT HistoryIndependent
CHECK_DEADLOCK FALSE
