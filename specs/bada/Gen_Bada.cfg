SPECIFICATION PSpec
CONSTRAINT Emit
CHECK_DEADLOCK FALSE
