----------------------------- MODULE BadaSession -----------------------------
(***************************************************************************)
(* Several evaluations on ONE Bada3FuelBurnModel instance                    *)
(* (src/AEIC/BADA/model.py: calculate_thrust, calculate_specific_ground_     *)
(* range, the iterate_* schemes call them once per pass).  Every evaluation  *)
(* is a function of its own arguments - altitude profile, temperature        *)
(* profile, mass, speed, climb rate, acceleration, cruise flag - and of the  *)
(* aircraft parameters only: the air density that enters drag is that of     *)
(* THIS call's altitude and temperature, the thrust limits are those of this *)
(* call's temperature deration, whatever the instance evaluated before.      *)
(* Design = "kept_density" models an instance that keeps the density of the  *)
(* last altitude profile and reuses it while the altitude profile is the     *)
(* same (negative control: an ISA+dT rerun of a route then flies with the    *)
(* previous day's density).                                                  *)
(***************************************************************************)
EXTENDS Naturals, Sequences, FiniteSets, TLC, Json
CONSTANTS Design, D

Alts == {"low", "mid", "high"}                       \* below / around / above h_p_des
Ders == {"none", "partial", "clipped", "cold"}       \* temperature offsets of Bada.tla
Loads == {"light", "heavy"}
Forms == {"point", "profile"}                        \* one point or a three-point profile per call
Calls == [alt : Alts, der : Ders, load : Loads, form : Forms]

VARIABLES sess, kept
svars == <<sess, kept>>
SInit == sess = <<>> /\ kept = [filled |-> FALSE, alt |-> "-", form |-> "-", der |-> "-"]
\* the (altitude, temperature) pair whose density enters the drag of call c
DensityOf(c) == IF Design = "per_call" \/ ~kept.filled \/ kept.alt # c.alt \/ kept.form # c.form
                THEN <<c.alt, c.der>> ELSE <<kept.alt, kept.der>>
Eval(c) == /\ Len(sess) < D
           /\ sess' = Append(sess, [call |-> c, density |-> DensityOf(c), limits |-> c.der])
           /\ kept' = IF DensityOf(c) = <<c.alt, c.der>> /\ (~kept.filled \/ kept.alt # c.alt \/ kept.form # c.form)
                      THEN [filled |-> TRUE, alt |-> c.alt, form |-> c.form, der |-> c.der] ELSE kept
SNext == \E c \in Calls : Eval(c)
SSpec == SInit /\ [][SNext]_svars
HistoryIndependent == \A i \in DOMAIN sess : sess[i].density = <<sess[i].call.alt, sess[i].call.der>> /\ sess[i].limits = sess[i].call.der

\* weighted walks for longer sessions (the argument mentions the state so that TLC does not fold the draw)
WNext == \E c \in {RandomElement(IF Len(sess) >= 0 THEN Calls ELSE {})} : Eval(c)
WSpec == SInit /\ [][WNext]_svars
HEmit == IF Len(sess) < D THEN TRUE ELSE PrintT("@@" \o ToJson([i \in DOMAIN sess |-> sess[i].call])) /\ FALSE
=============================================================================
