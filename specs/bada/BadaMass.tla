------------------------------ MODULE BadaMass ------------------------------
(***************************************************************************)
(* Mass integration of the BADA-3 fuel-burn model                            *)
(* (BaseFuelBurnModel.update_mass_vector / update_mass_vector_backward and   *)
(* Bada3FuelBurnModel.iterate_flight_simulation_XXX): the mass decrease over  *)
(* each step is the trapezoidal integral of 1 / specific ground range.       *)
(* Inverse specific ground ranges are integers in units of 1/1000 kg/m and   *)
(* the segment length is 2000 m, so each step burns (a_i + a_{i+1}) kg.      *)
(* A node whose specific ground range is below 1 m/kg counts as "no burn"    *)
(* (the code replaces it by infinity); it is encoded as the value 9.        *)
(***************************************************************************)
EXTENDS Integers, Sequences, TLC

CONSTANTS MaxLen, Alphabet

Contribution(a) == IF a = 9 THEN 0 ELSE a
StepBurn(p, i) == Contribution(p[i]) + Contribution(p[i + 1])
RECURSIVE BurnUpTo(_, _)
BurnUpTo(p, i) == IF i <= 1 THEN 0 ELSE BurnUpTo(p, i - 1) + StepBurn(p, i - 1)
TotalBurn(p) == BurnUpTo(p, Len(p))

Forward(p, m0) == [i \in 1..Len(p) |-> m0 - BurnUpTo(p, i)]
Backward(p, mN) == [i \in 1..Len(p) |-> mN + (TotalBurn(p) - BurnUpTo(p, i))]

Profiles == UNION {[1..n -> Alphabet] : n \in 2..MaxLen}

VARIABLES prof, dir, anchor, mass
mvars == <<prof, dir, anchor, mass>>
MInit == /\ prof \in Profiles /\ dir \in {"forward", "backward"} /\ anchor \in {1000, 1500}
         /\ mass = <<>>
MNext == /\ mass = <<>>
         /\ mass' = IF dir = "forward" THEN Forward(prof, anchor) ELSE Backward(prof, anchor)
         /\ UNCHANGED <<prof, dir, anchor>>
MSpec == MInit /\ [][MNext]_mvars

Done == mass # <<>>
StartsAtPrescribed == Done => (IF dir = "forward" THEN mass[1] = anchor ELSE mass[Len(mass)] = anchor)
NonIncreasing == Done => \A i \in 1..(Len(mass) - 1) : mass[i + 1] <= mass[i]
StepIsTrapezoid == Done => \A i \in 1..(Len(mass) - 1) : mass[i] - mass[i + 1] = StepBurn(prof, i)
=============================================================================
