------------------------------ MODULE BadaMass ------------------------------
(***************************************************************************)
(* Mass integration of the BADA-3 fuel-burn model                            *)
(* (BaseFuelBurnModel.update_mass_vector / update_mass_vector_backward and   *)
(* Bada3FuelBurnModel.iterate_flight_simulation_XXX): the mass decrease over  *)
(* each step is the trapezoidal integral of 1 / specific ground range.       *)
(* Inverse specific ground ranges are integers in units of 1/1000 kg/m and   *)
(* the segment length is 2000 m, so each step burns (a_i + a_{i+1}) kg.      *)
(* A node whose specific ground range is below 1 m/kg counts as "no burn"    *)
(* (the code replaces it by infinity); it is encoded as the value 9.        *)
(***************************************************************************)
EXTENDS Integers, Sequences, TLC
\* The iteration schemes take an iteration count; the MTOW cap and monotonicity of the fuel-dependent schemes hold for
\* every count - a single iteration, several, the default (the harness runs them all)
IterCounts == {1, 2, 4, "default"}

CONSTANTS MaxLen, Alphabet

Contribution(a) == IF a = 9 THEN 0 ELSE a
StepBurn(p, i) == Contribution(p[i]) + Contribution(p[i + 1])
RECURSIVE BurnUpTo(_, _)
BurnUpTo(p, i) == IF i <= 1 THEN 0 ELSE BurnUpTo(p, i - 1) + StepBurn(p, i - 1)
TotalBurn(p) == BurnUpTo(p, Len(p))

Forward(p, m0) == [i \in 1..Len(p) |-> m0 - BurnUpTo(p, i)]
Backward(p, mN) == [i \in 1..Len(p) |-> mN + (TotalBurn(p) - BurnUpTo(p, i))]

Profiles == UNION {[1..n -> Alphabet] : n \in 2..MaxLen}

\* The range flown per kg of fuel is GROUND speed / fuel flow: with wind the
\* true airspeed differs from the ground speed (tail wind: TAS = GS - 30 m/s,
\* head wind: GS + 30, shear: alternating), and the profile p - defined over
\* ground speeds - and hence the mass vector do not depend on it.
Winds == {"calm", "tail", "head", "shear"}
WindAt(w, i) == CASE w = "calm" -> 0 [] w = "tail" -> 30 [] w = "head" -> -30 [] w = "shear" -> (IF i % 2 = 0 THEN 30 ELSE -30)
VARIABLES prof, dir, anchor, wind, mass
mvars == <<prof, dir, anchor, wind, mass>>
MInit == /\ prof \in Profiles /\ dir \in {"forward", "backward"} /\ anchor \in {1000, 1500}
         /\ wind \in Winds
         /\ mass = <<>>
MNext == /\ mass = <<>>
         /\ mass' = IF dir = "forward" THEN Forward(prof, anchor) ELSE Backward(prof, anchor)
         /\ UNCHANGED <<prof, dir, anchor, wind>>
MSpec == MInit /\ [][MNext]_mvars

Done == mass # <<>>
StartsAtPrescribed == Done => (IF dir = "forward" THEN mass[1] = anchor ELSE mass[Len(mass)] = anchor)
NonIncreasing == Done => \A i \in 1..(Len(mass) - 1) : mass[i + 1] <= mass[i]
StepIsTrapezoid == Done => \A i \in 1..(Len(mass) - 1) : mass[i] - mass[i + 1] = StepBurn(prof, i)
=============================================================================
