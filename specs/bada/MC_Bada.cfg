SPECIFICATION PSpec
INVARIANT ThrustWithinLimits
INVARIANT DescentWhenNegative
INVARIANT CappedWhenAbove
INVARIANT InsideIsTE
INVARIANT CruiseFactorOnlyInCruise
INVARIANT FuelFlowPositive
CHECK_DEADLOCK FALSE
INVARIANT NegativeAlsoWithoutDescending
