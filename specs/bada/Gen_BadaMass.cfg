SPECIFICATION MSpec
CONSTANTS
  MaxLen = 4
  Alphabet = {9, 0, 1, 2, 4}
CONSTRAINT Emit
CHECK_DEADLOCK FALSE
