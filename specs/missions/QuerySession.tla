----------------------------- MODULE QuerySession -----------------------------
(***************************************************************************)
(* One Database object (src/AEIC/missions/database.py) serving several      *)
(* queries whose results are consumed lazily and interleaved: Database      *)
(* .__call__ returns a generator per Query, a number per CountQuery.  Every  *)
(* result stream yields exactly Result(f, q) of Query.tla, in order,         *)
(* whatever else is executed on the same object between two of its rows      *)
(* (Isolation).  Design = "shared_cursor" models one cursor reused by every  *)
(* statement (negative control).                                             *)
(***************************************************************************)
EXTENDS Integers, Sequences, FiniteSets, TLC, Json, SequencesExt
\* QueriesAreValues: Open(s, q) fixes the stream's answer to Result(q) for q as it is at that moment; what the caller does
\* with the query object afterwards (sets a limit / offset for the next page, before the first row of this stream is read)
\* is no action of this machine
Qm == INSTANCE Query WITH case <- 0
CONSTANTS Design, D, Rand

Palette == << [f |-> Qm!EmptyFilter, q |-> Qm!DefaultQ],
              [f |-> [Qm!EmptyFilter EXCEPT !.svc = {"J"}], q |-> Qm!DefaultQ],
              [f |-> [Qm!EmptyFilter EXCEPT !.sp.comb = Qm!Sp("country", {"CA", "FR"})], q |-> Qm!DefaultQ],
              [f |-> Qm!EmptyFilter, q |-> [Qm!DefaultQ EXCEPT !.limit = 5, !.offset = 3]],
              [f |-> [Qm!EmptyFilter EXCEPT !.dist = <<500, 6000>>, !.sp.orig = Qm!Sp("airport", {"A1"})], q |-> [Qm!DefaultQ EXCEPT !.start = 5]],
              [f |-> [Qm!EmptyFilter EXCEPT !.acft = {"77W"}], q |-> Qm!DefaultQ] >>
\* zero-arity tables: TLC evaluates them once
ResTab == [qi \in DOMAIN Palette |-> Qm!Result(Palette[qi].f, Palette[qi].q)]
CntTab == [qi \in DOMAIN Palette |-> Cardinality(Qm!Matches(Palette[qi].f, Palette[qi].q))]
Res(qi) == ResTab[qi]
Cnt(qi) == CntTab[qi]
End == <<0, -1>>

VARIABLES streams,   \* per open stream: [qi, pos] (rows handed out so far)
          sh,        \* the shared cursor of the defective design: [qi, pos], qi = 0: nothing to fetch
          hist
svars == <<streams, sh, hist>>
SInit == streams = <<>> /\ sh = [qi |-> 0, pos |-> 0] /\ hist = <<>>

RowAt(c) == IF c.qi = 0 \/ c.pos >= Len(Res(c.qi)) THEN End ELSE Res(c.qi)[c.pos + 1]
Open(qi) == /\ Len(streams) < 4
            /\ streams' = Append(streams, [qi |-> qi, pos |-> 0])
            /\ sh' = [qi |-> qi, pos |-> 0]
            /\ hist' = Append(hist, [op |-> "open", s |-> Len(streams) + 1, qi |-> qi, v |-> <<0, -3>>])
Fetch(s) == /\ s \in DOMAIN streams
            /\ LET c == IF Design = "shared_cursor" THEN sh ELSE streams[s] IN
               /\ hist' = Append(hist, [op |-> "next", s |-> s, qi |-> streams[s].qi, v |-> RowAt(c)])
               /\ IF Design = "shared_cursor"
                  THEN sh' = [sh EXCEPT !.pos = @ + 1] /\ streams' = [streams EXCEPT ![s].pos = @ + 1]
                  ELSE streams' = [streams EXCEPT ![s].pos = @ + 1] /\ sh' = sh
Count(qi) == /\ streams' = streams
             /\ sh' = [qi |-> 0, pos |-> 0]
             /\ hist' = Append(hist, [op |-> "count", s |-> 0, qi |-> qi, v |-> <<Cnt(qi), -2>>])
Op == (\E qi \in DOMAIN Palette : Open(qi) \/ Count(qi)) \/ (\E s \in DOMAIN streams : Fetch(s))
SNext == Len(hist) < D /\ Op
SSpec == SInit /\ [][SNext]_svars

\* the k-th row of a stream is the k-th element of its query's result
Own(i) == Cardinality({j \in 1..(i - 1) : hist[j].op = "next" /\ hist[j].s = hist[i].s})
Isolation == \A i \in DOMAIN hist : hist[i].op = "next" =>
                hist[i].v = RowAt([qi |-> hist[i].qi, pos |-> Own(i)])

\* random walks: one random operation per step
Pick(n) == RandomElement({"open", "count", "next", "next", "next"})
WNext == /\ Len(hist) < D
         /\ \E k \in {Pick(Len(hist))} :
              \/ k = "open" /\ (\E qi \in {RandomElement(DOMAIN Palette)} : Open(qi) \/ (Len(streams) >= 4 /\ Count(qi)))
              \/ k = "count" /\ \E qi \in {RandomElement(DOMAIN Palette)} : Count(qi)
              \/ k = "next" /\ (IF streams = <<>> THEN \E qi \in {RandomElement(DOMAIN Palette)} : Open(qi)
                                ELSE \E s \in {RandomElement(DOMAIN streams)} : Fetch(s))
WSpec == SInit /\ [][WNext]_svars
SpJ(x) == [kind |-> x.kind, vals |-> SetToSeq(x.vals)]
PalJ == [i \in DOMAIN Palette |->
          [f |-> [dist |-> Palette[i].f.dist, seats |-> Palette[i].f.seats, svc |-> SetToSeq(Palette[i].f.svc), acft |-> SetToSeq(Palette[i].f.acft),
                  comb |-> SpJ(Palette[i].f.sp.comb), orig |-> SpJ(Palette[i].f.sp.orig), dest |-> SpJ(Palette[i].f.sp.dest), orig2 |-> SpJ(Palette[i].f.sp.orig2)],
           q |-> Palette[i].q]]
HEmit == IF Len(hist) < D THEN TRUE ELSE PrintT("@@" \o ToJson([pal |-> PalJ, hist |-> hist])) /\ FALSE
=============================================================================
