---------------------------------- MODULE Query ----------------------------------
(***************************************************************************)
(* Mission-database queries (src/AEIC/missions/filter.py, query.py,          *)
(* database.py) over a small fixed universe of airports, flights and flight  *)
(* instances.  Matches(inst, q) is the conjunction of all given conditions;  *)
(* a Query returns the matching instances in departure order after offset    *)
(* and limit, a CountQuery their number, a FrequentFlightQuery the           *)
(* direction-independent airport pairs with their instance counts.           *)
(***************************************************************************)
EXTENDS Integers, Sequences, FiniteSets, TLC, SequencesExt

\* ---- universe
Air == [A1 |-> [country |-> "US", lat |-> 10, lon |-> 10], A2 |-> [country |-> "US", lat |-> 10, lon |-> 20],
        A3 |-> [country |-> "CA", lat |-> 30, lon |-> 10], A4 |-> [country |-> "FR", lat |-> -20, lon |-> 50]]
Continent == [US |-> "NA", CA |-> "NA", FR |-> "EU"]
Boxes == [B1 |-> [latlo |-> 5, lathi |-> 15, lonlo |-> 5, lonhi |-> 25],      \* A1, A2
          B2 |-> [latlo |-> 25, lathi |-> 35, lonlo |-> 5, lonhi |-> 15],     \* A3
          B3 |-> [latlo |-> -60, lathi |-> 60, lonlo |-> 0, lonhi |-> 180]]   \* all: the eastern half of the map, up to its edge
\* (longitude 180 is the eastern edge of the map, not the western one: a box that ends there is not empty)
\* (no flight at all departs on days 5, 7 and 11: "every n-th day" counts days from the start date given, not
\* from the first day that has a departure)
Flights == << [o |-> "A1", d |-> "A2", dist |-> 500, seats |-> 100, svc |-> "J", acft |-> "738", days |-> (0..13) \ {5, 7, 11}, min |-> 480],
              [o |-> "A2", d |-> "A1", dist |-> 500, seats |-> 150, svc |-> "J", acft |-> "320", days |-> {0, 2, 4, 6, 8, 10, 12}, min |-> 570],
              [o |-> "A1", d |-> "A3", dist |-> 2000, seats |-> 200, svc |-> "F", acft |-> "738", days |-> {0, 3, 6, 9, 12}, min |-> 1439],
              [o |-> "A3", d |-> "A4", dist |-> 6000, seats |-> 300, svc |-> "J", acft |-> "77W", days |-> {1, 2}, min |-> 0],
              [o |-> "A4", d |-> "A1", dist |-> 7000, seats |-> 0, svc |-> "C", acft |-> "320", days |-> {13}, min |-> 720] >>    \* a freighter: no seats
\* ValidityIsNotACondition: a flight row also carries the validity period of the schedule line it came from, in LOCAL
\* calendar dates at its origin (flight 3 leaves at 23:59 UTC from east of Greenwich: local days 1..14; flight 4 at 00:00 UTC
\* from west of it: local days 0..1).  It is a datum, not a condition: start and end dates select on the UTC departure.
\* an instance is <<flight index, day>>; its departure minute since day 0
Instances == {<<f, d>> : f \in 1..Len(Flights), d \in 0..13} \cap {x \in (1..Len(Flights)) \X (0..13) : x[2] \in Flights[x[1]].days}
Dep(i) == i[2] * 1440 + Flights[i[1]].min
FirstDay == 0   \* first departure day in the database

\* ---- filters
None == [kind |-> "none", vals |-> {}]
Sp(k, v) == [kind |-> k, vals |-> v]
InBox(a, b) == /\ Air[a].lat >= Boxes[b].latlo /\ Air[a].lat <= Boxes[b].lathi
               /\ Air[a].lon >= Boxes[b].lonlo /\ Air[a].lon <= Boxes[b].lonhi
Hit(s, a) == CASE s.kind = "airport" -> a \in s.vals
               [] s.kind = "country" -> Air[a].country \in s.vals
               [] s.kind = "continent" -> Continent[Air[a].country] \in s.vals
               [] s.kind = "bbox" -> \E b \in s.vals : InBox(a, b)
               [] s.kind = "none" -> TRUE
SpatialValues == {Sp("airport", {"A1"}), Sp("airport", {"A2", "A3"}), Sp("country", {"US"}), Sp("country", {"CA", "FR"}),
                  Sp("continent", {"NA"}), Sp("continent", {"EU"}), Sp("bbox", {"B1"}), Sp("bbox", {"B2"}), Sp("bbox", {"B3"})}
\* spatial part of a filter: combined / origin / destination / a second origin filter (always illegal)
Spatials == {[comb |-> None, orig |-> None, dest |-> None, orig2 |-> None]}
   \cup {[comb |-> s, orig |-> None, dest |-> None, orig2 |-> None] : s \in SpatialValues}
   \cup {[comb |-> None, orig |-> s, dest |-> None, orig2 |-> None] : s \in SpatialValues}
   \cup {[comb |-> None, orig |-> None, dest |-> s, orig2 |-> None] : s \in SpatialValues}
   \cup {[comb |-> None, orig |-> s, dest |-> t, orig2 |-> None] : s \in {Sp("country", {"US"}), Sp("airport", {"A1"}), Sp("bbox", {"B1"})},
                                                                   t \in {Sp("continent", {"NA"}), Sp("airport", {"A2", "A3"}), Sp("country", {"CA", "FR"})}}
   \* the same kind of condition on both ends
   \cup {[comb |-> None, orig |-> s, dest |-> t, orig2 |-> None] : s, t \in {Sp("continent", {"NA"}), Sp("continent", {"EU"})}}
   \cup {[comb |-> None, orig |-> s, dest |-> t, orig2 |-> None] : s, t \in {Sp("country", {"US"}), Sp("country", {"CA", "FR"})}}
   \cup {[comb |-> None, orig |-> s, dest |-> t, orig2 |-> None] : s, t \in {Sp("airport", {"A1"}), Sp("airport", {"A2", "A3"})}}
   \cup {[comb |-> None, orig |-> s, dest |-> t, orig2 |-> None] : s, t \in {Sp("bbox", {"B1"}), Sp("bbox", {"B3"})}}
   \cup {[comb |-> Sp("country", {"US"}), orig |-> Sp("airport", {"A1"}), dest |-> None, orig2 |-> None],
         [comb |-> Sp("bbox", {"B1"}), orig |-> None, dest |-> Sp("continent", {"NA"}), orig2 |-> None],
         [comb |-> None, orig |-> Sp("airport", {"A1"}), dest |-> None, orig2 |-> Sp("country", {"US"})]}
LegalSpatial(s) == /\ s.orig2.kind = "none"
                   /\ (s.comb.kind # "none" => s.orig.kind = "none" /\ s.dest.kind = "none")
NoLimit == 9999
\* (distances and distance limits are in statute miles here; flights and filters carry them as kilometres = miles x 1.609344,
\* non-integral reals: a range is closed - a flight AT a limit is inside)
Ranges == {<<0, NoLimit>>, <<500, NoLimit>>, <<501, NoLimit>>, <<0, 499>>, <<0, 500>>, <<500, 6000>>, <<2001, 5999>>, <<0, 0>>}
\* (a bound of 0 is a bound like any other: at most 0 seats selects the freighter, at most 0 km nothing)
SeatRanges == {<<0, NoLimit>>, <<150, NoLimit>>, <<0, 100>>, <<101, 299>>, <<0, 0>>}
SvcOpts == {{}, {"J"}, {"J", "F"}, {"C"}}
AcftOpts == {{}, {"738"}, {"320", "77W"}}
\* svc / acft = {} means "no restriction"; such a condition may be left out or written as an empty list (TypeForms) -
\* both forms mean the same, the harness uses one or the other per filter
TypeForms == {"omitted", "empty_list"}
Filters == [dist : Ranges, seats : SeatRanges, svc : SvcOpts, acft : AcftOpts, sp : Spatials]
EmptyFilter == [dist |-> <<0, NoLimit>>, seats |-> <<0, NoLimit>>, svc |-> {}, acft |-> {},
                sp |-> [comb |-> None, orig |-> None, dest |-> None, orig2 |-> None]]
Populated(f) == (IF f.dist # <<0, NoLimit>> THEN 1 ELSE 0) + (IF f.seats # <<0, NoLimit>> THEN 1 ELSE 0)
              + (IF f.svc # {} THEN 1 ELSE 0) + (IF f.acft # {} THEN 1 ELSE 0)
              + (IF f.sp.comb.kind # "none" \/ f.sp.orig.kind # "none" \/ f.sp.dest.kind # "none" THEN 1 ELSE 0)
FMatch(f, fl) == /\ fl.dist >= f.dist[1] /\ fl.dist <= f.dist[2]
                 /\ fl.seats >= f.seats[1] /\ fl.seats <= f.seats[2]
                 /\ (f.svc = {} \/ fl.svc \in f.svc)
                 /\ (f.acft = {} \/ fl.acft \in f.acft)
                 /\ (f.sp.comb.kind = "none" \/ Hit(f.sp.comb, fl.o) \/ Hit(f.sp.comb, fl.d))
                 /\ Hit(f.sp.orig, fl.o) /\ Hit(f.sp.dest, fl.d)

\* ---- queries: start/end day (-1 = not given), every n-th day, limit/offset (-1 = not given)
QParams == [start : {-1, 0, 1, 5, 7, 13, 14}, end : {-1, 0, 5, 13}, nth : {1, 2, 3}, limit : {-1, 1, 5, 100}, offset : {-1, 0, 3, 40}]
DefaultQ == [start |-> -1, end |-> -1, nth |-> 1, limit |-> -1, offset |-> -1]
LegalQ(q) == q.offset = -1 \/ q.limit # -1
Matches(f, q) == {i \in Instances :
     /\ FMatch(f, Flights[i[1]])
     /\ (q.start = -1 \/ i[2] >= q.start) /\ (q.end = -1 \/ i[2] <= q.end)
     /\ (i[2] - (IF q.start = -1 THEN FirstDay ELSE q.start)) % q.nth = 0}
Ordered(S) == SetToSortSeq(S, LAMBDA a, b : Dep(a) < Dep(b))
Window(s, q) == LET off == IF q.offset = -1 THEN 0 ELSE q.offset
                    lim == IF q.limit = -1 THEN Len(s) ELSE q.limit
                    lo == off + 1
                    hi == IF off + lim < Len(s) THEN off + lim ELSE Len(s)
                IN IF lo > hi THEN <<>> ELSE SubSeq(s, lo, hi)
Result(f, q) == Window(Ordered(Matches(f, q)), q)
Ord == [A1 |-> 1, A2 |-> 2, A3 |-> 3, A4 |-> 4]   \* alphabetical order of the codes
PairOf(fl) == IF Ord[fl.o] < Ord[fl.d] THEN <<fl.o, fl.d>> ELSE <<fl.d, fl.o>>
Strs == {"A1", "A2", "A3", "A4"}
Frequent(f, q) == {<<p, Cardinality({i \in Matches(f, q) : PairOf(Flights[i[1]]) = p})>> :
                      p \in {PairOf(Flights[k]) : k \in 1..Len(Flights)}}

\* ---- cases
Cases == {[f |-> f, q |-> DefaultQ, pre |-> 0, runs |-> 1] : f \in {g \in Filters : Populated(g) <= 2}}
    \cup {[f |-> f, q |-> q, pre |-> 0, runs |-> 1] :
             f \in {EmptyFilter, [EmptyFilter EXCEPT !.svc = {"J"}], [EmptyFilter EXCEPT !.sp.comb = Sp("country", {"US"})],
                    [EmptyFilter EXCEPT !.dist = <<500, 6000>>, !.sp.orig = Sp("airport", {"A1"})]},
             q \in QParams}
    \* re-execution: the same query object run 2-3 times after 0-2 explicit SQL builds
    \cup {[f |-> f, q |-> q, pre |-> p, runs |-> r] :
             f \in {EmptyFilter, [EmptyFilter EXCEPT !.svc = {"J"}, !.sp.dest = Sp("continent", {"NA"})]},
             q \in {x \in QParams : x.limit \in {-1, 5} /\ x.offset \in {-1, 3}}, p \in {0, 1, 2}, r \in {2, 3}}
VARIABLES case
QInit == case \in Cases
QNext == FALSE /\ UNCHANGED case
QSpec == QInit /\ [][QNext]_case

Legal == LegalSpatial(case.f.sp) /\ LegalQ(case.q)
EmptyFilterSelectsAll == Matches(EmptyFilter, DefaultQ) = Instances
ResultIsSubsetInOrder == LET r == Result(case.f, case.q) IN
    /\ \A k \in DOMAIN r : r[k] \in Matches(case.f, case.q)
    /\ \A k \in 1..(Len(r) - 1) : Dep(r[k]) < Dep(r[k + 1])
CountsAddUp == LET S == Frequent(case.f, case.q) IN
    Cardinality(Matches(case.f, case.q)) = 0 \/ \A x \in S : x[2] <= Cardinality(Matches(case.f, case.q))
NoDepartureTies == \A a, b \in Instances : Dep(a) = Dep(b) => a = b
=============================================================================
