SPECIFICATION SSpec
INVARIANT InstancesInRange
INVARIANT CountIsKept
INVARIANT NeverDropPlausible
INVARIANT WeekdayOfJan1
CHECK_DEADLOCK FALSE
