SPECIFICATION SSpec
INVARIANT InstancesInRange
INVARIANT OpenEndsAreTheDataYear
INVARIANT CountIsKept
INVARIANT NeverDropPlausible
INVARIANT WeekdayOfJan1
CHECK_DEADLOCK FALSE
