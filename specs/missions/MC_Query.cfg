SPECIFICATION QSpec
INVARIANT EmptyFilterSelectsAll
INVARIANT ResultIsSubsetInOrder
INVARIANT CountsAddUp
INVARIANT NoDepartureTies
CHECK_DEADLOCK FALSE
