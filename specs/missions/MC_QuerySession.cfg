SPECIFICATION SSpec
CONSTANTS
  Design = "isolated"
  D = 3
  Rand = FALSE
INVARIANT Isolation
CHECK_DEADLOCK FALSE
