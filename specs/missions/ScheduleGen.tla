------------------------------ MODULE ScheduleGen ------------------------------
EXTENDS Schedule, Json, SequencesExt
SortedSeq(S) == SetToSortSeq(S, LAMBDA a, b : a < b)
Emit == PrintT("@@" \o ToJson([row |-> [pair |-> row.pair, o |-> Pairs[row.pair].o, d |-> Pairs[row.pair].d, gc |-> Pairs[row.pair].gc,
                                        from |-> row.from, to |-> row.to, days |-> SortedSeq(row.days), dep |-> row.dep, arr |-> row.arr,
                                        arrday |-> row.arrday, pct |-> row.pct, skip |-> row.skip],
                               imported |-> Imported(row),
                               inst |-> IF Imported(row) THEN [i \in 1..Cardinality(Kept(row)) |->
                                            LET d == SortedSeq(Kept(row))[i] IN <<DepUtc(row, d), ArrUtc(row, d)>>] ELSE <<>>,
                               dropped |-> IF Imported(row) THEN Cardinality(Dates(row) \ Kept(row)) ELSE 0]))
=============================================================================
