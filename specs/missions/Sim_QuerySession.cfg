SPECIFICATION WSpec
CONSTANTS
  Design = "isolated"
  D = 24
  Rand = TRUE
INVARIANT Isolation
CONSTRAINT HEmit
CHECK_DEADLOCK FALSE
