-------------------------------- MODULE QueryGen --------------------------------
EXTENDS Query, Json
SS(S) == SetToSortSeq(S, LAMBDA a, b : a < b)
SpJ(s) == [kind |-> s.kind, vals |-> SetToSeq(s.vals)]
Emit == PrintT("@@" \o ToJson([
   f |-> [dist |-> case.f.dist, seats |-> case.f.seats, svc |-> SetToSeq(case.f.svc), acft |-> SetToSeq(case.f.acft),
          comb |-> SpJ(case.f.sp.comb), orig |-> SpJ(case.f.sp.orig), dest |-> SpJ(case.f.sp.dest), orig2 |-> SpJ(case.f.sp.orig2)],
   q |-> case.q, pre |-> case.pre, runs |-> case.runs, legal |-> Legal,
   result |-> IF Legal THEN Result(case.f, case.q) ELSE <<>>,
   count |-> IF Legal THEN Cardinality(Matches(case.f, [case.q EXCEPT !.nth = 1])) ELSE 0,
   frequent |-> IF Legal THEN SetToSeq({x \in Frequent(case.f, [case.q EXCEPT !.nth = 1]) : x[2] > 0}) ELSE <<>>]))
=============================================================================
