SPECIFICATION QSpec
CONSTRAINT Emit
CHECK_DEADLOCK FALSE
