-------------------------------- MODULE Schedule --------------------------------
(***************************************************************************)
(* Schedule import (src/AEIC/missions/oag.py CSVEntry / OAGDatabase.add,     *)
(* missions/writable_database.py _add_schedule / _distance_check).           *)
(* Dates are day numbers of the data year 2019 (day 0 = 1 January, a         *)
(* Tuesday; negative = 2018, 365.. = 2020); times are minutes.  A row creates one flight instance for every *)
(* day of its effective range (open ends = start / end of the year) that     *)
(* falls on one of its operating weekdays; departure and arrival are local   *)
(* wall-clock times converted with the zone rules of the year.               *)
(***************************************************************************)
EXTENDS Integers, Sequences, FiniteSets, TLC
\* A row is imported on its own (OAGDatabase.add commits) or as part of a batch (add without commit, commit afterwards):
\* either way, once the call(s) returned, the flight, its instances and its instance count are in the database file
ImportForms == {"add", "add_then_commit"}

YearDays == 365
\* ISO weekday (Monday = 1 ... Sunday = 7) of day d
Weekday(d) == ((d + 1) % 7) + 1

\* zone rules of 2019 (minutes east of UTC); switch days as day numbers
UsStart == 68    \* 10 March, 02:00 local -> 03:00
UsEnd == 306     \* 3 November, 02:00 local -> 01:00
EuStart == 89    \* 31 March, 01:00 UTC
EuEnd == 299     \* 27 October, 01:00 UTC
Std(z) == CASE z = "New_York" -> -300 [] z = "Chicago" -> -360 [] z = "Denver" -> -420 [] z = "Phoenix" -> -420
            [] z = "Los_Angeles" -> -480 [] z = "London" -> 0 [] z = "Paris" -> 60
Us(z) == z \in {"New_York", "Chicago", "Denver", "Los_Angeles"}
Eu(z) == z \in {"London", "Paris"}
\* local switch hour in minutes of the local day
SwitchAt(z) == IF Us(z) THEN 120 ELSE (IF z = "London" THEN 60 ELSE 120)
\* is daylight time in force at local wall-clock minute m of day d (m is never inside a switch hour)
Dst(z, d, m) ==
  IF Us(z) THEN (d > UsStart /\ d < UsEnd) \/ (d = UsStart /\ m >= SwitchAt(z) + 60) \/ (d = UsEnd /\ m < SwitchAt(z) - 60)
  ELSE IF Eu(z) THEN (d > EuStart /\ d < EuEnd) \/ (d = EuStart /\ m >= SwitchAt(z) + 60) \/ (d = EuEnd /\ m < SwitchAt(z))
  ELSE FALSE
Off(z, d, m) == Std(z) + (IF Dst(z, d, m) THEN 60 ELSE 0)

Airports == [BOS |-> "New_York", JFK |-> "New_York", ORD |-> "Chicago", DEN |-> "Denver", PHX |-> "Phoenix",
             LAX |-> "Los_Angeles", LHR |-> "London", CDG |-> "Paris",
             \* two airports of one country whose city has the same NAME (the harness's synthetic airports all name
             \* their municipality "Synthetic") but which lie in different zones: the zone is the airport's, found from
             \* its position
             NRA |-> "New_York", MID |-> "Denver"]
\* great-circle distances in km (checked against pyproj by the harness)
Pairs == << [o |-> "BOS", d |-> "JFK", gc |-> 300], [o |-> "JFK", d |-> "LAX", gc |-> 3983], [o |-> "JFK", d |-> "LHR", gc |-> 5555],
            [o |-> "LAX", d |-> "PHX", gc |-> 596], [o |-> "ORD", d |-> "DEN", gc |-> 1430], [o |-> "LHR", d |-> "CDG", gc |-> 348],
            [o |-> "PHX", d |-> "DEN", gc |-> 968], [o |-> "CDG", d |-> "JFK", gc |-> 5849],
            [o |-> "NRA", d |-> "MID", gc |-> 2800] >>

\* RowsAreValues: a row is a value - Instances(r) is a function of the row and the data year; importing a row does not
\* change it (an open end stays open, it means the start / end of whatever year the row is imported into)
\* effective range: 400 encodes "open" (00000000 / 99999999 in the input)
Open == 400
From(r) == IF r.from = Open THEN 0 ELSE r.from
To(r) == IF r.to = Open THEN YearDays - 1 ELSE r.to
Dates(r) == {d \in From(r)..To(r) : Weekday(d) \in r.days}
Zo(r) == Airports[Pairs[r.pair].o]
Zd(r) == Airports[Pairs[r.pair].d]
DepUtc(r, d) == d * 1440 + r.dep - Off(Zo(r), d, r.dep)
ArrUtc(r, d) == (d + r.arrday) * 1440 + r.arr - Off(Zd(r), d + r.arrday, r.arr)
Kept(r) == {d \in Dates(r) : ArrUtc(r, d) >= DepUtc(r, d)}

\* distance plausibility: stated distance = gc * pct / 100 (pct = 0: not stated)
Given(r) == (Pairs[r.pair].gc * r.pct) \div 100
AbsDiff(r) == IF Given(r) > Pairs[r.pair].gc THEN Given(r) - Pairs[r.pair].gc ELSE Pairs[r.pair].gc - Given(r)
Plausible(r) == r.pct = 0 \/ ~(AbsDiff(r) > 50 /\ 100 * AbsDiff(r) > 10 * Pairs[r.pair].gc)
\* row variants: the documented reasons for skipping a row, and look-alikes that are NOT reasons (a blank service
\* code; a surface code in the SPECIFIC equipment column while the general one is an aircraft)
SkipReasons == {"none", "service_V", "service_U", "stops", "non_operating", "equipment_BUS", "unknown_airport", "service_blank", "specific_code_BUS"}
Harmless == {"none", "service_blank", "specific_code_BUS"}
Imported(r) == r.skip \in Harmless /\ Plausible(r)

AllDays == 1..7
DaySets == SUBSET AllDays
FewDaySets == {AllDays, {1}, {6, 7}, {2, 4}, {}}
Times == {0, 480, 1439}
BaseRow == [pair |-> 2, from |-> 10, to |-> 10, days |-> AllDays, dep |-> 480, arr |-> 1439, arrday |-> 0, pct |-> 0, skip |-> "none"]   \* distance not stated: the instance families do not depend on the distance rule
\* family 1: zones, local times, arrival day offsets across the spring switches
F1 == {[BaseRow EXCEPT !.pair = p, !.from = 60, !.to = 92, !.dep = dt, !.arr = at, !.arrday = ad] :
          p \in 1..Len(Pairs), dt \in Times, at \in Times, ad \in {-1, 0, 1, 2}}
\* family 2: ranges x weekday sets
ShortRanges == {<<10, 10>>, <<0, 13>>, <<300, 312>>, <<357, 364>>}
\* explicit dates may lie outside the data year (a schedule that started on 22
\* November 2018, day -40, or runs until 16 January 2020, day 380): the row
\* still means every date of its range, and an open end still means the end
\* of the DATA year.  Days -57..-1 and 365..425 are standard time in all zones.
LongRanges == {<<Open, 20>>, <<340, Open>>, <<Open, Open>>, <<-40, Open>>, <<Open, 380>>, <<-20, 10>>, <<350, 375>>}
F2 == {[BaseRow EXCEPT !.from = rg[1], !.to = rg[2], !.days = ds] : rg \in ShortRanges, ds \in DaySets}
      \cup {[BaseRow EXCEPT !.from = rg[1], !.to = rg[2], !.days = ds, !.pair = p] : rg \in LongRanges, ds \in FewDaySets, p \in {2, 3}}
\* family 3: distance rule and skip reasons
F3 == {[BaseRow EXCEPT !.pair = p, !.pct = pc, !.skip = sk] : p \in 1..Len(Pairs), pc \in {0, 100, 105, 88, 115, 80}, sk \in SkipReasons}
Rows == F1 \cup F2 \cup F3

VARIABLES row
SInit == row \in Rows
SNext == FALSE /\ UNCHANGED row
SSpec == SInit /\ [][SNext]_row

InstancesInRange == \A d \in Kept(row) : d >= From(row) /\ d <= To(row) /\ Weekday(d) \in row.days
OpenEndsAreTheDataYear == (row.from = Open => From(row) = 0) /\ (row.to = Open => To(row) = YearDays - 1)
CountIsKept == Cardinality(Kept(row)) <= Cardinality(Dates(row))
\* a plausible row with a documented-valid service is never dropped
NeverDropPlausible == (row.skip \in Harmless /\ row.pct \in {0, 100, 105}) => Imported(row)
WeekdayOfJan1 == Weekday(0) = 2
=============================================================================
