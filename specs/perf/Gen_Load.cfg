SPECIFICATION LoadSpec
CONSTRAINT Emit
CHECK_DEADLOCK FALSE
