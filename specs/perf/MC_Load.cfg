SPECIFICATION LoadSpec
INVARIANT OnlyCompleteAccepted
CHECK_DEADLOCK FALSE
