SPECIFICATION EvalSpec
INVARIANT NodeExact
INVARIANT NoExtrapolation
INVARIANT Bounded
INVARIANT SymbolicMass
CHECK_DEADLOCK FALSE
