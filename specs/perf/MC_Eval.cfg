SPECIFICATION EvalSpec
INVARIANT NodeExact
INVARIANT NoExtrapolation
INVARIANT Bounded
INVARIANT SymbolicMass
INVARIANT LayoutIrrelevant
CHECK_DEADLOCK FALSE
