SPECIFICATION EvalSpec
CONSTRAINT Emit
CHECK_DEADLOCK FALSE
