SPECIFICATION PtfSpec
CONSTRAINT Emit
CHECK_DEADLOCK FALSE
