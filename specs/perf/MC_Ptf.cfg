SPECIFICATION PtfSpec
INVARIANT RowCount
INVARIANT LowestLevelKept
CHECK_DEADLOCK FALSE
