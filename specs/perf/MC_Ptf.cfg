SPECIFICATION PtfSpec
INVARIANT RowCount
CHECK_DEADLOCK FALSE
