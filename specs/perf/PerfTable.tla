------------------------------- MODULE PerfTable -------------------------------
(***************************************************************************)
(* Legacy table-based performance model (src/AEIC/performance/models/        *)
(* legacy.py; parsers/ptf_reader.py; commands/make_performance_model.py).    *)
(* A table is a function (phase, FL index, mass index) -> (tas, rocd, ff)    *)
(* over a set of flight levels and three masses (descent: nominal mass       *)
(* only).  Values are integer multiples of 4 so that bilinear interpolation  *)
(* on the half lattice (nodes and mid-points) is integral.  Three            *)
(* specifications: evaluation (EvalSpec), load-time completeness             *)
(* (LoadSpec), PTF conversion (PtfSpec).                                     *)
(***************************************************************************)
EXTENDS Integers, Sequences, FiniteSets, TLC, Rat

\* (180, 360, 45, 90, 255, 385: levels whose value in metres, divided by the library's factor again, does
\* not give the level back exactly)
FlSets == {<<50, 100>>, <<45, 90>>, <<0, 100, 300>>, <<50, 150, 350, 410>>, <<0, 180, 360, 410>>, <<45, 90, 255, 385>>}
Phases == {"climb", "cruise", "descent"}

\* table values (shape rules of BADA tables: TAS depends on FL only; climb
\* ROCD on FL and mass, climb fuel on FL; cruise fuel on FL and mass;
\* descent everything on FL only)
Tas(ph, i) == (CASE ph = "climb" -> 200 [] ph = "cruise" -> 232 [] ph = "descent" -> 216) + 8 * i
Rocd(ph, i, j, a) == CASE ph = "climb" -> 40 - 4 * j * a + 4 * i [] ph = "cruise" -> 0 [] ph = "descent" -> -(12 + 4 * i)
\* A cruise row is a row whose |ROCD| is within the library's tolerance
\* (PerformanceTable.ZERO_ROCD_TOL = 1e-6), not only exactly zero: cz in
\* {-1, 0, 1} gives the cruise rows the residual ROCD cz * 4e-7 (unit
\* ResidualUnit = 1e-7, rendered by the harness), alternating in sign over
\* the flight levels when cz = 2.
CruiseResidual(i, cz) == CASE cz = 2 -> (IF i % 2 = 0 THEN 4 ELSE -4) [] OTHER -> 4 * cz
\* The table is a set of rows; the order in which a file lists them carries no
\* meaning.  Orders rendered by the harness: "asc" (phase blocks, ascending
\* FL, ascending mass), "rev" (that list reversed), "mix" (rows dealt
\* round-robin over the phases, flight levels descending).
Orders == {"asc", "rev", "mix"}
Ff(ph, i, j, b) == CASE ph = "climb" -> 8 + 4 * i [] ph = "cruise" -> 4 + 4 * i + 8 * j * b [] ph = "descent" -> 4 + 4 * i

VARIABLES c, o, st
vars == <<c, o, st>>
Step(out) == st = "pending" /\ st' = "done" /\ o' = out /\ UNCHANGED c
Start(S) == c \in S /\ o = <<>> /\ st = "pending"
Done == st = "done"

-----------------------------------------------------------------------------
(* evaluation on the half lattice: fl2 = 2*(k-1) at node k, odd between      *)
(* nodes, -1 / 2n-1 outside; m2 likewise over the three masses, 100 = "min", *)
(* 101 = "max"                                                               *)
\* the phases of a table need not cover the same levels (BADA: cruise starts higher than climb): cf = number
\* of lowest levels the cruise sub-table lacks, dt = number of highest levels the descent sub-table lacks;
\* fl2 is relative to the level list of the queried phase
EvalCasesAll == UNION {[fls : {F}, a : {0, 1, 2}, b : {0, 1}, ph : Phases, cz : {-1, 0, 1, 2}, ord : Orders, cf : {0, 1}, dt : {0, 1},
                        fl2 : -1..(2 * Len(F) - 1), m2 : (-1..5) \cup {100, 101}] : F \in FlSets}
\* all value shapes with the plain layout, all layouts with one value shape, all phase coverages with one value shape and the plain layout
EvalCases == {x \in EvalCasesAll : /\ Len(x.fls) - x.cf >= 1 /\ Len(x.fls) - x.dt >= 1     \* (a phase with a single level is a table: its one level answers, nothing else)
                                   /\ \/ (x.cz = 0 /\ x.ord = "asc" /\ x.cf = 0 /\ x.dt = 0)
                                      \/ (x.a = 1 /\ x.b = 1 /\ x.cf = 0 /\ x.dt = 0)
                                      \/ (x.a = 1 /\ x.b = 1 /\ x.cz = 0 /\ x.ord = "asc")}
PhLen(x) == Len(x.fls) - (IF x.ph = "cruise" THEN x.cf ELSE IF x.ph = "descent" THEN x.dt ELSE 0)
PhOff(x) == IF x.ph = "cruise" THEN x.cf ELSE 0
FlInside(x) == x.fl2 >= 0 /\ x.fl2 <= 2 * PhLen(x) - 2
MassDependent(ph) == ph \in {"climb", "cruise"}
M2(x) == IF x.m2 = 100 THEN 0 ELSE IF x.m2 = 101 THEN 4 ELSE x.m2
MassInside(x) == M2(x) >= 0 /\ M2(x) <= 4
Refused(x) == ~FlInside(x) \/ (MassDependent(x.ph) /\ ~MassInside(x))
\* bilinear value: average over the (1, 2 or 4) surrounding nodes
Lo(h) == h \div 2
Hi(h) == (h + 1) \div 2
Avg4(f(_, _), x) ==
  LET i0 == Lo(x.fl2) + PhOff(x)  i1 == Hi(x.fl2) + PhOff(x)     \* indices into the full level list
      j0 == IF MassDependent(x.ph) THEN Lo(M2(x)) ELSE 1
      j1 == IF MassDependent(x.ph) THEN Hi(M2(x)) ELSE 1
  IN R(f(i0, j0) + f(i0, j1) + f(i1, j0) + f(i1, j1), 4)
EvalOut(x) ==
  IF Refused(x) THEN [refused |-> TRUE, tas |-> I(0), rocd |-> I(0), res |-> I(0), ff |-> I(0)]
  ELSE [refused |-> FALSE,
        tas |-> Avg4(LAMBDA i, j : Tas(x.ph, i), x),
        rocd |-> Avg4(LAMBDA i, j : Rocd(x.ph, i, j, x.a), x),
        res |-> IF x.ph = "cruise" THEN Avg4(LAMBDA i, j : CruiseResidual(i, x.cz), x) ELSE I(0),
        ff |-> Avg4(LAMBDA i, j : Ff(x.ph, i, j, x.b), x)]
EvalSpec == Start(EvalCases) /\ [][Step(EvalOut(c))]_vars

IsNode(x) == x.fl2 % 2 = 0 /\ M2(x) % 2 = 0
NodeExact == (Done /\ ~o.refused /\ IsNode(c)) =>
   /\ o.tas = I(Tas(c.ph, c.fl2 \div 2 + PhOff(c)))
   /\ o.rocd = I(Rocd(c.ph, c.fl2 \div 2 + PhOff(c), IF MassDependent(c.ph) THEN M2(c) \div 2 ELSE 1, c.a))
   /\ o.ff = I(Ff(c.ph, c.fl2 \div 2 + PhOff(c), IF MassDependent(c.ph) THEN M2(c) \div 2 ELSE 1, c.b))
   /\ o.res = (IF c.ph = "cruise" THEN I(CruiseResidual(c.fl2 \div 2 + PhOff(c), c.cz)) ELSE I(0))
\* the listing order and the cruise residual of a table do not influence the
\* values of the other phases
LayoutIrrelevant == Done => (o.tas = EvalOut([c EXCEPT !.ord = "asc", !.cz = 0]).tas
                             /\ o.ff = EvalOut([c EXCEPT !.ord = "asc", !.cz = 0]).ff
                             /\ o.rocd = EvalOut([c EXCEPT !.ord = "asc", !.cz = 0]).rocd)
NoExtrapolation == Done => (o.refused <=> Refused(c))
\* bounded by the surrounding table values
Bounded == (Done /\ ~o.refused) =>
   LET i0 == Lo(c.fl2) + PhOff(c)  i1 == Hi(c.fl2) + PhOff(c) IN
   /\ Le(I(Tas(c.ph, i0)), o.tas) /\ Le(o.tas, I(Tas(c.ph, i1)))
\* the symbolic masses mean the extreme table masses
\* Ceilings: the aircraft's stated maximum altitude is a datum of the model beside the table, not part of it: whether it lies
\* well above the table or exactly at the top tabulated level (the PTF case), Eval answers from the table alone - the top
\* level, given in metres with the library's own factor, is a tabulated level
Ceilings == {"above_table", "table_top"}
\* StateIsAValue: Eval is a function of (level, mass, phase); the state record a caller hands over is read, not written -
\* a symbolic mass stays symbolic, so that the same state put to another table means THAT table's extreme mass
\* (a numeric mass is a number: float, Python int, numpy integer or numpy float - MassForms - mean the same mass)
MassForms == {"float", "int", "np.int64", "np.float64"}
SymbolicMass == (Done /\ c.m2 \in {100, 101}) => o = EvalOut([c EXCEPT !.m2 = IF c.m2 = 100 THEN 0 ELSE 4])

-----------------------------------------------------------------------------
(* load-time completeness: every (FL, mass) pair of a phase exactly once *)
\* "mass_mistyped": a row carries the mass of its neighbour row of the same level (its own values unchanged):
\* one (level, mass) pair twice with DIFFERENT values, another pair missing, row count unchanged
Corruptions == {"none", "remove", "duplicate", "duplicate_and_remove", "tas_depends_on_mass", "mass_mistyped"}
\* only = the table holds the rows of this one phase and nothing else (a model file may do so): the completeness
\* rule is the same
LoadCases == UNION {[fls : {F}, ph : Phases, corr : Corruptions, r1 : 1..(3 * Len(F)), r2 : 1..(3 * Len(F)), only : BOOLEAN] :
                       F \in {<<50, 100>>, <<0, 100, 300>>}}
\* rows of a phase are numbered FL-major; descent has one row per FL
RowsOf(x) == IF x.ph = "descent" THEN Len(x.fls) ELSE 3 * Len(x.fls)
LoadValid(x) == x.r1 <= RowsOf(x) /\ x.r2 <= RowsOf(x) /\ (x.corr = "duplicate_and_remove" => x.r1 # x.r2)
                /\ (x.corr \in {"none"} => x.r1 = 1 /\ x.r2 = 1)
                /\ (x.corr \in {"remove", "duplicate", "tas_depends_on_mass", "mass_mistyped"} => x.r2 = 1)
                /\ (x.corr \in {"tas_depends_on_mass", "remove", "mass_mistyped"} => x.ph # "descent")   \* a descent table without one level is still a complete grid
LoadOut(x) == [accepted |-> x.corr = "none"]
LoadSpec == Start({x \in LoadCases : LoadValid(x)}) /\ [][Step(LoadOut(c))]_vars
OnlyCompleteAccepted == Done => (o.accepted <=> c.corr = "none")

-----------------------------------------------------------------------------
(* PTF conversion: per flight level the PTF file has an optional cruise       *)
(* block (TAS, fuel lo/nom/hi), a climb block (TAS, ROCD lo/nom/hi, fuel) and *)
(* a descent block (TAS, ROCD, fuel); the model table gets three rows per     *)
(* climb and cruise block and one per descent block, descent ROCD negative.   *)
\* the lowest level of a PTF file may be flight level 0 (as in the BADA files)
\* top = "near_ceiling": at its highest level the aircraft hardly climbs any more - rates of climb of three, two and ONE
\* digit (600, 90, 7 ft/min), as in BADA files near the ceiling
PtfCases == [nfl : 2..3, cruise_from : 1..2, k : {0, 1, 2}, fl0 : {0, 30, 150}, top : {"ordinary", "near_ceiling"}]
PtfFlOf(x, n) == x.fl0 + 100 * (n - 1)
PtfRow(x, n) == [fl |-> PtfFlOf(x, n),
                 cruise |-> IF n >= x.cruise_from THEN <<400 + 10 * n + x.k, 60 + n, 64 + n + x.k, 68 + n + 2 * x.k>> ELSE <<>>,
                 climb |-> IF x.top = "near_ceiling" /\ n = x.nfl THEN <<300 + 10 * n, 600, 90, 7, 90 - n>>
                           ELSE <<300 + 10 * n, 5000 - 100 * n, 4000 - 100 * n - x.k, 3000 - 100 * n, 90 - n>>,
                 descent |-> <<350 + n, 1500 + 10 * n + x.k, 9 + n>>]
PtfRows(x) == [n \in 1..x.nfl |-> PtfRow(x, n)]
\* expected table rows in PTF units: <<phase, FL, mass label, tas kt, rocd fpm, fuel kg/min>>
Expected(x) ==
  UNION {
    {<<"climb", PtfFlOf(x, n), "low", PtfRow(x, n).climb[1], PtfRow(x, n).climb[2], PtfRow(x, n).climb[5]>>,
     <<"climb", PtfFlOf(x, n), "nominal", PtfRow(x, n).climb[1], PtfRow(x, n).climb[3], PtfRow(x, n).climb[5]>>,
     <<"climb", PtfFlOf(x, n), "high", PtfRow(x, n).climb[1], PtfRow(x, n).climb[4], PtfRow(x, n).climb[5]>>,
     <<"descent", PtfFlOf(x, n), "nominal", PtfRow(x, n).descent[1], -PtfRow(x, n).descent[2], PtfRow(x, n).descent[3]>>}
    \cup (IF n >= x.cruise_from
          THEN {<<"cruise", PtfFlOf(x, n), "low", PtfRow(x, n).cruise[1], 0, PtfRow(x, n).cruise[2]>>,
                <<"cruise", PtfFlOf(x, n), "nominal", PtfRow(x, n).cruise[1], 0, PtfRow(x, n).cruise[3]>>,
                <<"cruise", PtfFlOf(x, n), "high", PtfRow(x, n).cruise[1], 0, PtfRow(x, n).cruise[4]>>}
          ELSE {}) : n \in 1..x.nfl}
PtfSpec == Start(PtfCases) /\ [][Step([rows |-> PtfRows(c), table |-> Expected(c)])]_vars
RowCount == Done => Cardinality(o.table) = 4 * c.nfl + 3 * (c.nfl - c.cruise_from + 1)
LowestLevelKept == Done => \E r \in o.table : r[2] = c.fl0
=============================================================================
