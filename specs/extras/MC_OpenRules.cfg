SPECIFICATION OSpec
INVARIANT RefusedIffOffender
INVARIANT OverrideOnlyChoosesAmongProviders
INVARIANT OverrideIrrelevantForSingleProvider
INVARIANT LinkIsByComposition
CHECK_DEADLOCK FALSE
