SPECIFICATION CSpec
INVARIANT UnknownNamesIgnored
CONSTRAINT EmitC
CHECK_DEADLOCK FALSE
