---------------------------- MODULE DimensionSets ----------------------------
(***************************************************************************)
(* Dimensions (src/AEIC/storage/dimensions.py): the immutable set of        *)
(* dimensions a stored field is indexed by.  A value always contains the     *)
(* trajectory dimension and never both the point and the thrust-mode         *)
(* dimension; construction, add and remove refuse anything else and leave    *)
(* the value they were called on unchanged (they return new values).  The    *)
(* standard order is trajectory < species < point < thrust_mode; the NetCDF  *)
(* dimension names leave the point dimension out (points are stored ragged); *)
(* the one-letter abbreviation and the NetCDF names (plus the point          *)
(* dimension) round-trip.  Not a listed property (DESIGN.md section 10);     *)
(* replayed by `./check extras` (X04).                                       *)
(***************************************************************************)
EXTENDS Naturals, Sequences, FiniteSets, TLC, Json
CONSTANTS D
Dims == {"trajectory", "species", "point", "thrust_mode"}
Rank(d) == CASE d = "trajectory" -> 1 [] d = "species" -> 2 [] d = "point" -> 3 [] d = "thrust_mode" -> 4
Abb(d) == CASE d = "trajectory" -> "T" [] d = "species" -> "S" [] d = "point" -> "P" [] d = "thrust_mode" -> "M"
Valid(s) == "trajectory" \in s /\ ~({"point", "thrust_mode"} \subseteq s)
\* a set in standard order
Ordered(s) == LET n == Cardinality(s) IN
              [i \in 1..n |-> CHOOSE d \in s : Cardinality({e \in s : Rank(e) < Rank(d)}) = i - 1]
Names(s) == Ordered(s \ {"point"})
Abbrev(s) == [i \in 1..Cardinality(s) |-> Abb(Ordered(s)[i])]

VARIABLES cur, hist
dvars == <<cur, hist>>
Ev(op, a, r) == [op |-> op, a |-> a, res |-> r]
\* a construction from any subset: refused or the walk's first value
DInit == cur = {} /\ hist = <<>>
New(s) == /\ hist = <<>>
          /\ IF Valid(s) THEN cur' = s /\ hist' = <<Ev("new", Ordered(s), "ok")>>
                         ELSE cur' = {"trajectory"} /\ hist' = <<Ev("new", Ordered(s), "refused"), Ev("new", <<"trajectory">>, "ok")>>
Add(d) == /\ hist # <<>>
          /\ IF Valid(cur \cup {d}) THEN cur' = cur \cup {d} /\ hist' = Append(hist, Ev("add", d, "ok"))
                                    ELSE cur' = cur /\ hist' = Append(hist, Ev("add", d, "refused"))
Remove(d) == /\ hist # <<>>
             /\ IF Valid(cur \ {d}) THEN cur' = cur \ {d} /\ hist' = Append(hist, Ev("remove", d, "ok"))
                                    ELSE cur' = cur /\ hist' = Append(hist, Ev("remove", d, "refused"))
Read(what) == /\ hist # <<>> /\ cur' = cur
              /\ hist' = Append(hist, Ev(what, "-", CASE what = "ordered" -> Ordered(cur)
                                                       [] what = "netcdf" -> Names(cur)
                                                       [] what = "abbrev" -> Abbrev(cur)
                                                       [] what = "len" -> <<Cardinality(cur)>>))
Has(d) == /\ hist # <<>> /\ cur' = cur /\ hist' = Append(hist, Ev("contains", d, IF d \in cur THEN "yes" ELSE "no"))
DNext == /\ Len(hist) < D
         /\ \/ \E s \in SUBSET Dims : New(s)
            \/ \E d \in Dims : Add(d) \/ Remove(d) \/ Has(d)
            \/ \E w \in {"ordered", "netcdf", "abbrev", "len"} : Read(w)
DSpec == DInit /\ [][DNext]_dvars

AlwaysValid == hist # <<>> => Valid(cur)
NeverPointAndMode == ~({"point", "thrust_mode"} \subseteq cur)
NamesNeverPoint == \A i \in DOMAIN Names(cur) : Names(cur)[i] # "point"
OrderIsStandard == \A i, j \in DOMAIN Ordered(cur) : i < j => Rank(Ordered(cur)[i]) < Rank(Ordered(cur)[j])
HEmit == IF Len(hist) < D THEN TRUE ELSE PrintT("@@" \o ToJson(hist)) /\ FALSE
=============================================================================
