SPECIFICATION DSpec
CONSTANTS
  D = 5
INVARIANT AlwaysValid
INVARIANT NeverPointAndMode
INVARIANT NamesNeverPoint
INVARIANT OrderIsStandard
CHECK_DEADLOCK FALSE
