SPECIFICATION TSpec
CONSTANTS
  D = 5
PROPERTY FrozenNeverChanges
PROPERTY CopyIsIndependent
CHECK_DEADLOCK FALSE
