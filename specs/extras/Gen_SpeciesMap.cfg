SPECIFICATION SSpec
CONSTANTS
  D = 4
CONSTRAINT HEmit
CHECK_DEADLOCK FALSE
