SPECIFICATION ASpec
INVARIANT BlankRowsAreNoAirports
INVARIANT PatchWins
CONSTRAINT EmitA
CHECK_DEADLOCK FALSE
