--------------------------- MODULE TrajectoryPhases ---------------------------
(***************************************************************************)
(* The flight-phase machine of Trajectory (src/AEIC/trajectories/            *)
(* trajectory.py set_phase / append / copy_point / interpolate_time on top   *)
(* of src/AEIC/storage/container.py append / fix / copy): a trajectory under *)
(* construction has a current phase that only moves forward; every appended  *)
(* point is counted in the n_<phase> field of the phase that is current;     *)
(* copies and interpolated trajectories carry the counts along but start     *)
(* again at the first phase and are not extensible.                          *)
(*                                                                           *)
(* What the code does and one might not expect is modelled, not idealised:   *)
(*   - set_phase(p) with p = current phase is accepted and RESETS n_p to 0   *)
(*     (action SetPhase; `resets` counts those);                             *)
(*   - interpolate_time keeps the phase counts of the source although the    *)
(*     number of points changes (action Interp).                             *)
(* Not a listed property (DESIGN.md section 10); replayed by `./check        *)
(* extras` (X03).                                                            *)
(***************************************************************************)
EXTENDS Naturals, Sequences, FiniteSets, TLC, Json
CONSTANTS D, MaxPts
Phases == 1..9                 \* FlightPhase values, IDLE_ORIGIN = 1 .. IDLE_DESTINATION = 9
Used == {1, 4, 5, 6}           \* phases the walk names (idle at origin, climb, cruise, descent)

VARIABLES cur,      \* current phase
          cnt,      \* n_<phase> fields
          pts,      \* the flight_time values of the valid points
          tag,      \* ghost: phase under which each point was appended
          ext,      \* extensible
          next,     \* next value handed out (even numbers: midpoints stay integral)
          resets,   \* ghost: number of count resets by a repeated set_phase
          hist
pvars == <<cur, cnt, pts, tag, ext, next, resets, hist>>
Ev(op, a, b, r) == [op |-> op, a |-> a, b |-> b, res |-> r]
Counts(c) == [p \in Used |-> c[p]]

PInit == /\ cur = 1 /\ cnt = [p \in Phases |-> 0] /\ pts = <<>> /\ tag = <<>>
         /\ ext = TRUE /\ next = 2 /\ resets = 0 /\ hist = <<>>

SetPhase(p) ==
  IF p < cur
  THEN /\ hist' = Append(hist, Ev("set_phase", p, 0, "earlier"))
       /\ UNCHANGED <<cur, cnt, pts, tag, ext, next, resets>>
  ELSE /\ cur' = p /\ cnt' = [cnt EXCEPT ![p] = 0]
       /\ resets' = IF cnt[p] > 0 THEN resets + 1 ELSE resets
       /\ hist' = Append(hist, Ev("set_phase", p, 0, "ok"))
       /\ UNCHANGED <<pts, tag, ext, next>>
AppendPt ==
  /\ Len(pts) < MaxPts
  /\ IF ext
     THEN /\ pts' = Append(pts, next) /\ tag' = Append(tag, cur) /\ next' = next + 2
          /\ cnt' = [cnt EXCEPT ![cur] = @ + 1]
          /\ hist' = Append(hist, Ev("append", next, 0, "ok"))
          /\ UNCHANGED <<cur, ext, resets>>
     ELSE /\ hist' = Append(hist, Ev("append", next, 0, "fixed"))
          /\ UNCHANGED <<cur, cnt, pts, tag, ext, next, resets>>
Fix == /\ ext' = FALSE /\ hist' = Append(hist, Ev("fix", 0, 0, "ok"))
       /\ UNCHANGED <<cur, cnt, pts, tag, next, resets>>
\* copy_point(from, to): 0-based, both inside the VALID points; counts untouched
CopyPoint(f, t) ==
  IF f < Len(pts) /\ t < Len(pts)
  THEN /\ pts' = [pts EXCEPT ![t + 1] = pts[f + 1]]
       /\ hist' = Append(hist, Ev("copy_point", f, t, "ok"))
       /\ UNCHANGED <<cur, cnt, tag, ext, next, resets>>
  ELSE /\ hist' = Append(hist, Ev("copy_point", f, t, "range"))
       /\ UNCHANGED <<cur, cnt, pts, tag, ext, next, resets>>
\* the walk continues on the copy: same points and counts, first phase again, not extensible
Copy == /\ cur' = 1 /\ ext' = FALSE
        /\ hist' = Append(hist, Ev("copy", 0, 0, "ok"))
        /\ UNCHANGED <<cnt, pts, tag, next, resets>>
\* interpolate_time at the midpoints of consecutive flight times (needs increasing times);
\* the walk continues on the result
Increasing(s) == \A i \in 1..(Len(s) - 1) : s[i] < s[i + 1]
Interp == /\ Len(pts) >= 2 /\ Increasing(pts)
          /\ pts' = [i \in 1..(Len(pts) - 1) |-> (pts[i] + pts[i + 1]) \div 2]
          /\ tag' = [i \in 1..(Len(pts) - 1) |-> tag[i]]
          /\ cur' = 1 /\ ext' = FALSE
          /\ hist' = Append(hist, Ev("interp", 0, 0, "ok"))
          /\ UNCHANGED <<cnt, next, resets>>
ReadCounts == /\ hist' = Append(hist, Ev("counts", 0, 0, Counts(cnt)))
              /\ UNCHANGED <<cur, cnt, pts, tag, ext, next, resets>>
ReadPts == /\ hist' = Append(hist, Ev("points", 0, 0, pts))
           /\ UNCHANGED <<cur, cnt, pts, tag, ext, next, resets>>

Op == \/ \E p \in Used : SetPhase(p)
      \/ AppendPt \/ Fix \/ Copy \/ Interp \/ ReadCounts \/ ReadPts
      \/ \E f, t \in 0..MaxPts : CopyPoint(f, t)
PNext == Len(hist) < D /\ Op
PSpec == PInit /\ [][PNext]_pvars
\* weighted random walks (tlc -simulate): mostly building, a few structural steps
Kind(k) == RandomElement({"set", "set", "set", "app", "app", "app", "app", "app", "app", "cp", "cp", "counts", "points", "fix", "copy", "interp"})
WNext == /\ Len(hist) < D
         /\ \E k \in {Kind(Len(hist))} :
              CASE k = "set" -> \E p \in {RandomElement(Used)} : SetPhase(p)
                [] k = "app" -> AppendPt
                [] k = "cp" -> \E f \in {RandomElement(0..MaxPts)}, t \in {RandomElement(0..MaxPts)} : CopyPoint(f, t)
                [] k = "counts" -> ReadCounts
                [] k = "points" -> ReadPts
                [] k = "fix" -> Fix
                [] k = "copy" -> Copy
                [] OTHER -> IF Len(pts) >= 2 /\ Increasing(pts) THEN Interp ELSE ReadPts
WSpec == PInit /\ [][WNext]_pvars

Total(c) == c[1] + c[2] + c[3] + c[4] + c[5] + c[6] + c[7] + c[8] + c[9]
\* while the trajectory is being built (extensible, never reset), the counts account for every point
CountsCoverPoints == (ext /\ resets = 0) => Total(cnt) = Len(pts)
\* ... and, per phase, for exactly the points appended under it
CountIsTagCount == (ext /\ resets = 0) => \A p \in Phases : cnt[p] = Cardinality({i \in DOMAIN tag : tag[i] = p})
\* the phase only moves forward on one object; points are therefore grouped by phase in order
PhaseForward == [][(cur' < cur) => ~ext']_pvars
TagsOrdered == ext => \A i, j \in DOMAIN tag : i < j => tag[i] <= tag[j]
\* a fixed trajectory never grows
FixedNeverGrows == [][~ext => Len(pts') <= Len(pts)]_pvars
NeverMoreThanAppended == Total(cnt) <= (next - 2) \div 2

MCView == <<cur, cnt, pts, tag, ext, next, resets>>
MCBound == TLCGet("level") <= 14
HEmit == IF Len(hist) < D THEN TRUE ELSE PrintT("@@" \o ToJson(hist)) /\ FALSE
=============================================================================
