------------------------------ MODULE AirportLookup ------------------------------
(***************************************************************************)
(* Airport lookup (src/AEIC/utils/airports.py) as a finite oracle: the       *)
(* table is read from a main file and overlaid by a patch file.  A row       *)
(* without an IATA code is not an airport; when a code occurs more than once *)
(* in a file the LAST row counts; a code in the patch file replaces the one  *)
(* of the main file; a code in neither is unknown (None, not an error).  An  *)
(* empty elevation cell means "not available" (elevation None, position      *)
(* altitude 0); a cell holding 0 or a negative number is an elevation.       *)
(* Not a listed property (DESIGN.md section 10); replayed by `./check X07`.  *)
(***************************************************************************)
EXTENDS Naturals, Sequences, FiniteSets, TLC, Json
Codes == {"AAA", "BBB", "CCC"}
Blank == ""
\* a row: code (or blank), a tag that names the row (rendered as latitude), elevation cell
ElevCells == {"", "0", "-1240", "5000"}
MainRows == {[code |-> "AAA", tag |-> 1, elev |-> "5000"], [code |-> "AAA", tag |-> 2, elev |-> ""], [code |-> "BBB", tag |-> 3, elev |-> "0"],
             [code |-> Blank, tag |-> 4, elev |-> "5000"], [code |-> "BBB", tag |-> 5, elev |-> "-1240"]}
PatchRows == {[code |-> "AAA", tag |-> 6, elev |-> "0"], [code |-> "CCC", tag |-> 7, elev |-> ""], [code |-> Blank, tag |-> 8, elev |-> "0"]}
SeqsUpTo(S, n) == UNION {[1..k -> S] : k \in 0..n}
VARIABLES main, patch
avars == <<main, patch>>
AInit == main \in SeqsUpTo(MainRows, 3) /\ patch \in SeqsUpTo(PatchRows, 2)
ANext == FALSE /\ UNCHANGED avars
ASpec == AInit /\ [][ANext]_avars

Last(rows, c) == LET ks == {k \in DOMAIN rows : rows[k].code = c} IN
                   IF ks = {} THEN 0 ELSE CHOOSE k \in ks : \A l \in ks : l <= k
Found(c) == IF Last(patch, c) # 0 THEN patch[Last(patch, c)]
            ELSE IF Last(main, c) # 0 THEN main[Last(main, c)]
            ELSE [code |-> Blank, tag |-> 0, elev |-> ""]
Answer(c) == LET r == Found(c) IN [known |-> r.tag # 0, tag |-> r.tag, haselev |-> r.elev # "", elev |-> r.elev]
\* a blank code never answers a lookup, whatever is asked
BlankRowsAreNoAirports == \A c \in Codes : Answer(c).tag \notin {4, 8}
PatchWins == \A c \in Codes : Last(patch, c) # 0 => Answer(c).tag \in {6, 7}
EmitA == PrintT("@@" \o ToJson([main |-> main, patch |-> patch, ans |-> [c \in Codes |-> Answer(c)]]))
=============================================================================
