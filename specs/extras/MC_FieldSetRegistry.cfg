SPECIFICATION RSpec
CONSTANTS
  D = 4
  Rand = FALSE
INVARIANT NoUnderscoreNames
PROPERTY Stable
PROPERTY OnlyOkRegisters
CHECK_DEADLOCK FALSE
