SPECIFICATION WSpec
CONSTANTS
  D = 12
  Rand = TRUE
CONSTRAINT HEmit
CHECK_DEADLOCK FALSE
