------------------------------ MODULE CaseFolding ------------------------------
(***************************************************************************)
(* Case-insensitive names (src/AEIC/utils/models.py): setting names of a     *)
(* CIBaseModel and the values of a CIStrEnum are matched without regard to   *)
(* case.  A mapping handed to a model is a SEQUENCE of (spelling, value)     *)
(* pairs: every spelling of a field name means that field; when the same     *)
(* field is named twice (in two spellings) the LATER pair counts; a name     *)
(* that is no field of the model is ignored; a required field named by no    *)
(* pair is refused.  An enumeration value is found by any spelling of its    *)
(* text and prints in lower case; a text that is no member is refused.       *)
(* Not a listed property (DESIGN.md section 10); replayed by `./check X09`.  *)
(***************************************************************************)
EXTENDS Naturals, Sequences, FiniteSets, TLC, Json
Fields == {"alpha", "beta"}           \* alpha: required integer; beta: optional enumeration (default "low")
Spellings == {"lower", "upper", "mixed"}
Names == Fields \cup {"gamma"}         \* gamma is no field of the model
Members == {"low", "high"}
EnumTexts == Members \cup {"none"}     \* "none" is no member
Pair == [name : Names, sp : Spellings, v : {1, 2}, e : EnumTexts, esp : Spellings]
SeqsUpTo(S, n) == UNION {[1..k -> S] : k \in 0..n}
VARIABLE m
CInit == m \in SeqsUpTo({p \in Pair : (p.name = "beta" \/ p.e = "low") /\ (p.name = "beta" \/ p.esp = "lower") /\ (p.name # "beta" \/ p.v = 1)}, 2)
CNext == FALSE /\ UNCHANGED m
CSpec == CInit /\ [][CNext]_m
LastIn(q, f) == LET ks == {k \in DOMAIN q : q[k].name = f} IN IF ks = {} THEN 0 ELSE CHOOSE k \in ks : \A j \in ks : j <= k
ResultOf(q) ==
  LET a == LastIn(q, "alpha")  b == LastIn(q, "beta") IN
  IF a = 0 \/ (b # 0 /\ q[b].e \notin Members) THEN [refused |-> TRUE, alpha |-> 0, beta |-> "-"]
  ELSE [refused |-> FALSE, alpha |-> q[a].v, beta |-> IF b = 0 THEN "low" ELSE q[b].e]
Result == ResultOf(m)
\* a name that is no field of the model never decides anything
UnknownNamesIgnored == ResultOf(SelectSeq(m, LAMBDA p : p.name \in Fields)) = Result
EmitC == PrintT("@@" \o ToJson([m |-> m, r |-> Result]))
=============================================================================
