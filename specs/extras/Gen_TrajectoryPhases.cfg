SPECIFICATION PSpec
CONSTANTS
  D = 3
  MaxPts = 3
CONSTRAINT HEmit
CHECK_DEADLOCK FALSE
