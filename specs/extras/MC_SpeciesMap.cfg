SPECIFICATION SSpec
CONSTANTS
  D = 5
INVARIANT NoDuplicateSpecies
INVARIANT FreshCellsAreOwn
PROPERTY OrderIsStable
CHECK_DEADLOCK FALSE
