------------------------------ MODULE OpenRules ------------------------------
(***************************************************************************)
(* Opening a trajectory file together with associated files                 *)
(* (src/AEIC/trajectories/store.py: TrajectoryStore.open -> _check_file_    *)
(* paths, _open, _open_nc_file, _associated_open_checks) as a decision       *)
(* table.  A file system holds base files and associated files made by       *)
(* create_associated; an open names one base file, a list of associated      *)
(* files and the override flag.                                              *)
(*                                                                           *)
(* Order of the rules, as the code applies them:                             *)
(*   1. all paths (base and associated) are distinct        else refused     *)
(*   2. every path exists                                   else refused     *)
(*   3. per associated file, in the order given: it carries the associated   *)
(*      attributes (a base file does not), and its recorded hash equals the  *)
(*      base file's identification hash                     else refused     *)
(*   4. a field set found in several files is served by the first file       *)
(*      that has it (the base file first), with override by the last.        *)
(* What the code does and one might not expect is modelled as is: the        *)
(* identification hash is the hash of the base file's FIELD SET COMPOSITION, *)
(* so an associated file made for ANOTHER base file with the same field sets *)
(* is accepted (LinkIsByComposition); if it holds fewer trajectories, reads  *)
(* beyond its length fail with IndexError instead of a refusal at open.      *)
(* Not a listed property (DESIGN.md section 10); replayed by `./check        *)
(* extras` (X05).                                                            *)
(***************************************************************************)
EXTENDS Naturals, Sequences, FiniteSets, TLC, Json

\* the file system: kind, number of trajectories, composition of the base it belongs to, field set served, offset of its values
Files == [
  B1 |-> [kind |-> "base",  n |-> 2, comp |-> "plain",  fs |-> "-", off |-> 0],
  B2 |-> [kind |-> "base",  n |-> 3, comp |-> "plain",  fs |-> "-", off |-> 0],
  A1 |-> [kind |-> "assoc", n |-> 2, comp |-> "plain",  fs |-> "a", off |-> 100],   \* made from B1
  A2 |-> [kind |-> "assoc", n |-> 3, comp |-> "plain",  fs |-> "a", off |-> 200],   \* made from B2
  AX |-> [kind |-> "assoc", n |-> 2, comp |-> "extras", fs |-> "a", off |-> 300],   \* made from a base file with a second field set
  C1 |-> [kind |-> "assoc", n |-> 2, comp |-> "plain",  fs |-> "b", off |-> 400],   \* made from B1, another field set
  NO |-> [kind |-> "missing", n |-> 0, comp |-> "-", fs |-> "-", off |-> 0]]
Names == DOMAIN Files
Bases == {"B1", "B2"}
AssocLists == {<<>>} \cup {<<x>> : x \in Names} \cup {<<x, y>> : x, y \in Names}
Cases == [base : Bases, assoc : AssocLists, override : BOOLEAN]

Range(s) == {s[i] : i \in DOMAIN s}
Distinct(c) == Cardinality(Range(c.assoc) \cup {c.base}) = Len(c.assoc) + 1
AllExist(c) == \A x \in Range(c.assoc) : Files[x].kind # "missing"
\* first associated file (in the order given) that fails its own check, 0 if none
Fault(c, i) == IF Files[c.assoc[i]].kind = "base" THEN "not_associated"
               ELSE IF Files[c.assoc[i]].comp # Files[c.base].comp THEN "other_composition" ELSE "-"
FirstFault(c) == IF \E i \in DOMAIN c.assoc : Fault(c, i) # "-"
                 THEN Fault(c, CHOOSE i \in DOMAIN c.assoc : Fault(c, i) # "-" /\ \A j \in 1..(i - 1) : Fault(c, j) = "-")
                 ELSE "-"
Verdict(c) == IF ~Distinct(c) THEN "not_distinct"
              ELSE IF ~AllExist(c) THEN "missing"
              ELSE IF FirstFault(c) # "-" THEN FirstFault(c) ELSE "ok"
\* the file serving field set f: first provider, with override the last; "-" if none
Providers(c, f) == {i \in DOMAIN c.assoc : Files[c.assoc[i]].fs = f}
Server(c, f) == IF Providers(c, f) = {} THEN "-"
                ELSE c.assoc[IF c.override THEN CHOOSE i \in Providers(c, f) : \A j \in Providers(c, f) : j <= i
                                           ELSE CHOOSE i \in Providers(c, f) : \A j \in Providers(c, f) : i <= j]
\* what reading trajectory k (0-based) shows for field set f: the serving file's offset (the harness adds the
\* trajectory's own length), "absent" without a server, "IndexError" beyond a shorter file
Shows(c, f, k) == IF Server(c, f) = "-" THEN "absent"
                  ELSE IF k >= Files[Server(c, f)].n THEN "IndexError" ELSE ToString(Files[Server(c, f)].off)
Outcome(c) == [verdict |-> Verdict(c),
               reads |-> IF Verdict(c) # "ok" THEN <<>>
                         ELSE [k \in 1..Files[c.base].n |-> [a |-> Shows(c, "a", k - 1), b |-> Shows(c, "b", k - 1)]]]

VARIABLES c, out
ovars == <<c, out>>
OInit == c \in Cases /\ out = Outcome(c)
ONext == UNCHANGED ovars
OSpec == OInit /\ [][ONext]_ovars

\* properties of the table
RefusedIffOffender == (Verdict(c) = "ok") <=> (Distinct(c) /\ AllExist(c) /\ \A i \in DOMAIN c.assoc : Fault(c, i) = "-")
OverrideOnlyChoosesAmongProviders == \A f \in {"a", "b"} : Server(c, f) # "-" => Files[Server(c, f)].fs = f
OverrideIrrelevantForSingleProvider == \A f \in {"a", "b"} : Cardinality(Providers(c, f)) <= 1 =>
                                          Server(c, f) = Server([c EXCEPT !.override = ~c.override], f)
\* the deviation, stated: a file made for another base file of the same composition is served
LinkIsByComposition == (c.base = "B1" /\ c.assoc = <<"A2">>) => Verdict(c) = "ok"
Emit == PrintT("@@" \o ToJson([c |-> c, o |-> out]))
=============================================================================
