------------------------------ MODULE ThrustModes ------------------------------
(***************************************************************************)
(* ThrustModeValues (src/AEIC/performance/types.py): a mapping from the four *)
(* LTO thrust modes to numbers that is either mutable or frozen.  Frozen     *)
(* instances refuse assignment; freeze() is one-way; copy() is the only way  *)
(* to a mutable instance and yields an independent object; a mode that was   *)
(* never set reads as 0.  Not a listed property (DESIGN.md section 10);      *)
(* replayed by `./check extras`.                                             *)
(***************************************************************************)
EXTENDS Naturals, Sequences, FiniteSets, TLC, Json
CONSTANTS D
Modes == {"idle", "approach", "climb", "takeoff"}
Vals == {1, 2}
Absent == 0
MaxInst == 3

VARIABLES data, mut, hist
tvars == <<data, mut, hist>>
TInit == data = <<>> /\ mut = <<>> /\ hist = <<>>
Ev(op, i, m, v, r) == [op |-> op, i |-> i, m |-> m, v |-> v, res |-> r]
Sum(f) == LET s == [m \in Modes |-> f[m]] IN s["idle"] + s["approach"] + s["climb"] + s["takeoff"]

New(full, mutable) ==
  /\ Len(data) < MaxInst
  /\ data' = Append(data, [m \in Modes |-> IF full THEN 1 ELSE Absent])
  /\ mut' = Append(mut, mutable)
  /\ hist' = Append(hist, Ev(IF full THEN "new_full" ELSE "new_empty", Len(data) + 1, "-", IF mutable THEN 1 ELSE 0, "ok"))
Set(i, m, v) ==
  /\ i \in DOMAIN data
  /\ IF mut[i] THEN data' = [data EXCEPT ![i][m] = v] ELSE data' = data
  /\ mut' = mut
  /\ hist' = Append(hist, Ev("set", i, m, v, IF mut[i] THEN "ok" ELSE "frozen"))
Freeze(i) ==
  /\ i \in DOMAIN data
  /\ mut' = [mut EXCEPT ![i] = FALSE] /\ data' = data
  /\ hist' = Append(hist, Ev("freeze", i, "-", 0, "ok"))
\* how: 0 = keep the flag, 1 = mutable copy, 2 = frozen copy
Copy(i, how) ==
  /\ i \in DOMAIN data /\ Len(data) < MaxInst
  /\ data' = Append(data, data[i])
  /\ mut' = Append(mut, IF how = 0 THEN mut[i] ELSE how = 1)
  /\ hist' = Append(hist, Ev("copy", i, "-", how, "ok"))
Get(i, m) ==
  /\ i \in DOMAIN data /\ UNCHANGED <<data, mut>>
  /\ hist' = Append(hist, Ev("get", i, m, 0, ToString(data[i][m])))
Total(i) ==
  /\ i \in DOMAIN data /\ UNCHANGED <<data, mut>>
  /\ hist' = Append(hist, Ev("sum", i, "-", 0, ToString(Sum(data[i]))))
Op == \/ \E f, mu \in BOOLEAN : New(f, mu)
      \/ \E i \in DOMAIN data : Freeze(i) \/ Total(i) \/ (\E how \in 0..2 : Copy(i, how))
                                \/ (\E m \in {"idle", "climb"} : Get(i, m) \/ \E v \in Vals : Set(i, m, v))
TNext == Len(hist) < D /\ Op
TSpec == TInit /\ [][TNext]_tvars

FrozenNeverChanges == [][\A i \in DOMAIN data : ~mut[i] => (data'[i] = data[i] /\ ~mut'[i])]_tvars
CopyIsIndependent == [][\A i \in DOMAIN data : \A j \in DOMAIN data : (i # j /\ data'[i] # data[i]) => data'[j] = data[j]]_tvars
HEmit == IF Len(hist) < D THEN TRUE ELSE PrintT("@@" \o ToJson(hist)) /\ FALSE
=============================================================================
