------------------------------ MODULE SpeciesMap ------------------------------
(***************************************************************************)
(* SpeciesValues (src/AEIC/types/species.py): the typed mapping species ->   *)
(* value that carries every emission index and amount.  Modelled as what it  *)
(* is: an object holding a reference to a CELL (a Python dict); a cell is a  *)
(* sequence of <<species, value>> pairs in first-insertion order without     *)
(* duplicate species.  An object made without data gets a fresh cell of its  *)
(* own (never one shared between objects); an object made FROM a dict shares *)
(* that dict's cell - the constructor keeps the reference, it does not copy  *)
(* (modelled as the code is: a later write through either is seen by both);  *)
(* update() copies the pairs of the other object INTO the cell of the first. *)
(* Equality is equality of the mappings - insensitive to insertion order,    *)
(* symmetric, and an object equals itself.  Not a listed property (DESIGN.md *)
(* section 10); replayed by `./check X06`.                                   *)
(***************************************************************************)
EXTENDS Naturals, Sequences, FiniteSets, TLC, Json
CONSTANTS D
Sp == {"CO2", "NOx", "SO2"}
Vals == {1, 2}
MaxObj == 3

VARIABLES cells,   \* Seq of cells; a cell is a Seq of [s |-> species, v |-> value]
          ref,     \* Seq: object i holds cell ref[i]
          kept,    \* Seq of BOOLEAN: object i was made FROM a dict its caller still has in hand
          hist
svars == <<cells, ref, kept, hist>>
SInit == cells = <<>> /\ ref = <<>> /\ kept = <<>> /\ hist = <<>>

Keys(c) == [k \in DOMAIN c |-> c[k].s]
Has(c, s) == \E k \in DOMAIN c : c[k].s = s
ValOf(c, s) == LET k == CHOOSE k \in DOMAIN c : c[k].s = s IN c[k].v
AsSet(c) == {<<c[k].s, c[k].v>> : k \in DOMAIN c}
\* writing a species: in place if present (its position in the order is kept), appended otherwise
Put(c, s, v) == IF Has(c, s) THEN [k \in DOMAIN c |-> IF c[k].s = s THEN [s |-> s, v |-> v] ELSE c[k]]
                ELSE Append(c, [s |-> s, v |-> v])
RECURSIVE PutAll(_, _)
PutAll(c, d) == IF d = <<>> THEN c ELSE PutAll(Put(c, Head(d).s, Head(d).v), Tail(d))
Cell(i) == cells[ref[i]]
Obs(i) == [keys |-> Keys(Cell(i)), n |-> Len(Cell(i))]
Ev(op, i, j, s, v, r) == [op |-> op, i |-> i, j |-> j, s |-> s, v |-> v, res |-> r]

\* SpeciesValues(): a new object with a cell of its own
\* (k: SpeciesValues({}) with a new empty dict the caller keeps - the same thing, but the caller can reach the cell)
New(k) ==
  /\ Len(ref) < MaxObj
  /\ cells' = Append(cells, <<>>) /\ ref' = Append(ref, Len(cells) + 1) /\ kept' = Append(kept, k)
  /\ hist' = Append(hist, Ev(IF k THEN "newd" ELSE "new", Len(ref) + 1, 0, "-", 0, [keys |-> <<>>, n |-> 0]))
\* SpeciesValues(d) where d is the dict object i was made from: the new object shares it
Share(i) ==
  /\ i \in DOMAIN ref /\ kept[i] /\ Len(ref) < MaxObj
  /\ cells' = cells /\ ref' = Append(ref, ref[i]) /\ kept' = Append(kept, TRUE)
  /\ hist' = Append(hist, Ev("share", Len(ref) + 1, i, "-", 0, Obs(i)))
\* the caller writes into the dict object i was made from, not through the object
DictSet(i, s, v) ==
  /\ i \in DOMAIN ref /\ kept[i]
  /\ cells' = [cells EXCEPT ![ref[i]] = Put(@, s, v)] /\ UNCHANGED <<ref, kept>>
  /\ hist' = Append(hist, Ev("dictset", i, 0, s, v, [keys |-> Keys(Put(Cell(i), s, v)), n |-> Len(Put(Cell(i), s, v))]))
Set(i, s, v) ==
  /\ i \in DOMAIN ref
  /\ cells' = [cells EXCEPT ![ref[i]] = Put(@, s, v)] /\ UNCHANGED <<ref, kept>>
  /\ hist' = Append(hist, Ev("set", i, 0, s, v, [keys |-> Keys(Put(Cell(i), s, v)), n |-> Len(Put(Cell(i), s, v))]))
Get(i, s) ==
  /\ i \in DOMAIN ref /\ UNCHANGED <<cells, ref, kept>>
  /\ hist' = Append(hist, Ev("get", i, 0, s, 0, IF Has(Cell(i), s) THEN [found |-> TRUE, v |-> ValOf(Cell(i), s)] ELSE [found |-> FALSE, v |-> 0]))
\* a.update(b): every pair of b written into a's cell, in b's order (if both hold the same cell nothing changes)
Update(i, j) ==
  /\ i \in DOMAIN ref /\ j \in DOMAIN ref
  /\ cells' = [cells EXCEPT ![ref[i]] = PutAll(@, Cell(j))] /\ UNCHANGED <<ref, kept>>
  /\ hist' = Append(hist, Ev("update", i, j, "-", 0, [keys |-> Keys(PutAll(Cell(i), Cell(j))), n |-> Len(PutAll(Cell(i), Cell(j)))]))
Eq(i, j) ==
  /\ i \in DOMAIN ref /\ j \in DOMAIN ref /\ UNCHANGED <<cells, ref, kept>>
  /\ hist' = Append(hist, Ev("eq", i, j, "-", 0, [equal |-> AsSet(Cell(i)) = AsSet(Cell(j))]))
Show(i) ==
  /\ i \in DOMAIN ref /\ UNCHANGED <<cells, ref, kept>>
  /\ hist' = Append(hist, Ev("show", i, 0, "-", 0, Obs(i)))

Op == \/ \E k \in BOOLEAN : New(k)
      \/ \E i \in DOMAIN ref : Share(i) \/ Show(i)
                               \/ (\E s \in Sp : Get(i, s) \/ \E v \in Vals : Set(i, s, v) \/ DictSet(i, s, v))
                               \/ (\E j \in DOMAIN ref : Update(i, j) \/ Eq(i, j))
SNext == Len(hist) < D /\ Op
SSpec == SInit /\ [][SNext]_svars

NoDuplicateSpecies == \A c \in DOMAIN cells : \A k, l \in DOMAIN cells[c] : cells[c][k].s = cells[c][l].s => k = l
\* an object made without data never shares its cell: nobody else holds it
FreshCellsAreOwn == \A i, j \in DOMAIN ref : (ref[i] = ref[j] /\ i # j) => (kept[i] /\ kept[j])
\* a species once present keeps its place in the order
OrderIsStable == [][\A c \in DOMAIN cells : \A k \in DOMAIN cells[c] : cells'[c][k].s = cells[c][k].s]_svars
HEmit == IF Len(hist) < D THEN TRUE ELSE PrintT("@@" \o ToJson(hist)) /\ FALSE
=============================================================================
