SPECIFICATION WSpec
CONSTANTS
  D = 16
  MaxPts = 6
CONSTRAINT HEmit
CHECK_DEADLOCK FALSE
