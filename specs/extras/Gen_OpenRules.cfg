SPECIFICATION OSpec
CONSTRAINT Emit
CHECK_DEADLOCK FALSE
