--------------------------- MODULE FieldSetRegistry ---------------------------
(***************************************************************************)
(* The process-wide registry of named field sets                            *)
(* (src/AEIC/storage/field_sets.py, FieldSet.__init__ / REGISTRY / known /   *)
(* from_registry / merge / digest).  Not one of the listed properties: part  *)
(* of the growing specification (DESIGN.md section 10), replayed by          *)
(* `./check extras`.                                                         *)
(*                                                                          *)
(* A definition is an abstract content class: D1 and D1p are the same fields *)
(* listed in another order (equal content), D2 differs in one field's        *)
(* metadata, D3 has other field names (mergeable with D1).                   *)
(***************************************************************************)
EXTENDS Naturals, Sequences, FiniteSets, TLC, Json

CONSTANTS D, Rand
Names == {"a", "b", "_u"}
Defs == {"D1", "D1p", "D2", "D3"}
Content(d) == IF d = "D1p" THEN "D1" ELSE d          \* content class
FieldNames(d) == IF Content(d) \in {"D1", "D2"} THEN {"x", "y"} ELSE {"z"}

VARIABLES reg,    \* name -> content class of the registered definition
          hist
rvars == <<reg, hist>>
RInit == reg = <<>> /\ hist = <<>>

Ev(op, n, d, r) == [op |-> op, n |-> n, d |-> d, res |-> r]
\* FieldSet(name, **fields): conflict check first, then the underscore rule
Register(n, d) ==
  LET conflict == n \in DOMAIN reg /\ reg[n] # Content(d)
      under == n = "_u"
      res == IF conflict THEN "incompatible" ELSE IF under THEN "underscore" ELSE "ok"
  IN /\ reg' = IF res = "ok" THEN [k \in DOMAIN reg \cup {n} |-> IF k = n THEN Content(d) ELSE reg[k]] ELSE reg
     /\ hist' = Append(hist, Ev("register", n, d, res))
\* FieldSet(name, registered=False, ...): never touches the registry, never conflicts
Private(n, d) ==
  /\ reg' = reg
  /\ hist' = Append(hist, Ev("private", n, d, IF n = "_u" THEN "underscore" ELSE "ok"))
Known(n) == reg' = reg /\ hist' = Append(hist, Ev("known", n, "-", IF n \in DOMAIN reg THEN "yes" ELSE "no"))
\* from_registry(name).digest: a function of the name and the content class only
Digest(n) == reg' = reg /\ hist' = Append(hist, Ev("digest", n, "-", IF n \in DOMAIN reg THEN n \o ":" \o reg[n] ELSE "KeyError"))
\* merge of two registered sets: refused on overlapping field names; the result is not registered
Merge(n, m) ==
  /\ n \in DOMAIN reg /\ m \in DOMAIN reg
  /\ reg' = reg
  /\ hist' = Append(hist, Ev("merge", n, m, IF FieldNames(reg[n]) \cap FieldNames(reg[m]) # {} THEN "overlap" ELSE "ok"))

Op == \/ \E n \in Names, d \in Defs : Register(n, d) \/ Private(n, d)
      \/ \E n \in Names : Known(n) \/ Digest(n)
      \/ \E n, m \in Names : Merge(n, m)
RNext == Len(hist) < D /\ Op
RSpec == RInit /\ [][RNext]_rvars

\* once registered under a name, a content class is never replaced
Stable == [][\A n \in DOMAIN reg : n \in DOMAIN reg' /\ reg'[n] = reg[n]]_rvars
NoUnderscoreNames == "_u" \notin DOMAIN reg
\* only a successful registration changes the registry
OnlyOkRegisters == [][reg' # reg => (hist'[Len(hist')].op = "register" /\ hist'[Len(hist')].res = "ok")]_rvars

\* random walks
Pick(k) == RandomElement({"register", "register", "register", "private", "known", "digest", "digest", "merge"})
WNext == /\ Len(hist) < D
         /\ \E k \in {Pick(Len(hist))}, n \in {RandomElement(Names)}, m \in {RandomElement(Names \ {"_u"})}, d \in {RandomElement(Defs)} :
              \/ k = "register" /\ Register(n, d)
              \/ k = "private" /\ Private(n, d)
              \/ k = "known" /\ Known(n)
              \/ k = "digest" /\ Digest(n)
              \/ k = "merge" /\ (IF n \in DOMAIN reg /\ m \in DOMAIN reg THEN Merge(n, m) ELSE Known(m))
WSpec == RInit /\ [][WNext]_rvars
HEmit == IF Len(hist) < D THEN TRUE ELSE PrintT("@@" \o ToJson(hist)) /\ FALSE
=============================================================================
