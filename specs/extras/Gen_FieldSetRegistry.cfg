SPECIFICATION RSpec
CONSTANTS
  D = 3
  Rand = FALSE
CONSTRAINT HEmit
CHECK_DEADLOCK FALSE
