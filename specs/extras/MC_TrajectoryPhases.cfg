SPECIFICATION PSpec
CONSTANTS
  D = 99
  MaxPts = 4
VIEW MCView
CONSTRAINT MCBound
INVARIANT CountsCoverPoints
INVARIANT CountIsTagCount
INVARIANT TagsOrdered
INVARIANT NeverMoreThanAppended
PROPERTY PhaseForward
PROPERTY FixedNeverGrows
CHECK_DEADLOCK FALSE
