SPECIFICATION CSpec
CONSTANTS
  Q = 4
  MaxC = 8
  K = 4
CONSTRAINT EmitChain
CHECK_DEADLOCK FALSE
