---------------------------- MODULE GridSegmentGen ----------------------------
EXTENDS GridSegment, Json
Emit == PrintT("@@" \o ToJson([s |-> seg, p |-> Pieces(seg)]))
=============================================================================
