SPECIFICATION ASpec
CONSTANTS
  Q = 4
  MaxC = 8
INVARIANT RowsCoverTheLeg
CONSTRAINT EmitA
CHECK_DEADLOCK FALSE
