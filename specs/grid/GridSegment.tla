------------------------------ MODULE GridSegment ------------------------------
(***************************************************************************)
(* Trajectory gridding (src/AEIC/gridding/grid.py, Gridder.grid_trajectory)  *)
(* on an exact lattice.  Grid lines are the multiples of Q in both           *)
(* directions; cell k is the half-open interval (kQ, (k+1)Q]  (the code's    *)
(* searchsorted(...) - 1 convention); trajectory points lie on the integer   *)
(* lattice, i.e. on quarter-cell positions for Q = 4: strictly inside cells, *)
(* on grid lines, on corners.  For a segment P -> Q the crossing parameters  *)
(* t = (g - p) / (q - p) of all crossed lines are exact rationals; the       *)
(* pieces between consecutive crossings get the cell of their midpoint and   *)
(* the share t_{j+1} - t_j of every integrated quantity of the segment.      *)
(* Zero-length pieces and neighbouring pieces in the same cell are merged    *)
(* (the implementation may emit them; they deposit nothing different).       *)
(***************************************************************************)
EXTENDS Integers, Sequences, FiniteSets, TLC, Rat, SequencesExt

CONSTANTS Q,        \* lattice units per cell
          MaxC      \* lattice coordinates are 0..MaxC

Coord == 0..MaxC
\* Array forms in which a caller may hand over an integrated variable.  The share a piece receives is a
\* property of the geometry alone: it is the same for every integrated variable of a trajectory, whatever
\* its form, and the pieces of a whole-number variable are fractions, never rounded.  The harness hands
\* over one variable per form with every segment, chain and antimeridian case.
VarForms == {"float64", "int64"}
\* Two public methods grid a trajectory (grid_trajectory and the older cells_touched_by_trajectory_with_state_and_
\* integrated_variables it was refactored from): same pieces - cells, order, amounts - from both
\* AxisForms: the altitude / time axes of a grid are arrays of any numeric type - floats in metres / seconds or whole numbers
\* (kilometres, ten-minute units).  A point between two levels lies in the cell below it whatever the type of the axis:
\* the point's value is compared, it is not converted to the type of the axis.
\* ("reassigned": the axes of an existing grid object assigned anew - the object is a record of its axes, the cells are
\* those of the axes it has when it is asked)
AxisForms == {"float", "whole", "reassigned"}
\* BufferForms: Pieces(seg) is a function of the coordinates handed over - whether they arrive in new arrays or in the arrays
\* of the previous flight refilled in place (per-flight buffers), on the same grid object or another one
BufferForms == {"fresh", "refilled"}
\* NearParallel: a segment along a latitude grid line that is tilted by less than any grid scale (a millimetre) still crosses
\* that line where the two meet - at its middle, if it starts as far below the line as it ends above: its pieces before the
\* middle lie in the row of the start point, those after it in the row of the end point (the harness derives these cases from
\* the pieces of the exactly parallel segment)
EntryPoints == {"grid_trajectory", "cells_touched_by_trajectory_with_state_and_integrated_variables"}
\* cell index of a rational coordinate x: the k with kQ < x <= (k+1)Q
CellOf(x) == LET n == x[1]  d == x[2] * Q          \* x / Q = n / d
                 fl == IF n >= 0 THEN n \div d ELSE -((-n + d - 1) \div d)   \* floor
                 exact == fl * d = n
             IN IF exact THEN fl - 1 ELSE fl
\* grid lines crossed when moving from p to q along one axis: lo <= g < hi
Lines(p, q) == LET lo == IF p < q THEN p ELSE q   hi == IF p < q THEN q ELSE p
               IN {g \in (lo - Q)..(hi + Q) : g % Q = 0 /\ lo <= g /\ g < hi}
Params(p, q) == {R(g - p, q - p) : g \in Lines(p, q)}

\* a segment as <<px, py, qx, qy>>  (x = longitude axis, y = latitude axis)
Cuts(s) == SetToSortSeq(Params(s[1], s[3]) \cup Params(s[2], s[4]) \cup {I(0), I(1)},
                        LAMBDA a, b : Lt(a, b))
At(p, q, t) == Add(I(p), Mul(t, I(q - p)))
RawPieces(s) ==
  IF s[1] = s[3] /\ s[2] = s[4]
  THEN << [cx |-> CellOf(I(s[1])), cy |-> CellOf(I(s[2])), share |-> I(1)] >>       \* repeated point keeps everything
  ELSE LET ts == Cuts(s) IN
       [j \in 1..(Len(ts) - 1) |->
          LET m == Div(Add(ts[j], ts[j + 1]), I(2)) IN
          [cx |-> CellOf(At(s[1], s[3], m)), cy |-> CellOf(At(s[2], s[4], m)), share |-> Sub(ts[j + 1], ts[j])]]
\* merge neighbours in the same cell, drop zero shares
RECURSIVE Merge(_)
Merge(ps) ==
  IF ps = <<>> THEN <<>>
  ELSE IF Len(ps) = 1 THEN ps
  ELSE LET a == ps[1]  b == ps[2]  rest == SubSeq(ps, 3, Len(ps)) IN
       IF a.cx = b.cx /\ a.cy = b.cy
       THEN Merge(<<[cx |-> a.cx, cy |-> a.cy, share |-> Add(a.share, b.share)]>> \o rest)
       ELSE <<a>> \o Merge(<<b>> \o rest)
NonZero(ps) == SelectSeq(ps, LAMBDA p : ~Eq(p.share, I(0)))
Pieces(s) == Merge(NonZero(RawPieces(s)))

RECURSIVE SumShares(_)
SumShares(ps) == IF ps = <<>> THEN I(0) ELSE Add(ps[1].share, SumShares(Tail(ps)))

-----------------------------------------------------------------------------
VARIABLES seg
GInit == seg \in Coord \X Coord \X Coord \X Coord
GNext == FALSE /\ UNCHANGED seg
GSpec == GInit /\ [][GNext]_seg

\* C04: the pieces of a segment add up to the segment (also for repeated points)
Conservation == Eq(SumShares(Pieces(seg)), I(1))
SharesPositive == \A j \in DOMAIN Pieces(seg) : Lt(I(0), Pieces(seg)[j].share)
\* C05: cells are visited in path order, each once in a row, and every cell with
\* a positive share meets the closed segment's bounding box
CellsInBox == \A j \in DOMAIN Pieces(seg) :
   LET p == Pieces(seg)[j]
       lox == IF seg[1] < seg[3] THEN seg[1] ELSE seg[3]   hix == IF seg[1] < seg[3] THEN seg[3] ELSE seg[1]
       loy == IF seg[2] < seg[4] THEN seg[2] ELSE seg[4]   hiy == IF seg[2] < seg[4] THEN seg[4] ELSE seg[2]
   IN /\ p.cx * Q <= hix /\ (p.cx + 1) * Q >= lox
      /\ p.cy * Q <= hiy /\ (p.cy + 1) * Q >= loy
NoRepeatNeighbour == \A j \in 1..(Len(Pieces(seg)) - 1) :
   ~(Pieces(seg)[j].cx = Pieces(seg)[j + 1].cx /\ Pieces(seg)[j].cy = Pieces(seg)[j + 1].cy)
\* moving along the segment the cell index changes monotonically in each axis
MonotoneCells == \A j \in 1..(Len(Pieces(seg)) - 1) :
   LET a == Pieces(seg)[j]  b == Pieces(seg)[j + 1] IN
   /\ (seg[3] >= seg[1] => b.cx >= a.cx) /\ (seg[3] <= seg[1] => b.cx <= a.cx)
   /\ (seg[4] >= seg[2] => b.cy >= a.cy) /\ (seg[4] <= seg[2] => b.cy <= a.cy)
=============================================================================
