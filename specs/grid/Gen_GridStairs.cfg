SPECIFICATION StairSpec
CONSTANTS
  Q = 4
  MaxC = 8
  K = 3
CONSTRAINT EmitChain
CHECK_DEADLOCK FALSE
