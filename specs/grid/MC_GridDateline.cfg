SPECIFICATION DSpec
CONSTANTS
  Q = 4
  MaxC = 8
  M = 8
INVARIANT DConservation
INVARIANT SidesSeparate
CONSTRAINT EmitD
CHECK_DEADLOCK FALSE
