SPECIFICATION GSpec
CONSTANTS
  Q = 4
  MaxC = 8
CONSTRAINT Emit
CHECK_DEADLOCK FALSE
