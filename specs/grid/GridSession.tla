------------------------------ MODULE GridSession ------------------------------
(***************************************************************************)
(* Several griddings in one process: the same or different tracks on the    *)
(* same or different grids (several Gridder objects).  What a gridding      *)
(* returns is a function of the grid and of the track handed to it, not of   *)
(* what was gridded before - in particular the same way-point arrays may be  *)
(* gridded on a second grid.  The result itself is GridSegment / GridChain's *)
(* business; here it is an uninterpreted value <<grid, track>>.              *)
(* Design = "memo_by_track" models crossing points memoised by the bytes of  *)
(* the way-points only, shared by all gridders (negative control).           *)
(***************************************************************************)
EXTENDS Naturals, Sequences, TLC, Json
CONSTANTS Design, D
Grids == {1, 2}
Tracks == {1, 2}
VARIABLES memo,   \* track -> grid whose crossing points are remembered (0 = none)
          hist
svars == <<memo, hist>>
SInit == memo = [t \in Tracks |-> 0] /\ hist = <<>>
Answer(g, t) == IF Design = "memo_by_track" /\ memo[t] # 0 THEN <<memo[t], t>> ELSE <<g, t>>
Grid(g, t) == /\ Len(hist) < D
              /\ hist' = Append(hist, [g |-> g, t |-> t, o |-> Answer(g, t)])
              /\ memo' = IF memo[t] = 0 THEN [memo EXCEPT ![t] = g] ELSE memo
SNext == \E g \in Grids, t \in Tracks : Grid(g, t)
SSpec == SInit /\ [][SNext]_svars
HistoryIndependent == \A i \in DOMAIN hist : hist[i].o = <<hist[i].g, hist[i].t>>
HEmit == IF Len(hist) < D THEN TRUE ELSE PrintT("@@" \o ToJson(hist)) /\ FALSE
=============================================================================
