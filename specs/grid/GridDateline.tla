------------------------------ MODULE GridDateline ------------------------------
(* One antimeridian crossing.  Unwrapped frame: the antimeridian is the grid *)
(* line x = M; points west of it have x < M, points east x > M.  The code's  *)
(* documented construction is a dog-leg: from the start point along its own  *)
(* latitude to the antimeridian, then to the end point; the segment's        *)
(* quantities are divided between the two legs in proportion to their        *)
(* lengths.  Emitted: the pieces of each leg with shares normalised within   *)
(* the leg, and the squared map lengths of the legs.                         *)
EXTENDS GridSegment, Json
CONSTANT M
VARIABLES dl
\* as / ts: altitude and time lattice coordinates of the start point (the end point has 3 / 5)
DCases == [a : 1..4, b : 1..4, ys : Coord, ye : Coord, dir : {"eastward", "westward"}, as : {1, 6}, ts : {2, 7}]
DInit == dl \in DCases /\ seg = <<0, 0, 0, 0>>
DNext == FALSE /\ UNCHANGED <<dl, seg>>
DSpec == DInit /\ [][DNext]_<<dl, seg>>
Xs == IF dl.dir = "eastward" THEN M - dl.a ELSE M + dl.b
Xe == IF dl.dir = "eastward" THEN M + dl.b ELSE M - dl.a
Leg1 == <<Xs, dl.ys, M, dl.ys>>
Leg2 == <<M, dl.ys, Xe, dl.ye>>
Len2(s) == (s[3] - s[1]) * (s[3] - s[1]) + (s[4] - s[2]) * (s[4] - s[2])
DConservation == Eq(SumShares(Pieces(Leg1)), I(1)) /\ Eq(SumShares(Pieces(Leg2)), I(1))
\* no piece of the first leg lies beyond the antimeridian and vice versa
SidesSeparate ==
  /\ \A j \in DOMAIN Pieces(Leg1) : (dl.dir = "eastward") = (Pieces(Leg1)[j].cx < M \div Q)
  /\ \A j \in DOMAIN Pieces(Leg2) : (dl.dir = "eastward") = (Pieces(Leg2)[j].cx >= M \div Q)
\* every piece of both legs carries the altitude / time cell of the segment's start point
EmitD == PrintT("@@" \o ToJson([c |-> dl, xs |-> Xs, xe |-> Xe, leg1 |-> Pieces(Leg1), leg2 |-> Pieces(Leg2),
                                acell |-> CellOf(I(dl.as)), tcell |-> CellOf(I(dl.ts)),
                                len1sq |-> Len2(Leg1), len2sq |-> Len2(Leg2)]))
=============================================================================
