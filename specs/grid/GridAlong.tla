------------------------------ MODULE GridAlong ------------------------------
(* A leg that runs ALONG the antimeridian: both points lie exactly on it, each *)
(* written as +180 or as -180 degrees (the same meridian).  Whatever the two   *)
(* spellings, it is a leg along a meridian: its quantities are divided among   *)
(* the latitude rows it passes through in proportion to the latitude extent in *)
(* each row, the pieces add up to the segment's value, and no piece lies in a  *)
(* column that does not touch the antimeridian.  (A step of a full turn in     *)
(* longitude is not a flight once round the world.)                            *)
EXTENDS Integers, Sequences, TLC, Json
CONSTANTS Q, MaxC
VARIABLE al
Coord == 0..MaxC
Sides == {"plus", "minus"}
ACases == {c \in [ys : Coord, ye : Coord, s1 : Sides, s2 : Sides] : c.ys # c.ye}
Min(a, b) == IF a < b THEN a ELSE b
Max(a, b) == IF a < b THEN b ELSE a
Lo(c) == Min(c.ys, c.ye)
Hi(c) == Max(c.ys, c.ye)
NRows == MaxC \div Q + 1
\* latitude extent of the leg inside row r (rows are Q lattice units high), in lattice units
Overlap(c, r) == Max(0, Min(Hi(c), (r + 1) * Q) - Max(Lo(c), r * Q))
RECURSIVE SumTo(_, _)
SumTo(c, r) == IF r < 0 THEN 0 ELSE Overlap(c, r) + SumTo(c, r - 1)
AInit == al \in ACases
ANext == FALSE /\ UNCHANGED al
ASpec == AInit /\ [][ANext]_al
\* the rows' shares add up to the whole leg
RowsCoverTheLeg == SumTo(al, NRows - 1) = Hi(al) - Lo(al)
EmitA == PrintT("@@" \o ToJson([c |-> al, rows |-> [r \in 1..NRows |-> Overlap(al, r - 1)], len |-> Hi(al) - Lo(al)]))
=============================================================================
