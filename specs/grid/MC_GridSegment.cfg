SPECIFICATION GSpec
CONSTANTS
  Q = 4
  MaxC = 8
INVARIANT Conservation
INVARIANT SharesPositive
INVARIANT CellsInBox
INVARIANT NoRepeatNeighbour
INVARIANT MonotoneCells
CHECK_DEADLOCK FALSE
