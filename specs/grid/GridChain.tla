------------------------------- MODULE GridChain -------------------------------
(* Multi-segment trajectories with altitude and time axes and a state        *)
(* variable: the gridded trajectory is the concatenation of the pieces of    *)
(* its segments, each piece carrying the altitude cell, time cell and state  *)
(* value of the segment's START point.  Random walks (-simulate).            *)
EXTENDS GridSegment, Json
CONSTANT K
VARIABLES pts
Point == [x : Coord, y : Coord, a : Coord, t : Coord]
RandPoint(n) == [x |-> RandomElement(Coord), y |-> RandomElement(Coord), a |-> RandomElement(Coord), t |-> RandomElement(Coord)]
\* every now and then repeat the previous point or move along an axis
NextPoint(p, n) == LET r == RandomElement(1..6) IN
   CASE r = 1 -> p
     [] r = 2 -> [p EXCEPT !.x = RandomElement(Coord)]
     [] r = 3 -> [p EXCEPT !.y = RandomElement(Coord)]
     [] OTHER -> RandPoint(n)
CInit == pts = <<[x |-> RandomElement(Coord), y |-> RandomElement(Coord), a |-> RandomElement(Coord), t |-> RandomElement(Coord)]>> /\ seg = <<0, 0, 0, 0>>
CNext == Len(pts) <= K /\ pts' = Append(pts, NextPoint(pts[Len(pts)], Len(pts))) /\ UNCHANGED seg
CSpec == CInit /\ [][CNext]_<<pts, seg>>
SegOf(i) == <<pts[i].x, pts[i].y, pts[i + 1].x, pts[i + 1].y>>
Tagged(i) == LET ps == Pieces(SegOf(i)) IN
   [j \in DOMAIN ps |-> [cx |-> ps[j].cx, cy |-> ps[j].cy, share |-> ps[j].share, seg |-> i,
                         acell |-> CellOf(I(pts[i].a)), tcell |-> CellOf(I(pts[i].t))]]
RECURSIVE Gridded(_)
Gridded(i) == IF i = 0 THEN <<>> ELSE Gridded(i - 1) \o Tagged(i)
\* Staircases: trajectories with TWO legs along latitude lines that run the same way and cross the same meridians (joined by
\* an oblique leg back): every leg is split on its own, whatever the other legs of the trajectory look like
Pt(x, y) == [x |-> x, y |-> y, a |-> 1, t |-> 2]
Staircases == {<<Pt(xa, y0), Pt(xb, y0), Pt(xa, y1), Pt(xb, y1)>> : xa \in {1, 2, 6}, xb \in {2, 5, 7}, y0 \in {1, 2, 3}, y1 \in {5, 6, 7}}
              \cup {<<Pt(xb, y0), Pt(xa, y0), Pt(xb, y1), Pt(xa, y1)>> : xa \in {1, 2}, xb \in {5, 7}, y0 \in {1, 3}, y1 \in {5, 7}}
StairInit == pts \in {q \in Staircases : q[1].x # q[2].x} /\ seg = <<0, 0, 0, 0>>
StairSpec == StairInit /\ [][FALSE /\ UNCHANGED <<pts, seg>>]_<<pts, seg>>
EmitChain == IF Len(pts) <= K THEN TRUE
             ELSE PrintT("@@" \o ToJson([pts |-> pts, g |-> Gridded(Len(pts) - 1)])) /\ FALSE
=============================================================================
