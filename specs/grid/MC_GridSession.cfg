SPECIFICATION SSpec
CONSTANTS
  Design = "function_of_arguments"
  D = 3
INVARIANT HistoryIndependent
CHECK_DEADLOCK FALSE
