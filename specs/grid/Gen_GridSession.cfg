SPECIFICATION SSpec
CONSTANTS
  Design = "function_of_arguments"
  D = 3
CONSTRAINT HEmit
CHECK_DEADLOCK FALSE
