SPECIFICATION ISpec
CONSTANTS
  Threads = {1, 2}
  Atomic = TRUE
INVARIANT ImplOneOwner
INVARIANT ImplOwnerIsTheOne
CHECK_DEADLOCK FALSE
