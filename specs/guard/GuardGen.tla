------------------------------ MODULE GuardGen ------------------------------
(* Sequential behaviours of StoreGuard as scripts for the real constructor:  *)
(* every sequence of D operations of two threads over the alphabet           *)
(*   c  create an in-memory store, cf create a file-backed store, cs create   *)
(*      through a subclass of the store class, cd create by calling the      *)
(*      public constructor directly                           (TryCreate)    *)
(*   fa constructor with inconsistent arguments, fo open a file that is not  *)
(*      NetCDF, fm open a missing file    (TryFail)                          *)
(*   x  close the thread's newest store   (Close)                            *)
(* with the verdict the specification gives to every call.  Exhaustive for   *)
(* small D, random walks (Rand = TRUE) for longer scripts.                   *)
EXTENDS StoreGuard, Json, TLC
CONSTANTS D, Rand
VARIABLE h
gvars == <<avars, h>>
FailOps == {"fa", "fo", "fm"}
\* ("mg": TrajectoryStore.merge - a static method that opens the input stores itself: the thread that calls it makes stores
\* like any other way of making one, and is refused like any other when another thread owns the stores)
Ops == {"c", "cf", "cs", "cd", "mg", "x"} \cup FailOps
GInit == AInit /\ h = <<>>
Do(t, op) ==
  /\ Len(h) < D
  /\ CASE op \in {"c", "cf", "cs", "cd", "mg"} -> TryCreate(t) /\ h' = Append(h, [t |-> t, op |-> op, ok |-> Outcome(t, owner)])
       [] op = "x" -> Close(t) /\ h' = Append(h, [t |-> t, op |-> op, ok |-> "closed"])
       [] OTHER -> TryFail(t) /\ h' = Append(h, [t |-> t, op |-> op, ok |-> FailOutcome(t, owner)])
Pick(n) == <<RandomElement(Threads), RandomElement(Ops)>>
GNext == IF Rand THEN \E p \in {Pick(Len(h))} : Do(p[1], p[2]) \/ (p[2] = "x" /\ p[1] \notin succ /\ Do(p[1], "c"))
         ELSE \E t \in Threads, op \in Ops : Do(t, op)
GSpec == GInit /\ [][GNext]_gvars
Emit == IF Len(h) < D THEN TRUE ELSE PrintT("@@" \o ToJson(h)) /\ FALSE
=============================================================================
