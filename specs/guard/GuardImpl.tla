------------------------------ MODULE GuardImpl ------------------------------
(***************************************************************************)
(* The constructor's guard as the code executes it, one action per line     *)
(* event:                                                                   *)
(*     [lock]   with _guard_lock:              (only if Atomic)             *)
(*     test     if active_in_thread is not None:                            *)
(*     cmp          if active_in_thread != get_ident(): raise                *)
(*     set      else: active_in_thread = get_ident()                        *)
(*     [unlock]                                                             *)
(* With Atomic = FALSE (check-then-set without mutual exclusion) TLC finds   *)
(* the interleaving  test(1) test(2) set(1) set(2)  in which both succeed;   *)
(* with Atomic = TRUE the guard refines StoreGuard.  The module also         *)
(* enumerates the schedules (sequences of thread ids) that the line-level    *)
(* scheduler replays against the real constructor.                          *)
(***************************************************************************)
EXTENDS Naturals, FiniteSets, Sequences

CONSTANTS Threads, Atomic
None == 0

VARIABLES active,   \* the class attribute
          lock,     \* holder of the guard lock or None
          pc,       \* per thread: "idle","test","cmp","set","unlock","ok","refused"
          saw       \* per thread: value read by `test`
ivars == <<active, lock, pc, saw>>

IInit == /\ active = None /\ lock = None
         /\ pc = [t \in Threads |-> "idle"]
         /\ saw = [t \in Threads |-> None]

Goto(t, l) == pc' = [pc EXCEPT ![t] = l]

Enter(t) == /\ pc[t] = "idle"
            /\ IF Atomic THEN lock = None /\ lock' = t ELSE UNCHANGED lock
            /\ Goto(t, "test") /\ UNCHANGED <<active, saw>>
Test(t) == /\ pc[t] = "test"
           /\ saw' = [saw EXCEPT ![t] = active]
           /\ Goto(t, IF active # None THEN "cmp" ELSE "set")
           /\ UNCHANGED <<active, lock>>
Cmp(t) == /\ pc[t] = "cmp"
          /\ Goto(t, IF active # t THEN "unlockR" ELSE "unlockO")
          /\ UNCHANGED <<active, lock, saw>>
Set(t) == /\ pc[t] = "set"
          /\ active' = t
          /\ Goto(t, "unlockO")
          /\ UNCHANGED <<lock, saw>>
Unlock(t) == /\ pc[t] \in {"unlockO", "unlockR"}
             /\ lock' = IF Atomic THEN None ELSE lock
             /\ Goto(t, IF pc[t] = "unlockO" THEN "ok" ELSE "refused")
             /\ UNCHANGED <<active, saw>>

Step(t) == Enter(t) \/ Test(t) \/ Cmp(t) \/ Set(t) \/ Unlock(t)
INext == \E t \in Threads : Step(t)
ISpec == IInit /\ [][INext]_ivars

Succeeded == {t \in Threads : pc[t] = "ok"}
ImplOneOwner == Cardinality(Succeeded) <= 1
\* refinement mapping to StoreGuard: owner = active once the setting thread
\* has left the guard; here checked as the invariant the abstract spec needs
ImplOwnerIsTheOne == Succeeded # {} => Succeeded = {active}
=============================================================================
