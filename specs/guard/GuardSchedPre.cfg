SPECIFICATION PSpec
CONSTANTS
  N = 3
CONSTRAINT PEmit
CHECK_DEADLOCK FALSE
