----------------------------- MODULE StoreGuard -----------------------------
(***************************************************************************)
(* Thread confinement of trajectory stores                                  *)
(* (src/AEIC/trajectories/store.py, TrajectoryStore.__init__, class         *)
(* attribute active_in_thread).  Abstract level: creating a store is one    *)
(* atomic step TryCreate(t) that either records t as the owning thread (or  *)
(* finds t already recorded) and succeeds, or is refused.  The owner is     *)
(* one record for the whole process (stores created through a subclass of    *)
(* the store class count like any other) and is                              *)
(* never reset, also not when stores are closed.  A constructor call that   *)
(* passes the guard and then fails (inconsistent arguments, missing file,   *)
(* a file that is not NetCDF) is TryFail(t): no store results; the code has  *)
(* recorded t as owner before the failure and keeps it.                      *)
(* Threads are told apart by IDENTITY (the elements of `Threads`): what a    *)
(* thread is called carries no meaning, two live threads may share a name    *)
(* (ThreadNaming; the harness runs every second schedule and script with all *)
(* threads under one name).                                                  *)
(***************************************************************************)
EXTENDS Naturals, FiniteSets, Sequences

CONSTANTS Threads, MaxCalls
None == 0
ThreadNaming == {"distinct", "shared"}
\* ThreadIdentities: the elements of `Threads` are whole identities - two live threads are different however much of
\* their (64-bit) identifiers agrees; the harness parks a pool of live threads with large stacks, whose identifiers are
\* far apart - some by a multiple of 4 GiB - lets one become the owner and offers TryCreate to every other one
\* every way of making a store is the same TryCreate: the factory methods create / open / append, a subclass, and the
\* public constructor called directly
EntryPoints == {"factory", "subclass", "constructor"}
\* SlowThreads: between two steps of a thread any amount of time may pass (TLA+ steps carry no duration): whatever the
\* guard relies on while one thread is inside it must not expire
ASSUME None \notin Threads

VARIABLES owner,    \* thread id allowed to create stores, or None
          succ,     \* set of threads that have successfully created a store
          ncalls    \* calls made per thread (bound for model checking)
avars == <<owner, succ, ncalls>>

AInit == owner = None /\ succ = {} /\ ncalls = [t \in Threads |-> 0]

Outcome(t, o) == IF o = None \/ o = t THEN "yes" ELSE "no"

TryCreate(t) ==
  /\ ncalls[t] < MaxCalls
  /\ ncalls' = [ncalls EXCEPT ![t] = @ + 1]
  /\ IF Outcome(t, owner) = "yes"
     THEN owner' = t /\ succ' = succ \cup {t}
     ELSE UNCHANGED <<owner, succ>>

\* a constructor call that fails after the guard: same guard verdict, no
\* store results.  The code keeps the claim it made in the guard (owner' = t);
\* as long as no store exists the property does not care whether the claim of
\* a failed call stays, so the specification allows it to be dropped then -
\* but never once a store has been created.
TryFail(t) ==
  /\ ncalls[t] < MaxCalls
  /\ ncalls' = [ncalls EXCEPT ![t] = @ + 1]
  /\ IF Outcome(t, owner) = "yes"
     THEN owner' \in (IF succ = {} THEN {t, None} ELSE {t})
     ELSE UNCHANGED owner
  /\ UNCHANGED succ
FailOutcome(t, o) == IF Outcome(t, o) = "yes" THEN "failed" ELSE "no"

\* closing a store does not release ownership
Close(t) == t \in succ /\ UNCHANGED avars

ANext == \E t \in Threads : TryCreate(t) \/ TryFail(t) \/ Close(t)
ASpec == AInit /\ [][ANext]_avars

OneOwner == Cardinality(succ) <= 1
OwnerIsTheOne == succ # {} => succ = {owner}
\* once a store exists, every other thread is refused whatever happened since
RefusedOnceCreated == \A t \in Threads : (succ # {} /\ t \notin succ) => Outcome(t, owner) = "no"
OwnerNeverReset == [][(owner # None /\ succ # {}) => owner' = owner]_avars
=============================================================================
