----------------------------- MODULE StoreGuard -----------------------------
(***************************************************************************)
(* Thread confinement of trajectory stores                                  *)
(* (src/AEIC/trajectories/store.py, TrajectoryStore.__init__, class         *)
(* attribute active_in_thread).  Abstract level: creating a store is one    *)
(* atomic step TryCreate(t) that either records t as the owning thread (or  *)
(* finds t already recorded) and succeeds, or is refused.  The owner is     *)
(* never reset, also not when stores are closed.                            *)
(***************************************************************************)
EXTENDS Naturals, FiniteSets, Sequences

CONSTANTS Threads, MaxCalls
None == 0
ASSUME None \notin Threads

VARIABLES owner,    \* thread id allowed to create stores, or None
          succ,     \* set of threads that have successfully created a store
          ncalls    \* calls made per thread (bound for model checking)
avars == <<owner, succ, ncalls>>

AInit == owner = None /\ succ = {} /\ ncalls = [t \in Threads |-> 0]

Outcome(t, o) == IF o = None \/ o = t THEN "yes" ELSE "no"

TryCreate(t) ==
  /\ ncalls[t] < MaxCalls
  /\ ncalls' = [ncalls EXCEPT ![t] = @ + 1]
  /\ IF Outcome(t, owner) = "yes"
     THEN owner' = t /\ succ' = succ \cup {t}
     ELSE UNCHANGED <<owner, succ>>

\* closing a store does not release ownership
Close(t) == t \in succ /\ UNCHANGED avars

ANext == \E t \in Threads : TryCreate(t) \/ Close(t)
ASpec == AInit /\ [][ANext]_avars

OneOwner == Cardinality(succ) <= 1
OwnerIsTheOne == succ # {} => succ = {owner}
OwnerNeverReset == [][owner # None => owner' = owner]_avars
=============================================================================
