----------------------------- MODULE GuardSched -----------------------------
(* Schedule generator: every interleaving of N line events of thread 1 with *)
(* N line events of thread 2, as a sequence of thread ids; each maximal      *)
(* schedule is printed as one JSON line for the line-level scheduler.        *)
EXTENDS Naturals, Sequences, TLC, Json
CONSTANT N
VARIABLES sched, cnt
SInit == sched = <<>> /\ cnt = [t \in {1, 2} |-> 0]
SNext == \E t \in {1, 2} : /\ cnt[t] < N
                           /\ cnt' = [cnt EXCEPT ![t] = @ + 1]
                           /\ sched' = Append(sched, t)
SSpec == SInit /\ [][SNext]_<<sched, cnt>>
Emit == IF Len(sched) < 2 * N THEN TRUE ELSE PrintT("@@" \o ToJson(sched)) /\ FALSE
=============================================================================
