----------------------------- MODULE GuardSched -----------------------------
(* Schedule generator: every interleaving of N line events of thread 1 with *)
(* N line events of thread 2, as a sequence of thread ids; each maximal      *)
(* schedule is printed as one JSON line for the line-level scheduler.        *)
EXTENDS Naturals, Sequences, TLC, Json
CONSTANT N
VARIABLES sched, cnt
SInit == sched = <<>> /\ cnt = [t \in {1, 2} |-> 0]
SNext == \E t \in {1, 2} : /\ cnt[t] < N
                           /\ cnt' = [cnt EXCEPT ![t] = @ + 1]
                           /\ sched' = Append(sched, t)
SSpec == SInit /\ [][SNext]_<<sched, cnt>>
Emit == IF Len(sched) < 2 * N THEN TRUE ELSE PrintT("@@" \o ToJson(sched)) /\ FALSE

\* Schedules with at most two preemptions, for guard regions too long for all interleavings: thread a runs i line
\* events, thread b runs j, a runs to its end, b runs to its end - for every i, j and both choices of a.
Rep(t, n) == [k \in 1..n |-> t]
TwoPre(a, b, i, j) == Rep(a, i) \o Rep(b, j) \o Rep(a, N - i) \o Rep(b, N - j)
PInit == \E a \in {1, 2}, i \in 0..N, j \in 0..N : sched = TwoPre(a, 3 - a, i, j) /\ cnt = [t \in {1, 2} |-> N]
PSpec == PInit /\ [][FALSE]_<<sched, cnt>>
PEmit == PrintT("@@" \o ToJson(sched))
=============================================================================
