SPECIFICATION GSpec
CONSTANTS
  Threads = {1, 2}
  MaxCalls = 8
  D = 3
  Rand = FALSE
CONSTRAINT Emit
INVARIANT OneOwner
INVARIANT OwnerIsTheOne
INVARIANT RefusedOnceCreated
CHECK_DEADLOCK FALSE
