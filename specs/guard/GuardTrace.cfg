SPECIFICATION TSpec
CONSTANTS
  Threads = {1, 2}
  MaxCalls = 8
CONSTRAINT Furthest
INVARIANT OneOwner
INVARIANT OwnerIsTheOne
INVARIANT RefusedOnceCreated
PROPERTY OwnerNeverReset
POSTCONDITION Post
CHECK_DEADLOCK FALSE
