SPECIFICATION TSpec
CONSTANTS
  Threads = {1, 2}
  MaxCalls = 8
CONSTRAINT Furthest
INVARIANT OneOwner
INVARIANT OwnerIsTheOne
PROPERTY OwnerNeverReset
POSTCONDITION Post
CHECK_DEADLOCK FALSE
