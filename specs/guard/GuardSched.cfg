SPECIFICATION SSpec
CONSTANTS
  N = 3
CONSTRAINT Emit
CHECK_DEADLOCK FALSE
