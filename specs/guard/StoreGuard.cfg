SPECIFICATION ASpec
CONSTANTS
  Threads = {1, 2, 3}
  MaxCalls = 2
INVARIANT OneOwner
INVARIANT OwnerIsTheOne
PROPERTY OwnerNeverReset
CHECK_DEADLOCK FALSE
