----------------------------- MODULE GuardTrace -----------------------------
(* Linearizability of recorded constructor calls with respect to StoreGuard: *)
(* events are call(t) / ret(t, ok) / close(t); the linearization point of    *)
(* each call is a silent step between its call and its return.               *)
EXTENDS StoreGuard, Json, IOUtils, TLCExt, TLC

AllTraces == ndJsonDeserialize(IOEnv.TRACE_FILE)
ASSUME \A i \in 1..Len(AllTraces) : TLCSet(i, 0)

VARIABLES l, tid, pend, res
tvars == <<avars, l, tid, pend, res>>
Tr == AllTraces[tid].ev
Ev == Tr[l]

TInit == /\ tid \in 1..Len(AllTraces)
         /\ AInit /\ l = 1
         /\ pend = {}                          \* called, not yet linearized
         /\ res = [t \in Threads |-> "none"]   \* linearized, not yet returned

TCall == /\ l <= Len(Tr) /\ Ev.op = "call"
         /\ res[Ev.t] = "none" /\ Ev.t \notin pend
         /\ pend' = pend \cup {Ev.t}
         /\ l' = l + 1 /\ UNCHANGED <<avars, res, tid>>
TLin == \E t \in pend :
         /\ res' = [res EXCEPT ![t] = Outcome(t, owner)]
         /\ TryCreate(t)
         /\ pend' = pend \ {t}
         /\ UNCHANGED <<l, tid>>
TRet == /\ l <= Len(Tr) /\ Ev.op = "ret"
        /\ res[Ev.t] = Ev.ok
        /\ res' = [res EXCEPT ![Ev.t] = "none"]
        /\ l' = l + 1 /\ UNCHANGED <<avars, pend, tid>>
TClose == /\ l <= Len(Tr) /\ Ev.op = "close"
          /\ Close(Ev.t)
          /\ l' = l + 1 /\ UNCHANGED <<pend, res, tid>>
TNext == TCall \/ TLin \/ TRet \/ TClose
TSpec == TInit /\ [][TNext]_tvars

Furthest == TLCSet(tid, IF TLCGet(tid) < l THEN l ELSE TLCGet(tid))
Post == /\ \A i \in 1..Len(AllTraces) :
              \/ TLCGet(i) = Len(AllTraces[i].ev) + 1
              \/ PrintT(<<"REJECTED", AllTraces[i].t,
                          IF TLCGet(i) = 0 THEN 0 ELSE TLCGet(i) - 1, Len(AllTraces[i].ev)>>)
        /\ PrintT("TRACEVALIDATION-DONE")
=============================================================================
