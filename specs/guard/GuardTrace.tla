----------------------------- MODULE GuardTrace -----------------------------
(* Linearizability of recorded constructor calls with respect to StoreGuard: *)
(* events are call(t, kind) / ret(t, ok) / close(t); kinds "c" / "cf" are     *)
(* constructor calls that can succeed, any other kind one that fails after   *)
(* the guard; the linearization point of each call is a silent step between  *)
(* its call and its return.                                                  *)
EXTENDS StoreGuard, Json, IOUtils, TLCExt, TLC

AllTraces == ndJsonDeserialize(IOEnv.TRACE_FILE)
ASSUME \A i \in 1..Len(AllTraces) : TLCSet(i, 0)

VARIABLES l, tid, pend, res, kind
tvars == <<avars, l, tid, pend, res, kind>>
Tr == AllTraces[tid].ev
Ev == Tr[l]

TInit == /\ tid \in 1..Len(AllTraces)
         /\ AInit /\ l = 1
         /\ pend = {}                          \* called, not yet linearized
         /\ res = [t \in Threads |-> "none"]   \* linearized, not yet returned
         /\ kind = [t \in Threads |-> "c"]      \* kind of the pending call

TCall == /\ l <= Len(Tr) /\ Ev.op = "call"
         /\ res[Ev.t] = "none" /\ Ev.t \notin pend
         /\ pend' = pend \cup {Ev.t}
         /\ kind' = [kind EXCEPT ![Ev.t] = Ev.kind]
         /\ l' = l + 1 /\ UNCHANGED <<avars, res, tid>>
TLin == \E t \in pend :
         /\ IF kind[t] \in {"c", "cf", "cs", "cd", "mg"}
            THEN res' = [res EXCEPT ![t] = Outcome(t, owner)] /\ TryCreate(t)
            ELSE res' = [res EXCEPT ![t] = FailOutcome(t, owner)] /\ TryFail(t)
         /\ pend' = pend \ {t}
         /\ UNCHANGED <<l, tid, kind>>
TRet == /\ l <= Len(Tr) /\ Ev.op = "ret"
        /\ res[Ev.t] = Ev.ok
        /\ res' = [res EXCEPT ![Ev.t] = "none"]
        /\ l' = l + 1 /\ UNCHANGED <<avars, pend, tid, kind>>
TClose == /\ l <= Len(Tr) /\ Ev.op = "close"
          /\ Close(Ev.t)
          /\ l' = l + 1 /\ UNCHANGED <<pend, res, tid, kind>>
TNext == TCall \/ TLin \/ TRet \/ TClose
TSpec == TInit /\ [][TNext]_tvars

Furthest == TLCSet(tid, IF TLCGet(tid) < l THEN l ELSE TLCGet(tid))
Post == /\ \A i \in 1..Len(AllTraces) :
              \/ TLCGet(i) = Len(AllTraces[i].ev) + 1
              \/ PrintT(<<"REJECTED", AllTraces[i].t,
                          IF TLCGet(i) = 0 THEN 0 ELSE TLCGet(i) - 1, Len(AllTraces[i].ev)>>)
        /\ PrintT("TRACEVALIDATION-DONE")
=============================================================================
