SPECIFICATION ISpec
CONSTANTS
  Threads = {1, 2}
  Atomic = FALSE
INVARIANT ImplOneOwner
CHECK_DEADLOCK FALSE
