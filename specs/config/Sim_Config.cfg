SPECIFICATION SSpec
CONSTANTS
  FileLayers <- SimFile
  KwLayers <- SimKw
  FailKinds <- GenFail
  D = 10
CONSTRAINT Emit
CHECK_DEADLOCK FALSE
