SPECIFICATION Spec
CONSTANTS
  FileLayers <- MCFile
  KwLayers <- MCKw
  FailKinds <- MCFail
VIEW View
INVARIANT TypeOK
INVARIANT AtMostOne
PROPERTY FailedLoadLeavesNone
PROPERTY RefusalsChangeNothing
PROPERTY ReadsNeedConfig
PROPERTY ValuesStable
