------------------------------- MODULE Config -------------------------------
(***************************************************************************)
(* The process-wide AEIC configuration singleton (src/AEIC/config/core.py) *)
(* as a history machine.  One action per public call:                      *)
(*   Config.load (valid / invalid of each failure kind), Config.get,       *)
(*   reading a setting through the proxy, attempted mutation at each       *)
(*   nesting level, Config.reset.                                          *)
(* Effective values are modelled on three tracked settings that live at    *)
(* two nesting levels of the TOML tree:                                    *)
(*   uw  = weather.use_weather        (boolean)                            *)
(*   sox = emissions.sox_enabled      (boolean)                            *)
(*   nox = emissions.nox_method       (enum, three members)                *)
(*   wd  = weather.weather_data_dir   (optional path: the packaged default *)
(*         directory, another existing one, or None - "null" - which only  *)
(*         keyword arguments can express and which is a value like any     *)
(*         other: an explicit None overrides the layers below)             *)
(* A layer (configuration file, keyword arguments) is a partial assignment *)
(* to those paths; "absent" means the layer does not mention the path.     *)
(* Booleans are kept as strings so that all values are comparable in TLC.  *)
(***************************************************************************)
EXTENDS Naturals, Sequences, FiniteSets, TLC

CONSTANTS FileLayers,   \* layers that may appear as the configuration file
          KwLayers,     \* layers that may appear as keyword arguments
          FailKinds     \* kinds of failing load

Paths == {"uw", "sox", "nox", "wd"}
Absent == "absent"
Unset  == "unset"
Dom(p) == IF p = "nox" THEN {"bffm2", "p3t3", "none"} ELSE IF p = "wd" THEN {"wdefault", "walt", "null"} ELSE {"true", "false"}
AllVals == {"true", "false", "bffm2", "p3t3", "none", "wdefault", "walt", "null"}

Layer == {l \in [Paths -> AllVals \cup {Absent}] :
             \A p \in Paths : l[p] = Absent \/ l[p] \in Dom(p)}
NoLayer == [p \in Paths |-> Absent]
FileLayer == {l \in Layer : l["wd"] # "null"}      \* TOML cannot say None
\* How a file layer is written carries no meaning: setting names in lower or mixed case, and a section that is
\* declared but empty (every entry commented out) says as little as a section that is not mentioned.
FileForms == {"plain", "mixed_case", "empty_sections"}
\* Without a configuration file, Load is the packaged defaults overlaid by the keyword arguments: calling the public
\* constructor or model_validate with that data is the same step - it becomes the one active configuration, or is
\* refused while one is active
LoadEntries == {"load", "constructor", "model_validate"}
\* ListSettings: some settings are lists (search path, data_path_overrides).  A list is a value: the layer that gives one
\* REPLACES what the layers below it said (the harness couples a one-element list to every layer's SOx value, so Eff(sox)
\* of this specification is also the expected list).
\* (fail kind "lonely_path": a search path of exactly ONE directory that holds none of the data files - a search path given
\* is the search path, however short: the load is refused, nothing is found through directories the caller did not name)
\* (fail kind "bad_engine_other_path": a load that names its OWN search path - a directory holding a performance model under
\* the usual relative name, but no engine file - fails; nothing of it may show in a later load: PathsResolved also asks that the
\* data files an active configuration names lie in ITS search path)
\* PathsResolved: whatever the layers say about other settings, an active configuration names its performance model and
\* engine file by absolute paths of existing files, and a load naming a missing one fails (FailKinds) also when it
\* comes together with a harmless setting of another section

\* packaged defaults (src/AEIC/data/default_config.toml)
Default == [p \in Paths |-> IF p = "nox" THEN "bffm2" ELSE IF p = "wd" THEN "wdefault" ELSE "true"]

\* defaults overlaid by file overlaid by keyword arguments, key by key at
\* every nesting level (a layer that sets emissions.sox_enabled does not
\* disturb emissions.nox_method coming from a lower layer)
Overlay(d, f, k) == [p \in Paths |->
                        IF k[p] # Absent THEN k[p]
                        ELSE IF f[p] # Absent THEN f[p] ELSE d[p]]

NoVals == [p \in Paths |-> Unset]

AllFailKinds == {"invalid_enum_kw", "invalid_enum_file", "bad_type_kw",
                 "missing_file", "bad_toml", "bad_perf_path", "bad_engine_path",
                 "bad_weather_dir", "null_perf_kw", "bad_perf_path_abs", "bad_engine_path_abs", "bad_engine_other_path", "lonely_path"}       \* null_perf_kw: a required path given as None; *_abs: a missing file named by an ABSOLUTE path
MutLevels == {"outer", "weather", "emissions"}

VARIABLES configured,  \* is there an active configuration
          vals,        \* its effective values on the tracked paths (NoVals if none)
          live,        \* ghost: successful loads since the last reset
          last         \* reply to the last call (observation; hidden by VIEW in MC)

vars == <<configured, vals, live, last>>
state == <<configured, vals, live>>

Reply(op, arg, ok, val) == [op |-> op, arg |-> arg, ok |-> ok, val |-> val]

Init == /\ configured = FALSE
        /\ vals = NoVals
        /\ live = 0
        /\ last = Reply("init", "-", "yes", "-")

(* Config.load(config_file = f, **k) with valid data *)
Load(f, k) ==
  IF configured
  THEN /\ last' = Reply("load", <<f, k>>, "no", "already")
       /\ UNCHANGED state
  ELSE /\ configured' = TRUE
       /\ vals' = Overlay(Default, f, k)
       /\ live' = live + 1
       /\ last' = Reply("load", <<f, k>>, "yes", "-")

(* Config.load that must fail: whatever the reason, nothing changes; in      *)
(* particular an unconfigured system stays unconfigured.                    *)
LoadBad(kind) ==
  /\ last' = Reply("loadbad", kind, "no", "-")
  /\ UNCHANGED state

Reset ==
  /\ configured' = FALSE
  /\ vals' = NoVals
  /\ live' = 0
  /\ last' = Reply("reset", "-", "yes", "-")

Get ==
  /\ last' = Reply("get", "-", IF configured THEN "yes" ELSE "no", "-")
  /\ UNCHANGED state

Read(p) ==
  /\ last' = IF configured THEN Reply("read", p, "yes", vals[p])
                           ELSE Reply("read", p, "no", "-")
  /\ UNCHANGED state

(* attribute assignment through the proxy, at the outer model or on a nested *)
(* model: always refused.  One Mutate(lv) stands for an assignment to every  *)
(* field of that level (and of the models nested below it), each with a      *)
(* value different from the current one: all of them are refused.            *)
Mutate(lv) ==
  /\ last' = Reply("mutate", lv, "no", "-")
  /\ UNCHANGED state

Next == \/ \E f \in FileLayers, k \in KwLayers : Load(f, k)
        \/ \E kind \in FailKinds : LoadBad(kind)
        \/ Reset \/ Get
        \/ \E p \in Paths : Read(p)
        \/ \E lv \in MutLevels : Mutate(lv)

Spec == Init /\ [][Next]_vars

-----------------------------------------------------------------------------
TypeOK == /\ configured \in BOOLEAN
          /\ (configured => \A p \in Paths : vals[p] \in Dom(p))
          /\ (~configured => vals = NoVals)
          /\ live \in 0..1

\* at most one configuration is ever active between resets
AtMostOne == live <= 1 /\ (configured <=> live = 1)

\* a failed load leaves an unconfigured system unconfigured
FailedLoadLeavesNone ==
  [][(last'.op = "loadbad" /\ ~configured) => ~configured']_vars

\* every refused call leaves the active configuration exactly as it was
RefusalsChangeNothing == [][last'.ok = "no" => UNCHANGED state]_vars

\* reads are refused exactly when nothing is loaded
ReadsNeedConfig ==
  [][last'.op \in {"get", "read"} => (last'.ok = "yes" <=> configured)]_vars

\* values only change through a successful load or a reset
ValuesStable ==
  [][vals' # vals => last'.op \in {"load", "reset"} /\ last'.ok = "yes"]_vars

\* precedence: keyword arguments over file over defaults, path by path
OverlayPrecedence ==
  \A f \in FileLayers, k \in KwLayers : \A p \in Paths :
     LET v == Overlay(Default, f, k)[p] IN
       /\ k[p] # Absent => v = k[p]
       /\ (k[p] = Absent /\ f[p] # Absent) => v = f[p]
       /\ (k[p] = Absent /\ f[p] = Absent) => v = Default[p]
=============================================================================
