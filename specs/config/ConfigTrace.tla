---------------------------- MODULE ConfigTrace ----------------------------
(* Trace validation: executions of the real code (repository tests, random  *)
(* drivers) recorded as one JSON line per trace are accepted iff every      *)
(* event is explained by an action of Config and the observed post-state    *)
(* equals the specification's post-state.                                   *)
EXTENDS Config, Json, IOUtils, TLCExt

AllTraces == ndJsonDeserialize(IOEnv.TRACE_FILE)
ASSUME \A i \in 1..Len(AllTraces) : TLCSet(i, 0)

VARIABLES l, tid
tvars == <<vars, l, tid>>
Tr == AllTraces[tid].ev
Ev == Tr[l]

\* the first event of every trace is a probe of the current state
TInit == /\ tid \in 1..Len(AllTraces)
         /\ Len(Tr) >= 1 /\ Tr[1].op = "probe"
         /\ configured = Tr[1].c
         /\ vals = Tr[1].v
         /\ live = IF Tr[1].c THEN 1 ELSE 0
         /\ last = Reply("init", "-", "yes", "-")
         /\ l = 2

Observed == configured' = Ev.c /\ vals' = Ev.v

TLoad == /\ Ev.op = "load"
         /\ \/ Load(Ev.f, Ev.k) /\ last'.ok = Ev.ok
            \/ Ev.ok = "no" /\ \E kind \in FailKinds : LoadBad(kind)
TReset == Ev.op = "reset" /\ Ev.ok = "yes" /\ Reset
TGet == Ev.op = "get" /\ Get /\ last'.ok = Ev.ok
TRead == /\ Ev.op = "read"
         /\ \E p \in Paths : Read(p) /\ last'.ok = Ev.ok
TMutate == Ev.op = "mutate" /\ Ev.ok = "no" /\ \E lv \in MutLevels : Mutate(lv)

TNext == /\ l <= Len(Tr)
         /\ (TLoad \/ TReset \/ TGet \/ TRead \/ TMutate)
         /\ Observed
         /\ l' = l + 1
         /\ UNCHANGED tid

TSpec == TInit /\ [][TNext]_tvars

Furthest == TLCSet(tid, IF TLCGet(tid) < l THEN l ELSE TLCGet(tid))

Post == /\ \A i \in 1..Len(AllTraces) :
              \/ TLCGet(i) = Len(AllTraces[i].ev) + 1
              \/ PrintT(<<"REJECTED", AllTraces[i].t,
                          IF TLCGet(i) = 0 THEN 0 ELSE TLCGet(i) - 1, Len(AllTraces[i].ev)>>)
        /\ PrintT("TRACEVALIDATION-DONE")
TrFile == Layer
TrKw == Layer
TrFail == AllFailKinds
=============================================================================
