----------------------------- MODULE MC_Config -----------------------------
EXTENDS Config
MCFile == Layer
MCKw == Layer
MCFail == AllFailKinds
View == state
ASSUME OverlayPrecedence
=============================================================================
