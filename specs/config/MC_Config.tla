----------------------------- MODULE MC_Config -----------------------------
EXTENDS Config
MCFile == FileLayer
MCKw == Layer
MCFail == AllFailKinds
View == state
ASSUME OverlayPrecedence
=============================================================================
