SPECIFICATION GSpec
CONSTANTS
  FileLayers <- GenFile
  KwLayers <- GenKw
  FailKinds <- GenFail
  D = 3
CONSTRAINT Emit
CHECK_DEADLOCK FALSE
