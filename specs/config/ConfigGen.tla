----------------------------- MODULE ConfigGen -----------------------------
(* Behaviour generator: Config plus a history variable; every behaviour of  *)
(* length D is printed as one JSON line for replay into the real code.      *)
EXTENDS Config, Json
CONSTANT D
VARIABLE hist
GInit == Init /\ hist = <<>>
GNext == Next /\ hist' = Append(hist, [ev |-> last', c |-> configured', v |-> vals'])
GSpec == GInit /\ [][GNext]_<<vars, hist>>
\* small but discriminating layer alphabets for exhaustive history generation
GenFile == {NoLayer,
            [uw |-> "false", sox |-> Absent, nox |-> "p3t3", wd |-> Absent],
            [uw |-> Absent, sox |-> "false", nox |-> "none", wd |-> "walt"]}
GenKw == {NoLayer,
          [uw |-> Absent, sox |-> "false", nox |-> Absent, wd |-> Absent],
          [uw |-> "true", sox |-> Absent, nox |-> "bffm2", wd |-> "wdefault"],
          [uw |-> Absent, sox |-> Absent, nox |-> Absent, wd |-> "null"]}
GenFail == AllFailKinds
SimFile == FileLayer
SimKw == Layer
\* random-walk step for -simulate: one successor per state, the operation kind
\* drawn first so that behaviours are not dominated by the 1296 load variants
SimNext == \E r \in {RandomElement(1..8)} :
  CASE r \in {1, 2} -> \E f \in {RandomElement(FileLayers)}, k \in {RandomElement(KwLayers)} : Load(f, k)
    [] r \in {3, 4} -> \E kind \in {RandomElement(FailKinds)} : LoadBad(kind)
    [] r = 5 -> Reset
    [] r = 6 -> Get
    [] r = 7 -> \E p \in {RandomElement(Paths)} : Read(p)
    [] r = 8 -> \E lv \in {RandomElement(MutLevels)} : Mutate(lv)
SNext == SimNext /\ hist' = Append(hist, [ev |-> last', c |-> configured', v |-> vals'])
SSpec == GInit /\ [][SNext]_<<vars, hist>>
Emit == IF Len(hist) < D THEN TRUE
        ELSE PrintT("@@" \o ToJson(hist)) /\ FALSE
=============================================================================
