SPECIFICATION TSpec
CONSTANTS
  FileLayers <- TrFile
  KwLayers <- TrKw
  FailKinds <- TrFail
CONSTRAINT Furthest
INVARIANT TypeOK
INVARIANT AtMostOne
PROPERTY FailedLoadLeavesNone
PROPERTY RefusalsChangeNothing
POSTCONDITION Post
CHECK_DEADLOCK FALSE
