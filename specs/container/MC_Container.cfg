SPECIFICATION CSpec
CONSTANTS
  Block = 3
  MaxLen = 8
INVARIANT CapacityCoversSize
INVARIANT ValuesAreAppendOrder
INVARIANT PointIsValidValue
CHECK_DEADLOCK FALSE
