----------------------------- MODULE ContainerGen -----------------------------
EXTENDS Container, Json
CONSTANT D
VARIABLE hist
\* random walk biased towards appends so that growth boundaries are crossed
SimNext == \E r \in {RandomElement(1..12)} :
   CASE r \in 1..7 -> AppendPt
     [] r \in {8, 9} -> \E i \in {RandomElement(-(Len(vals) + 1)..(Len(vals) + 1))} : Point(i)
     [] r = 10 -> LenOp
     [] r = 11 -> ReadAll
     [] r = 12 -> IF Len(vals) > Block THEN (\E q \in {RandomElement(1..6)} : IF q = 1 THEN Copy ELSE IF q = 2 THEN Fix ELSE AppendPt) ELSE AppendPt
SInit == CInit /\ hist = <<>>
SNext == SimNext /\ hist' = Append(hist, last')
SSpec == SInit /\ [][SNext]_<<cvars, hist>>
Emit == IF Len(hist) < D THEN TRUE ELSE PrintT("@@" \o ToJson(hist)) /\ FALSE
=============================================================================
