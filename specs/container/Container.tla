------------------------------- MODULE Container -------------------------------
(***************************************************************************)
(* Growable per-point container (src/AEIC/storage/container.py Container /   *)
(* Trajectory): pointwise fields live in buffers with spare capacity that     *)
(* grow in blocks; only the first `size` entries are valid.  One pointwise    *)
(* field is modelled (values are the append counter), which is enough to      *)
(* state what every reader must see: exactly the appended values, in order,   *)
(* whatever the capacity is.                                                  *)
(***************************************************************************)
EXTENDS Integers, Sequences, TLC

CONSTANTS Block, MaxLen

VARIABLES vals,        \* the valid values, in append order (reference semantics)
          capacity,    \* allocated slots
          extensible,  \* can still be appended to
          cnt,         \* values handed out so far
          last
cvars == <<vals, capacity, extensible, cnt, last>>
Reply(op, arg, ok, val) == [op |-> op, arg |-> arg, ok |-> ok, val |-> val]

CInit == vals = <<>> /\ capacity = Block /\ extensible = TRUE /\ cnt = 0 /\ last = Reply("new", 0, "yes", 0)

AppendPt == /\ Len(vals) < MaxLen
          /\ IF extensible
             THEN /\ vals' = Append(vals, cnt + 1) /\ cnt' = cnt + 1
                  /\ capacity' = IF Len(vals) = capacity THEN capacity + Block ELSE capacity
                  /\ last' = Reply("append", cnt + 1, "yes", Len(vals) + 1)
                  /\ UNCHANGED extensible
             ELSE /\ last' = Reply("append", cnt + 1, "no", 0) /\ UNCHANGED <<vals, capacity, extensible, cnt>>
\* make_point(i): python indexing relative to the VALID points, refused outside -size..size-1
Point(i) == /\ last' = IF i >= -Len(vals) /\ i < Len(vals)
                       THEN Reply("point", i, "yes", vals[IF i >= 0 THEN i + 1 ELSE Len(vals) + i + 1])
                       ELSE Reply("point", i, "no", 0)
            /\ UNCHANGED <<vals, capacity, extensible, cnt>>
LenOp == last' = Reply("len", 0, "yes", Len(vals)) /\ UNCHANGED <<vals, capacity, extensible, cnt>>
\* reading the field gives exactly the valid values
ReadAll == last' = Reply("read", 0, "yes", vals) /\ UNCHANGED <<vals, capacity, extensible, cnt>>
Fix == extensible' = FALSE /\ last' = Reply("fix", 0, "yes", 0) /\ UNCHANGED <<vals, capacity, cnt>>
\* a copy holds the same valid values and is not extensible; the walk continues on the copy
Copy == /\ extensible' = FALSE /\ capacity' = Len(vals)
        /\ last' = Reply("copy", 0, "yes", vals) /\ UNCHANGED <<vals, cnt>>
CNext == AppendPt \/ (\E i \in -(MaxLen + 1)..(MaxLen + 1) : Point(i)) \/ LenOp \/ ReadAll \/ Fix \/ Copy
CSpec == CInit /\ [][CNext]_cvars

CapacityCoversSize == capacity >= Len(vals)
ValuesAreAppendOrder == \A i \in DOMAIN vals : \A j \in DOMAIN vals : i < j => vals[i] < vals[j]
PointIsValidValue == (last.op = "point" /\ last.ok = "yes") => \E k \in DOMAIN vals : vals[k] = last.val
=============================================================================
