SPECIFICATION SSpec
CONSTANTS
  Block = 50
  MaxLen = 170
  D = 200
CONSTRAINT Emit
CHECK_DEADLOCK FALSE
